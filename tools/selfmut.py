#!/usr/bin/env python3
"""tools/selfmut.py [ids...] — a small mutation campaign of my own (not the independent seeded changes):
one-line changes to /repo, each applied, checked with the named quick checks, and reverted.
Writes work/selfmut/results.json.  A mutant that no check reports is printed as MISSED."""
import subprocess, json, sys, os
R = '/repo'
M = [
 # id, file, old, new, props
 ("S01", "consensus/src/core.rs", "        if vote.round < self.round {\n            return Ok(());\n        }\n", "", ["C09", "C19"]),
 ("S02", "consensus/src/core.rs", "        if timeout.round < self.round {\n            return Ok(());\n        }\n", "", ["C09", "C19", "C10"]),
 ("S03", "consensus/src/core.rs", "let safety_rule_1 = block.round > self.last_voted_round;", "let safety_rule_1 = block.round >= self.last_voted_round;", ["C03"]),
 ("S04", "consensus/src/core.rs", "            can_extend &= block.qc.round >= *tc.high_qc_rounds().iter().max().expect(\"Empty TC\");\n", "", ["C03", "C01"]),
 ("S09", "consensus/src/core.rs", "        // Check the block is correctly formed.\n        block.verify(&self.committee)?;\n\n        // Process the QC. This may allow us to advance round.\n        self.process_qc(&block.qc).await;\n", "        // Process the QC. This may allow us to advance round.\n        self.process_qc(&block.qc).await;\n\n        // Check the block is correctly formed.\n        block.verify(&self.committee)?;\n", ["C04", "C10"]),
 ("S10", "consensus/src/core.rs", "        tc.verify(&self.committee)?;\n        if tc.round < self.round {", "        if tc.round < self.round {", ["C04", "C10"]),
 ("S11", "consensus/src/aggregator.rs", "            self.weight = 0; // Ensures QC is only made once.\n", "", ["C19"]),
 ("S12", "consensus/src/aggregator.rs", "        // Ensure it is the first time this authority votes.\n        ensure!(\n            self.used.insert(author),\n            ConsensusError::AuthorityReuse(author)\n        );\n\n        // Add the timeout to the accumulator.", "        self.used.insert(author);\n        // Add the timeout to the accumulator.", ["C19"]),
 ("S14", "consensus/src/messages.rs", "            ensure!(!used.contains(name), ConsensusError::AuthorityReuse(*name));\n            let voting_rights = committee.stake(name);\n            ensure!(voting_rights > 0, ConsensusError::UnknownAuthority(*name));\n            used.insert(*name);\n            weight += voting_rights;\n        }\n        ensure!(\n            weight >= committee.quorum_threshold(),\n            ConsensusError::QCRequiresQuorum", "            let voting_rights = committee.stake(name);\n            ensure!(voting_rights > 0, ConsensusError::UnknownAuthority(*name));\n            used.insert(*name);\n            weight += voting_rights;\n        }\n        ensure!(\n            weight >= committee.quorum_threshold(),\n            ConsensusError::QCRequiresQuorum", ["C04"]),
 ("S15", "consensus/src/messages.rs", "        if self.high_qc != QC::genesis() {\n            self.high_qc.verify(committee)?;\n        }\n", "", ["C04", "C10"]),
 ("S16", "consensus/src/messages.rs", "        // Ensure the authority has voting rights.\n        ensure!(\n            committee.stake(&self.author) > 0,\n            ConsensusError::UnknownAuthority(self.author)\n        );\n\n        // Check the signature.\n        self.signature.verify(&self.digest(), &self.author)?;\n        Ok(())", "        // Check the signature.\n        self.signature.verify(&self.digest(), &self.author)?;\n        Ok(())", ["C04", "C19"]),
 ("S23", "consensus/src/core.rs", "        if self.last_committed_round >= block.round {", "        if self.last_committed_round > block.round {", ["C02"]),
 ("S24", "consensus/src/core.rs", "        if b0.round + 1 == b1.round {\n            self.mempool_driver.cleanup(b0.round).await;", "        if b0.round + 1 == b1.round && b1.round + 1 == block.round {\n            self.mempool_driver.cleanup(b0.round).await;", ["C06", "C05", "C02"]),
 ("S25", "consensus/src/core.rs", "        // Increase the last voted round.\n        self.increase_last_voted_round(self.round);\n\n        // Make a timeout message.\n        let timeout = Timeout::new(\n            self.high_qc.clone(),", "        // Increase the last voted round.\n        self.increase_last_voted_round(self.round);\n\n        // Make a timeout message.\n        let timeout = Timeout::new(\n            QC::genesis(),", ["C10"]),
 ("S26", "consensus/src/core.rs", "        if qc.round > self.high_qc.round {", "        if qc.round > self.high_qc.round + 1 {", ["C10", "C06"]),
 ("S27", "consensus/src/helper.rs", None, None, []),
 ("S28", "mempool/src/quorum_waiter.rs", "                    let mut total_stake = self.stake;", "                    let mut total_stake = self.stake + 1;", ["C12"]),
 ("S29", "consensus/src/config.rs", "        2 * total_votes / 3 + 1", "        (2 * total_votes + 2) / 3", ["C17"]),
 ("S30", "consensus/src/leader.rs", None, None, []),
 ("S31", "mempool/src/synchronizer.rs", "                    for (digest, (_, _, timestamp)) in &self.pending {\n                        if timestamp + (self.sync_retry_delay as u128) < now {\n                            debug!(\"Requesting sync for batch {} (retry)\", digest);\n                            retry.push(digest.clone());\n                        }\n                    }", "                    for (digest, (_, _, timestamp)) in self.pending.iter_mut() {\n                        if *timestamp + (self.sync_retry_delay as u128) < now {\n                            debug!(\"Requesting sync for batch {} (retry)\", digest);\n                            retry.push(digest.clone());\n                        }\n                        *timestamp = now;\n                    }", ["C13"]),
 ("S32", "mempool/src/processor.rs", "                store.write(digest.to_vec(), batch).await;\n\n                tx_digest.send(digest).await.expect(\"Failed to send digest\");", "                tx_digest.send(digest.clone()).await.expect(\"Failed to send digest\");\n\n                store.write(digest.to_vec(), batch).await;", ["C11", "C13", "C08"]),
 ("S33", "consensus/src/proposer.rs", "                        for x in &digests {\n                            self.buffer.remove(x);\n                        }", "                        let _ = &digests;\n                        self.buffer.clear();", ["C13"]),
 ("S34", "consensus/src/core.rs", "        self.store_block(block).await;\n\n        self.cleanup_proposer(&b0, &b1, block).await;", "        self.cleanup_proposer(&b0, &b1, block).await;", ["C07", "C02", "C05"]),
 ("S35", "store/src/lib.rs", None, None, []),
]
def sh(cmd, **kw):
    return subprocess.run(cmd, shell=True, capture_output=True, text=True, **kw)
def main():
    want = set(sys.argv[1:])
    res = {}
    out = '/verif/work/selfmut/results.json'
    if os.path.exists(out):
        res = json.load(open(out))
    for (mid, f, old, new, props) in M:
        if old is None or (want and mid not in want):
            continue
        assert sh(f"git -C {R} status --short").stdout.strip() == "", "repo dirty"
        p = os.path.join(R, f)
        s = open(p).read()
        if s.count(old) != 1:
            print(mid, "pattern count", s.count(old)); res[mid] = {"error": "pattern"}; continue
        open(p, 'w').write(s.replace(old, new))
        sh(f"git -C {R} diff > /verif/work/selfmut/{mid}.diff")
        r = {"props": {}}
        try:
            t = sh(f"cd {R} && timeout 900 cargo test --offline 2>&1 | grep -E 'test result|FAILED|error(\\[|:)' | head -20; pkill -f '{R}/target/debug/deps/' || true")
            fails = [l for l in t.stdout.split('\n') if 'FAILED' in l or l.startswith('error')]
            r["tests_pass"] = not fails
            for pr in props:
                c = sh(f"cd /verif && ./check {pr} quick 2>&1 | tail -2")
                lines = c.stdout.strip().split('\n')
                viol = [l for l in lines if l.startswith('VIOLATION')]
                r["props"][pr] = ("replay" if viol and 'no-failing-input-found' not in viol[0] else "no-failing-input" if viol else "MISSED")
        finally:
            sh(f"git -C {R} checkout -- .")
        res[mid] = r
        print(mid, json.dumps(r), flush=True)
        json.dump(res, open(out, 'w'), indent=1)
main()
