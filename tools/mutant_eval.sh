#!/bin/bash
# tools/mutant_eval.sh <worktree-id under /tmp/mut> <seeded-id> <demo test filter> <prop> [props...]
# confirm the sub-agent's change in its own worktree, keep it under seeded/<id>, run the checks against it
WT=/tmp/mut/$1; ID=$2; FILTER=$3; shift 3
cd /verif
echo "### confirm $ID"
tools/mutant_confirm.sh $WT "--workspace" "$FILTER" 2>&1 | tail -24
mkdir -p seeded/$ID
cp $WT/deliver/patch.diff $WT/deliver/demo.diff $WT/deliver/NOTES.md seeded/$ID/
echo "### check $ID $*"
tools/mutant_check.sh $ID "$@" 2>&1 | cut -c1-300
