#!/bin/bash
# usage: mutant_eval.sh <worktree> <prop> <seeded-id> <demo test filter> <crate>
# confirms the demo (fails with patch, passes without), then runs ./check <prop> quick on /repo with the patch applied.
WT=$1; PROP=$2; ID=$3; FILTER=$4; CRATE=${5:-consensus}
set -u
export CARGO_TARGET_DIR=$WT/target
cd $WT
echo "== with patch + demo:"; cargo test -p $CRATE --offline $FILTER 2>&1 | grep -E "^test .*(ok|FAILED)|test result" | head -6
git apply -R deliver/patch.diff && { echo "== demo only:"; cargo test -p $CRATE --offline $FILTER 2>&1 | grep -E "^test .*(ok|FAILED)|test result" | head -6; git apply deliver/patch.diff; }
mkdir -p /verif/seeded/$ID && cp deliver/patch.diff deliver/demo.diff deliver/NOTES.md /verif/seeded/$ID/ 2>/dev/null
cd /verif
git -C /repo apply /verif/seeded/$ID/patch.diff && { echo "== check $PROP quick on patched /repo:"; ./check $PROP quick 2>&1 | tail -3; git -C /repo checkout -- .; }
git -C /repo status --short | wc -l
