#!/bin/bash
# usage: mutant_check.sh <seeded-id> <prop> [more props...]   — apply seeded/<id>/patch.diff to /repo, run quick checks, undo
ID=$1; shift
git -C /repo apply /verif/seeded/$ID/patch.diff || exit 1
for P in "$@"; do ./check $P quick 2>&1 | tail -2; done
git -C /repo checkout -- .
test "$(git -C /repo status --short | wc -l)" = 0 || echo "REPO NOT CLEAN"
