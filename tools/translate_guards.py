#!/usr/bin/env python3
"""Rust -> Lean translator for the decision guards of consensus/src/core.rs.

Every comparison that decides what `Core` does (stale-message guards, the two safety rules of
`make_vote`, the 2-chain commit rule, the commit walk, the round check before voting, the high-QC
update) is read from the CURRENT source, parsed (integers, `+`, comparisons, `&& || !`, parentheses,
field paths) and emitted as a reducible Lean definition in HotstuffModel/Generated/Guards.lean.
The node model (Model/Node.lean) calls these definitions, so every theorem about the model is
re-checked against the guards the code has now; a changed guard changes the definition and the
proofs that needed the old one stop type-checking.

Anything the parser does not understand, or a guard that is not found exactly once, makes the
translation fail (exit 3): the proofs are then about stale guards and `check` reports that.
"""
import re, sys, os, json
sys.path.insert(0, os.path.dirname(os.path.abspath(__file__)))
from translate import fn_body, strip_comments, NotTranslatable, write_if_changed, REPO

TOK = re.compile(r'\s*(?:(\d[\d_]*)(?:u32|u64|usize)?|([A-Za-z_][A-Za-z0-9_]*(?:\s*\.\s*[A-Za-z_][A-Za-z0-9_]*)*)|(<=|>=|==|!=|&&|\|\||[<>!+()*]))')

def tokenize(e):
    out, pos, e = [], 0, e.strip()
    while pos < len(e):
        m = TOK.match(e, pos)
        if not m or m.end() == pos:
            raise NotTranslatable("cannot tokenise guard expression: " + e)
        pos = m.end()
        if m.group(1) is not None: out.append(('num', int(m.group(1).replace('_', ''))))
        elif m.group(2) is not None: out.append(('path', re.sub(r'\s+', '', m.group(2))))
        else: out.append(('op', m.group(3)))
    return out

class Parser:
    def __init__(self, toks, env, src): self.t, self.i, self.env, self.src = toks, 0, env, src
    def peek(self): return self.t[self.i] if self.i < len(self.t) else (None, None)
    def eat(self): x = self.peek(); self.i += 1; return x
    def isop(self, *ops): return self.peek()[0] == 'op' and self.peek()[1] in ops
    def or_(self):
        l = self.and_()
        while self.isop('||'): self.eat(); l = ('||', l, self.and_())
        return l
    def and_(self):
        l = self.cmp()
        while self.isop('&&'): self.eat(); l = ('&&', l, self.cmp())
        return l
    def cmp(self):
        l = self.sum()
        if self.isop('<', '<=', '>', '>=', '==', '!='):
            op = self.eat()[1]; return (op, l, self.sum())
        return l
    def sum(self):
        l = self.atom()
        while self.isop('+'): self.eat(); l = ('+', l, self.atom())
        return l
    def atom(self):
        k, v = self.eat()
        if k == 'num': return ('num', v)
        if k == 'path':
            if v in self.env: return ('var', self.env[v])
            raise NotTranslatable(f"guard `{self.src}`: unknown operand `{v}`")
        if (k, v) == ('op', '*'): return self.atom()          # deref
        if (k, v) == ('op', '!'): return ('!', self.atom())
        if (k, v) == ('op', '('):
            e = self.or_()
            if self.eat() != ('op', ')'): raise NotTranslatable(f"guard `{self.src}`: expected )")
            return e
        raise NotTranslatable(f"guard `{self.src}`: unexpected token {v!r}")

def parse(e, env):
    p = Parser(tokenize(e), env, e)
    r = p.or_()
    if p.i != len(p.t): raise NotTranslatable(f"guard `{e}`: trailing tokens")
    return r

PROP = {'<': '<', '<=': '≤', '>': '>', '>=': '≥', '==': '=', '!=': '≠', '&&': '∧', '||': '∨'}
def lean(t, kind):
    if t[0] == 'num': return str(t[1])
    if t[0] == 'var': return t[1]
    if t[0] == '+': return f"({lean(t[1], kind)} + {lean(t[2], kind)})"
    if t[0] == '!': return f"(¬ {lean(t[1], kind)})" if kind == 'prop' else f"(!{lean(t[1], kind)})"
    if kind == 'prop': return f"({lean(t[1], kind)} {PROP[t[0]]} {lean(t[2], kind)})"
    if t[0] in ('==', '!=', '&&', '||'): return f"({lean(t[1], kind)} {t[0]} {lean(t[2], kind)})"
    return f"(decide ({lean(t[1], 'prop')} {PROP[t[0]]} {lean(t[2], 'prop')}))"

def norm(s): return ' '.join(s.split())

def conds(body, kw):
    """conditions of every `if COND {` / `while COND {` in a (comment-free) body"""
    return [norm(m.group(1)) for m in re.finditer(r'\b' + kw + r'\s+((?:(?!\blet\b)[^{;])+?)\s*\{', body)]

def pick(cands, must, what):
    hits = [c for c in cands if all(re.search(m, c) for m in must)]
    if len(hits) != 1:
        raise NotTranslatable(f"{what}: expected exactly one guard mentioning {must}, found {hits!r}")
    return hits[0]

# name, fn, keyword, operands the condition must mention, operand map, kind, doc
GUARDS = [
 ("voteStale", "handle_vote", "if", [r'vote\.round'], {"vote.round": "voteRound", "self.round": "round"}, "prop",
  "handle_vote: the vote is dropped without any check"),
 ("timeoutStale", "handle_timeout", "if", [r'timeout\.round'], {"timeout.round": "timeoutRound", "self.round": "round"}, "prop",
  "handle_timeout: the timeout is dropped without any check"),
 ("tcStale", "handle_tc", "if", [r'tc\.round', r'self\.round'], {"tc.round": "tcRound", "self.round": "round"}, "prop",
  "handle_tc: a verified TC is ignored"),
 ("advanceStale", "advance_round", "if", [r'\bround\b'], {"round": "certRound", "self.round": "round"}, "prop",
  "advance_round: the certificate does not move the round"),
 ("newHighQC", "update_high_qc", "if", [r'qc\.round'], {"qc.round": "qcRound", "self.high_qc.round": "highQCRound"}, "prop",
  "update_high_qc: the QC replaces high_qc"),
 ("alreadyCommitted", "commit", "if", [r'block\.round', r'last_committed_round'], {"block.round": "blockRound", "self.last_committed_round": "lastCommitted"}, "prop",
  "commit: nothing to do"),
 ("walkOn", "commit", "while", [r'parent\.round'], {"parent.round": "parentRound", "self.last_committed_round": "lastCommitted"}, "prop",
  "commit: the ancestor walk continues"),
 ("walkStop", "commit", "if", [r'ancestor\.round'], {"ancestor.round": "ancestorRound", "self.last_committed_round": "lastCommitted"}, "prop",
  "commit: the walk stops at an ancestor that is already committed"),
 ("twoChainRule", "process_block", "if", [r'b0\.round', r'b1\.round'], {"b0.round": "b0Round", "b1.round": "b1Round"}, "bool",
  "process_block: the 2-chain b0 <- b1 is consecutive, b0 is committed"),
 ("wrongRound", "process_block", "if", [r'block\.round', r'self\.round'], {"block.round": "blockRound", "self.round": "round"}, "bool",
  "process_block: the block is not voted because it is not of the node's round"),
]

def let_rhs(body, name, what):
    m = re.findall(r'\blet\s+(?:mut\s+)?' + name + r'\s*=\s*([^;]+);', body)
    if len(m) != 1: raise NotTranslatable(f"{what}: `let {name} = …;` not found exactly once")
    return norm(m[0])

def translate():
    src = strip_comments(open(f"{REPO}/consensus/src/core.rs").read())
    defs, info = [], {}
    for name, fn, kw, must, env, kind, doc in GUARDS:
        body = fn_body(src, fn)
        c = pick(conds(body, kw), must, f"{fn}/{name}")
        t = parse(c, env)
        params = []
        for v in env.values():
            if v not in params: params.append(v)
        defs.append((name, params, kind, lean(t, kind), f"{doc}  (`{kw} {c}`)"))
        info[name] = c
    # make_vote: the two safety rules
    mv = fn_body(src, "make_vote")
    r1 = let_rhs(mv, "safety_rule_1", "make_vote")
    r2 = let_rhs(mv, "safety_rule_2", "make_vote")
    ce = let_rhs(mv, "can_extend", "make_vote")
    m = re.findall(r'\bcan_extend\s*&=\s*([^;]+);', mv)
    if len(m) != 1: raise NotTranslatable("make_vote: `can_extend &= …;` not found exactly once")
    hq = norm(m[0])
    hq2 = re.sub(r'\*?\s*tc\s*\.\s*high_qc_rounds\s*\(\s*\)\s*\.\s*iter\s*\(\s*\)\s*\.\s*max\s*\(\s*\)\s*\.\s*(expect\s*\(\s*"[^"]*"\s*\)|unwrap\s*\(\s*\))', 'MAXHQ', hq)
    if 'MAXHQ' not in hq2: raise NotTranslatable("make_vote: maximum of the TC's high-QC rounds not recognised in `" + hq + "`")
    nm = norm(mv)
    for pat, what in [(r'if let Some\(ref tc\) = block\.tc \{', "TC branch"),
                      (r'safety_rule_2 \|= can_extend;', "`safety_rule_2 |= can_extend`"),
                      (r'if !\(safety_rule_1 && safety_rule_2\) \{ return None; \}', "`if !(safety_rule_1 && safety_rule_2) { return None; }`"),
                      (r'self\.increase_last_voted_round\(block\.round\);', "`increase_last_voted_round(block.round)`")]:
        if not re.search(pat, nm): raise NotTranslatable("make_vote: " + what + " not found")
    envv = {"block.round": "blockRound", "self.last_voted_round": "lastVoted", "block.qc.round": "qcRound", "tc.round": "tcRound", "MAXHQ": "maxHighQC"}
    defs.append(("safetyRule1", ["blockRound", "lastVoted"], "bool", lean(parse(r1, envv), "bool"), f"make_vote: `safety_rule_1 = {r1}`"))
    defs.append(("viaQC", ["qcRound", "blockRound"], "bool", lean(parse(r2, envv), "bool"), f"make_vote: `safety_rule_2 = {r2}`"))
    defs.append(("viaTCRound", ["tcRound", "blockRound"], "bool", lean(parse(ce, envv), "bool"), f"make_vote: `can_extend = {ce}`"))
    defs.append(("viaTCHighQC", ["qcRound", "maxHighQC"], "bool", lean(parse(hq2, envv), "bool"), f"make_vote: `can_extend &= {hq}`"))
    info.update({"safetyRule1": r1, "viaQC": r2, "viaTCRound": ce, "viaTCHighQC": hq})
    # bookkeeping statements whose exact shape the model relies on
    for fn, pat, what in [("advance_round", r'self\.round = round \+ 1;', "`self.round = round + 1`"),
                          ("increase_last_voted_round", r'self\.last_voted_round = max\(self\.last_voted_round, target\);', "`last_voted_round = max(last_voted_round, target)`"),
                          ("local_timeout_round", r'self\.increase_last_voted_round\(self\.round\);', "`increase_last_voted_round(self.round)`"),
                          ("commit", r'self\.last_committed_round = block\.round;', "`last_committed_round = block.round`"),
                          ("update_high_qc", r'self\.high_qc = qc\.clone\(\);', "`high_qc = qc.clone()`")]:
        if not re.search(pat, norm(fn_body(src, fn))): raise NotTranslatable(f"{fn}: {what} not found")
    return defs, info

def impl_body(src, ty):
    m = re.search(r'\bimpl\s+' + re.escape(ty) + r'\s*\{', src)
    if not m: raise NotTranslatable(f"impl {ty} not found")
    i = src.index('{', m.start()); depth = 0; j = i
    while True:
        c = src[j]
        if c == '{': depth += 1
        elif c == '}':
            depth -= 1
            if depth == 0: break
        j += 1
    return src[i + 1:j]

def ensures(body):
    """first arguments of every `ensure!(COND, ERR)` in a body"""
    out = []
    for m in re.finditer(r'\bensure!\s*\(', body):
        i = m.end(); depth = 1; j = i
        while depth:
            c = body[j]
            if c in '([{': depth += 1
            elif c in ')]}': depth -= 1
            j += 1
        args = body[i:j - 1]
        # split at the top-level comma
        d = 0
        for k, c in enumerate(args):
            if c in '([{': d += 1
            elif c in ')]}': d -= 1
            elif c == ',' and d == 0:
                out.append(norm(args[:k])); break
    return out

def translate_certs():
    """quorum / stake guards of the certificate makers (aggregator.rs) and of the five `verify`
    functions (messages.rs)"""
    defs, info = [], {}
    agg = strip_comments(open(f"{REPO}/consensus/src/aggregator.rs").read())
    for ty, name in [("QCMaker", "qcMakerQuorum"), ("TCMaker", "tcMakerQuorum")]:
        body = fn_body(impl_body(agg, ty), "append")
        c = pick(conds(body, "if"), [r'weight', r'quorum_threshold'], f"{ty}::append")
        c2 = re.sub(r'committee\s*\.\s*quorum_threshold\s*\(\s*\)', 'QUORUM', c)
        t = parse(c2, {"self.weight": "weight", "QUORUM": "quorum"})
        defs.append((name, ["weight", "quorum"], "prop", lean(t, "prop"), f"{ty}::append: the certificate is returned  (`if {c}`)"))
        info[name] = c
        if not re.search(r'self\.weight \+= committee\.stake\(&author\);', norm(body)):
            raise NotTranslatable(f"{ty}::append: `self.weight += committee.stake(&author)` not found")
        if not re.search(r'ensure!\( self\.used\.insert\(author\), ConsensusError::AuthorityReuse\(author\) \);', norm(body)):
            raise NotTranslatable(f"{ty}::append: the `used.insert(author)` guard not found")
    msg = strip_comments(open(f"{REPO}/consensus/src/messages.rs").read())
    for ty, qn, sn in [("QC", "qcVerifyQuorum", "qcSignerStake"), ("TC", "tcVerifyQuorum", "tcSignerStake")]:
        body = fn_body(impl_body(msg, ty), "verify")
        es = ensures(body)
        q = pick(es, [r'weight', r'quorum_threshold'], f"{ty}::verify quorum")
        q2 = re.sub(r'committee\s*\.\s*quorum_threshold\s*\(\s*\)', 'QUORUM', q)
        defs.append((qn, ["weight", "quorum"], "bool", lean(parse(q2, {"weight": "weight", "QUORUM": "quorum"}), "bool"), f"{ty}::verify: `ensure!({q}, …)`"))
        st = pick(es, [r'voting_rights'], f"{ty}::verify stake")
        defs.append((sn, ["stake"], "bool", lean(parse(st, {"voting_rights": "stake"}), "bool"), f"{ty}::verify: `ensure!({st}, …)` for every signer"))
        ru = pick(es, [r'used'], f"{ty}::verify reuse")
        if ru != "!used.contains(name)": raise NotTranslatable(f"{ty}::verify: signer-reuse guard is `{ru}`")
        info[qn] = q; info[sn] = st
        n = norm(body)
        if not (re.search(r'let voting_rights = committee\.stake\(name\);', n) and re.search(r'weight \+= voting_rights;', n) and re.search(r'used\.insert\(\*name\);', n)):
            raise NotTranslatable(f"{ty}::verify: signer loop not recognised")
    # the model shares one signer loop (`checkSigners`) between QC::verify and TC::verify
    a = [d for d in defs if d[0] == "qcSignerStake"][0]; b = [d for d in defs if d[0] == "tcSignerStake"][0]
    if a[3] != b[3]:
        raise NotTranslatable("QC::verify and TC::verify test the signers' stake differently; the model shares one loop")
    defs.append(("certSignerStake", ["stake"], "bool", a[3], "the stake test of the signer loop shared by QC::verify and TC::verify"))
    for ty, sn in [("Block", "blockAuthorStake"), ("Vote", "voteAuthorStake"), ("Timeout", "timeoutAuthorStake")]:
        body = fn_body(impl_body(msg, ty), "verify")
        es = ensures(body)
        st = pick(es, [r'voting_rights|stake'], f"{ty}::verify stake")
        st2 = re.sub(r'committee\s*\.\s*stake\s*\(\s*&self\.author\s*\)', 'STAKE', st)
        if ty == "Block" and not re.search(r'let voting_rights = committee\.stake\(&self\.author\);', norm(body)):
            raise NotTranslatable("Block::verify: voting_rights is not the author's stake")
        defs.append((sn, ["stake"], "bool", lean(parse(st2, {"voting_rights": "stake", "STAKE": "stake"}), "bool"), f"{ty}::verify: `ensure!({st}, …)`"))
        info[sn] = st
    return defs, info

def translate_mempool():
    """seal guards of the batch maker, quorum test of the quorum waiter (mempool crate)"""
    defs, info = [], {}
    bm = strip_comments(open(f"{REPO}/mempool/src/batch_maker.rs").read())
    body = fn_body(bm, "run")
    cs = conds(body, "if")
    c = pick(cs, [r'batch_size'], "BatchMaker::run size guard")
    t = parse(c, {"self.current_batch_size": "size", "self.batch_size": "batchSize"})
    defs.append(("sealOnSize", ["size", "batchSize"], "prop", lean(t, "prop"), f"BatchMaker::run: seal after a transaction  (`if {c}`)"))
    info["sealOnSize"] = c
    rest = [x for x in cs if x != c]
    if len(rest) != 1:
        raise NotTranslatable(f"BatchMaker::run: expected exactly one more `if` (the timer guard), found {rest!r}")
    tg = rest[0]
    tg2 = re.sub(r'self\s*\.\s*current_batch\s*\.\s*is_empty\s*\(\s*\)', 'BATCHEMPTY', tg)
    t = parse(tg2, {"BATCHEMPTY": "batchEmpty", "self.current_batch_size": "size", "self.batch_size": "batchSize"})
    defs.append(("sealOnTimer", ["batchEmpty", "size"], "boolmixed", None, f"BatchMaker::run: seal when the timer fires  (`if {tg}`)"))
    defs[-1] = ("sealOnTimer", [("batchEmpty", "Bool"), ("size", "Nat")], "bool", lean_mixed(t), f"BatchMaker::run: seal when the timer fires  (`if {tg}`)")
    info["sealOnTimer"] = tg
    n = norm(body)
    for pat, what in [(r'self\.current_batch_size \+= transaction\.len\(\);', "`current_batch_size += transaction.len()`"),
                      (r'self\.current_batch\.push\(transaction\);', "`current_batch.push(transaction)`")]:
        if not re.search(pat, n): raise NotTranslatable("BatchMaker::run: " + what + " not found")
    sl = norm(fn_body(bm, "seal"))
    for pat, what in [(r'self\.current_batch_size = 0;', "`current_batch_size = 0` in seal"),
                      (r'self\.current_batch\.drain\(\.\.\)\.collect\(\)', "`current_batch.drain(..)` in seal")]:
        if not re.search(pat, sl): raise NotTranslatable("BatchMaker::seal: " + what + " not found")
    # Processor: the batch is written to the store BEFORE its digest is announced (the models and
    # C08/C11/C13 rely on that order; a digest that precedes its batch is a race nobody can observe
    # on a single-threaded runtime, so the statement order itself is checked)
    pr = norm(strip_comments(open(f"{REPO}/mempool/src/processor.rs").read()))
    if not re.search(r'store\.write\(digest\.to_vec\(\), batch\)\.await; tx_digest\.send\(digest\)\.await', pr):
        raise NotTranslatable("Processor: `store.write(digest, batch)` no longer directly precedes `tx_digest.send(digest)`")
    if not re.search(r'let digest = Digest\(Sha512::digest\(&batch\)\.as_slice\(\)\[\.\.32\]\.try_into\(\)\.unwrap\(\)\);', pr):
        raise NotTranslatable("Processor: the digest is no longer the first 32 bytes of SHA-512 of the batch bytes")
    qw = strip_comments(open(f"{REPO}/mempool/src/quorum_waiter.rs").read())
    body = fn_body(qw, "run")
    c = pick(conds(body, "if"), [r'total_stake', r'quorum_threshold'], "QuorumWaiter::run")
    c2 = re.sub(r'self\s*\.\s*committee\s*\.\s*quorum_threshold\s*\(\s*\)', 'QUORUM', c)
    t = parse(c2, {"total_stake": "total", "QUORUM": "quorum"})
    defs.append(("waiterQuorum", ["total", "quorum"], "prop", lean(t, "prop"), f"QuorumWaiter::run: the batch is forwarded  (`if {c}`)"))
    info["waiterQuorum"] = c
    n = norm(body)
    for pat, what in [(r'let mut total_stake = self\.stake;', "`let mut total_stake = self.stake`"),
                      (r'total_stake \+= stake;', "`total_stake += stake`")]:
        if not re.search(pat, n): raise NotTranslatable("QuorumWaiter::run: " + what + " not found")
    return defs, info

def translate_sync():
    """retry guards of the two synchronizers, and the bookkeeping statements of the consensus one"""
    defs, info = [], {}
    cs = strip_comments(open(f"{REPO}/consensus/src/synchronizer.rs").read())
    body = fn_body(cs, "new")
    def retry_guard(body, delay, what):
        c = pick(conds(body, "if"), [r'timestamp', r'now'], what)
        c2 = re.sub(r'\(\s*' + re.escape(delay) + r'\s+as\s+u128\s*\)', 'DELAY', c)
        if 'DELAY' not in c2: raise NotTranslatable(f"{what}: `({delay} as u128)` not found in `{c}`")
        return c, parse(c2, {"timestamp": "timestamp", "DELAY": "delay", "now": "now"})
    c, t = retry_guard(body, "sync_retry_delay", "consensus Synchronizer timer branch")
    defs.append(("syncRetryDue", ["timestamp", "delay", "now"], "prop", lean(t, "prop"), f"consensus Synchronizer, timer branch: the request is re-broadcast  (`if {c}`)"))
    info["syncRetryDue"] = c
    n = norm(body)
    for pat, what in [(r'if pending\.insert\(block\.digest\(\)\) \{', "`if pending.insert(block.digest())`"),
                      (r'if !requests\.contains_key\(&parent\) ?\{', "`if !requests.contains_key(&parent)`"),
                      (r'let fut = Self::waiter\(store_copy\.clone\(\), parent\.clone\(\), block\); waiting\.push\(fut\); if !requests\.contains_key\(&parent\) ?\{', "a waiter for EVERY suspended block, pushed before the `requests` test"),
                      (r'requests\.insert\(parent\.clone\(\), now\);', "`requests.insert(parent.clone(), now)`"),
                      (r'let address = committee \.address\(&author\)', "first request addressed to the block's author"),
                      (r'network\.send\(address, Bytes::from\(message\)\)\.await;', "`network.send(address, …)`"),
                      (r'let _ = pending\.remove\(&block\.digest\(\)\);', "`pending.remove(&block.digest())`"),
                      (r'let _ = requests\.remove\(block\.parent\(\)\);', "`requests.remove(block.parent())`"),
                      (r'for \(digest, timestamp\) in &requests \{', "`for (digest, timestamp) in &requests`"),
                      (r'let addresses = committee \.broadcast_addresses\(&name\)', "retry addressed to `broadcast_addresses(&name)`"),
                      (r'network\.broadcast\(addresses, Bytes::from\(message\)\)\.await;', "`network.broadcast(addresses, …)`")]:
        if not re.search(pat, n): raise NotTranslatable("consensus Synchronizer: " + what + " not found")
    ms = strip_comments(open(f"{REPO}/mempool/src/synchronizer.rs").read())
    c, t = retry_guard(fn_body(ms, "run"), "self.sync_retry_delay", "mempool Synchronizer timer branch")
    defs.append(("mpRetryDue", ["timestamp", "delay", "now"], "prop", lean(t, "prop"), f"mempool Synchronizer, timer branch: the digest is re-requested  (`if {c}`)"))
    info["mpRetryDue"] = c
    return defs, info

def translate_proposer():
    """the ACK wait at the end of Proposer::make_block (consensus/src/proposer.rs)"""
    pr = strip_comments(open(f"{REPO}/consensus/src/proposer.rs").read())
    body = fn_body(pr, "make_block")
    c = pick(conds(body, "if"), [r'total_stake', r'quorum_threshold'], "Proposer::make_block")
    c2 = re.sub(r'self\s*\.\s*committee\s*\.\s*quorum_threshold\s*\(\s*\)', 'QUORUM', c)
    t = parse(c2, {"total_stake": "total", "QUORUM": "quorum"})
    n = norm(body)
    for pat, what in [(r'let mut total_stake = self\.committee\.stake\(&self\.name\);', "`let mut total_stake = self.committee.stake(&self.name)`"),
                      (r'while let Some\(stake\) = wait_for_quorum\.next\(\)\.await \{ total_stake \+= stake;', "`while let Some(stake) = wait_for_quorum.next().await { total_stake += stake; …`"),
                      (r'let stake = self\.committee\.stake\(&name\);', "`let stake = self.committee.stake(&name)` for each waiter")]:
        if not re.search(pat, n): raise NotTranslatable("Proposer::make_block: " + what + " not found")
    return [("proposerQuorum", ["total", "quorum"], "prop", lean(t, "prop"), f"Proposer::make_block: the wait for ACKs ends  (`if {c}`)")], {"proposerQuorum": c}

def translate_timer():
    """the deadline `Timer::reset` sets (consensus/src/timer.rs) and the places `Core` resets its timer"""
    tm = strip_comments(open(f"{REPO}/consensus/src/timer.rs").read())
    body = norm(fn_body(tm, "reset"))
    m = re.fullmatch(r'self\.sleep \.as_mut\(\) \.reset\((.+)\);', body) or re.fullmatch(r'self\.sleep\.as_mut\(\)\.reset\((.+)\);', body)
    if not m: raise NotTranslatable("Timer::reset: expected a single `self.sleep.as_mut().reset(DEADLINE);`, found `" + body + "`")
    e = m.group(1)
    e2 = re.sub(r'Instant::now\(\)', 'NOW', e)
    e2 = re.sub(r'Duration::from_millis\(self\.duration\)', 'DURATION', e2)
    t = parse(e2, {"NOW": "now", "DURATION": "duration"})
    nb = norm(fn_body(tm, "new"))
    if not re.search(r'sleep\(Duration::from_millis\(duration\)\)', nb):
        raise NotTranslatable("Timer::new: `sleep(Duration::from_millis(duration))` not found")
    core = strip_comments(open(f"{REPO}/consensus/src/core.rs").read())
    for fn in ("local_timeout_round", "advance_round", "run"):
        if not re.search(r'self\.timer\.reset\(\);', norm(fn_body(core, fn))):
            raise NotTranslatable(f"{fn}: `self.timer.reset()` not found")
    return [("timerDeadline", ["now", "duration"], "nat", lean(t, "prop"), f"Timer::reset: the new deadline  (`reset({e})`)")], {"timerDeadline": e}

def lean_mixed(t):
    """Bool-valued rendering where variables may already be Bool"""
    if t[0] == 'var': return t[1]
    if t[0] == '!': return f"(!{lean_mixed(t[1])})"
    if t[0] in ('&&', '||'): return f"({lean_mixed(t[1])} {t[0]} {lean_mixed(t[2])})"
    return lean(t, "bool")

def render(defs):
    out = ["/-", "GENERATED by /verif/tools/translate_guards.py from the current /repo/consensus/src/core.rs — do not edit.",
           "The decision guards of `Core`, as the source states them now.  `Model/Node.lean` calls them.", "-/", "namespace Gen", ""]
    for name, params, kind, body, doc in defs:
        if params and isinstance(params[0], tuple):
            sig = " ".join(f"({n} : {ty})" for n, ty in params)
            out.append(f"/-- {doc} -/")
            out.append(f"@[reducible] def {name} {sig} : Bool := {body}")
            out.append("")
            continue
        ps = " ".join(params)
        out.append(f"/-- {doc} -/")
        if kind == "nat":
            out.append(f"@[reducible] def {name} ({ps} : Nat) : Nat := {body}")
        elif kind == "prop":
            out.append(f"@[reducible] def {name} ({ps} : Nat) : Prop := {body}")
            out.append(f"instance ({ps} : Nat) : Decidable ({name} {ps}) := by unfold {name}; infer_instance")
        else:
            out.append(f"@[reducible] def {name} ({ps} : Nat) : Bool := {body}")
        out.append("")
    out.append("end Gen")
    return "\n".join(out) + "\n"

def main():
    out = sys.argv[1] if len(sys.argv) > 1 else "/verif/lean/HotstuffModel/Generated/Guards.lean"
    try:
        defs, info = translate()
        d2, i2 = translate_certs()
        defs += d2; info.update(i2)
        d3, i3 = translate_mempool()
        defs += d3; info.update(i3)
        d4, i4 = translate_sync()
        defs += d4; info.update(i4)
        d5, i5 = translate_timer()
        defs += d5; info.update(i5)
        d6, i6 = translate_proposer()
        defs += d6; info.update(i6)
    except NotTranslatable as e:
        print("NOT-TRANSLATABLE: " + str(e)); sys.exit(3)
    changed = write_if_changed(out, render(defs))
    print(json.dumps({"guards": info, "changed": changed}))

if __name__ == "__main__":
    main()
