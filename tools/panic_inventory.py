#!/usr/bin/env python3
"""Panic-site inventory (C15).

Scans the non-test source of the node's crates in /repo for every construct that can panic
(`panic!`, `unreachable!`, `unimplemented!`, `todo!`, `assert*!`, `.expect(`, `.unwrap()`,
slice/index expressions) and compares the sites with the committed classification
/verif/panic_sites.json.  A site is identified by (file, enclosing fn, normalised source line) so
that moving code does not matter, and changing it does.

  panic_inventory.py --list          print the current sites as JSON
  panic_inventory.py --check         exit 0 iff every current site is classified; prints the
                                     unclassified ones (JSON) otherwise
"""
import json, os, re, sys

REPO = os.environ.get("HS_REPO", "/repo")
CRATES = ["consensus", "mempool", "network", "store", "crypto", "node"]
SKIP_FILES = {"network/src/simnet.rs",      # cfg(hotstuff_verif) hook, not part of the node
              "node/src/client.rs"}        # benchmark client binary, not the node
CLASS_FILE = "/verif/panic_sites.json"

PATS = [
    ("panic", re.compile(r'\bpanic!\s*\(')),
    ("unreachable", re.compile(r'\b(unreachable|unimplemented|todo)!\s*\(')),
    ("assert", re.compile(r'\b(assert|assert_eq|assert_ne)!\s*\(')),
    ("expect", re.compile(r'\.\s*expect\s*\(')),
    ("unwrap", re.compile(r'\.\s*unwrap\s*\(\s*\)')),
    ("index", re.compile(r'[A-Za-z0-9_\)\]]\[(?![^\]]*;)[^\]\[]+\]')),
]

def strip(line, in_block):
    """remove comments and the contents of string literals (keeps the quotes)"""
    out = []
    i = 0
    n = len(line)
    in_str = False
    while i < n:
        if in_block:
            j = line.find("*/", i)
            if j < 0:
                return "".join(out), True
            i = j + 2
            in_block = False
            continue
        ch = line[i]
        if in_str:
            if ch == "\\":
                i += 2
                continue
            if ch == '"':
                in_str = False
                out.append('"')
            i += 1
            continue
        if line.startswith("//", i):
            break
        if line.startswith("/*", i):
            in_block = True
            i += 2
            continue
        if ch == '"':
            in_str = True
            out.append('"')
            i += 1
            continue
        if ch == "'" and i + 2 < n and line[i + 2] == "'":   # char literal
            out.append("' '")
            i += 3
            continue
        out.append(ch)
        i += 1
    return "".join(out), in_block

def sites():
    res = []
    for crate in CRATES:
        root = os.path.join(REPO, crate, "src")
        for dp, dn, fn in os.walk(root):
            dn[:] = [d for d in dn if d != "tests"]
            for f in sorted(fn):
                if not f.endswith(".rs"):
                    continue
                rel = os.path.relpath(os.path.join(dp, f), REPO)
                if rel in SKIP_FILES:
                    continue
                in_block = False
                cur_fn = ""
                depth = 0
                skip_depth = None        # inside a #[cfg(test)] item
                pending_cfg_test = False
                hist = []
                for ln, raw in enumerate(open(os.path.join(dp, f), encoding="utf-8", errors="replace"), 1):
                    code, in_block = strip(raw.rstrip("\n"), in_block)
                    s = code.strip()
                    if re.match(r'#\s*\[\s*cfg\s*\(\s*test\s*\)\s*\]', s):
                        pending_cfg_test = True
                    opens, closes = code.count("{"), code.count("}")
                    if pending_cfg_test and (opens or s.endswith(";")) and not s.startswith("#"):
                        if opens and skip_depth is None:
                            skip_depth = depth
                        pending_cfg_test = False
                    m = re.search(r'\bfn\s+([A-Za-z0-9_]+)', code)
                    if m:
                        cur_fn = m.group(1)
                    in_test = skip_depth is not None
                    depth += opens - closes
                    if skip_depth is not None and depth <= skip_depth:
                        skip_depth = None
                    if in_test or s.startswith("#"):
                        continue
                    kinds = [k for k, p in PATS if p.search(code)]
                    # `index`: ignore attribute-like and type-like lines
                    if kinds == ["index"] and re.search(r'\bderive\b|^\s*use\s', code):
                        kinds = []
                    hist.append(s)
                    if kinds:
                        # a method-chain continuation line (`.expect(..)`) is identified together with
                        # the lines of the expression it ends
                        text = s
                        k = len(hist) - 2
                        while text.startswith((".", ")", "}")) and k >= 0 and len(hist) - 1 - k <= 6:
                            text = hist[k] + " " + text
                            k -= 1
                        res.append({"file": rel, "fn": cur_fn, "line": ln, "kinds": kinds,
                                    "text": re.sub(r'\s+', ' ', text)})
    return res

def key(s):
    return (s["file"], s["fn"], s["text"])

def main():
    cur = sites()
    if "--list" in sys.argv:
        print(json.dumps(cur, indent=1)); return 0
    cls = json.load(open(CLASS_FILE))["sites"] if os.path.exists(CLASS_FILE) else []
    known = {}
    for c in cls:
        known[(c["file"], c["fn"], c["text"])] = known.get((c["file"], c["fn"], c["text"]), 0) + c.get("count", 1)
    seen = {}
    unclassified = []
    for s in cur:
        k = key(s)
        seen[k] = seen.get(k, 0) + 1
        if seen[k] > known.get(k, 0):
            unclassified.append(s)
    gone = [list(k) for k in known if k not in seen]
    print(json.dumps({"sites": len(cur), "classified": len(cur) - len(unclassified), "unclassified": unclassified, "gone": gone}, indent=1))
    return 0 if not unclassified else 1

if __name__ == "__main__":
    sys.exit(main())
