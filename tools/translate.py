#!/usr/bin/env python3
"""Rust -> Lean translator for the closed-form arithmetic kernels (DESIGN 4.6).

Extracts from the *current* /repo sources
  * the body of `Committee::quorum_threshold` in consensus/src/config.rs and mempool/src/config.rs
  * the default of `Committee::stake` for an unknown authority in both files
  * the index expression of `RRLeaderElector::get_leader`
and writes HotstuffModel/Generated/Quorum.lean.  Understands integer literals, + * / %,
parentheses, `let` bindings and the `.sum()` of all stakes.  Anything else => exit 3 with a
message ("not translatable"); the caller then falls back to the differential tie only.
"""
import re, sys, json, os

REPO = os.environ.get("VERIF_REPO", "/repo")

class NotTranslatable(Exception):
    pass

def fn_body(src, name):
    m = re.search(r'\bfn\s+' + re.escape(name) + r'\s*\(', src)
    if not m:
        raise NotTranslatable(f"fn {name} not found")
    i = src.index('{', m.end())
    depth, j = 0, i
    while True:
        c = src[j]
        if c == '{': depth += 1
        elif c == '}':
            depth -= 1
            if depth == 0: break
        j += 1
    return src[i+1:j]

def strip_comments(s):
    s = re.sub(r'//[^\n]*', '', s)
    s = re.sub(r'/\*.*?\*/', '', s, flags=re.S)
    return s

TOK = re.compile(r'\s*(?:(\d[\d_]*)(?:u32|u64|usize)?|([A-Za-z_][A-Za-z0-9_]*)|(.))')

def tokenize(e):
    out = []; pos = 0
    e = e.strip()
    while pos < len(e):
        m = TOK.match(e, pos)
        if not m: raise NotTranslatable("lex error in " + e)
        pos = m.end()
        if m.group(1) is not None: out.append(('num', int(m.group(1).replace('_', ''))))
        elif m.group(2) is not None: out.append(('id', m.group(2)))
        elif m.group(3).strip(): out.append(('op', m.group(3)))
    return out

class P:
    """precedence-climbing parser -> nested tuples"""
    def __init__(self, toks, env): self.t = toks; self.i = 0; self.env = env
    def peek(self): return self.t[self.i] if self.i < len(self.t) else (None, None)
    def eat(self): x = self.peek(); self.i += 1; return x
    def expr(self):
        l = self.term()
        while self.peek() in (('op', '+'),):
            self.eat(); l = ('+', l, self.term())
        return l
    def term(self):
        l = self.atom()
        while self.peek()[0] == 'op' and self.peek()[1] in '*/%':
            op = self.eat()[1]; l = (op, l, self.atom())
        return l
    def atom(self):
        k, v = self.eat()
        if k == 'num': return ('num', v)
        if k == 'id':
            if v in self.env: return self.env[v]
            raise NotTranslatable(f"unknown identifier {v}")
        if (k, v) == ('op', '('):
            e = self.expr()
            if self.eat() != ('op', ')'): raise NotTranslatable("expected )")
            return e
        raise NotTranslatable(f"unexpected token {v!r}")

def parse_expr(e, env):
    p = P(tokenize(e), env)
    r = p.expr()
    if p.i != len(p.t): raise NotTranslatable("trailing tokens in " + e)
    return r

def to_lean(t, var):
    if t[0] == 'num': return str(t[1])
    if t[0] == 'var': return var
    return f"({to_lean(t[1], var)} {t[0]} {to_lean(t[2], var)})"

SUM_PAT = re.compile(r'^self\s*\.\s*authorities\s*\.\s*values\s*\(\s*\)\s*\.\s*map\s*\(\s*\|\s*(\w+)\s*\|\s*\1\s*\.\s*stake\s*\)\s*\.\s*sum\s*(?:::<\s*\w+\s*>)?\s*\(\s*\)$')

def translate_threshold(path):
    src = strip_comments(open(path).read())
    body = fn_body(src, 'quorum_threshold')
    stmts = [s.strip() for s in body.split(';')]
    env = {}
    for s in stmts[:-1]:
        if not s: continue
        m = re.match(r'^let\s+(?:mut\s+)?(\w+)\s*(?::\s*\w+)?\s*=\s*(.*)$', s, flags=re.S)
        if not m: raise NotTranslatable("statement not understood: " + s)
        rhs = ' '.join(m.group(2).split())
        if SUM_PAT.match(rhs): env[m.group(1)] = ('var',)
        else: env[m.group(1)] = parse_expr(rhs, env)
    final = ' '.join(stmts[-1].split())
    if not final: raise NotTranslatable("no tail expression")
    if final.startswith('return '): final = final[7:]
    if SUM_PAT.match(final): return ('var',)
    return parse_expr(final, env)

def translate_stake_default(path):
    src = strip_comments(open(path).read())
    body = ' '.join(fn_body(src, 'stake').split())
    m = re.search(r'\.get\s*\(\s*name\s*\)\s*\.\s*map_or_else\s*\(\s*\|\|\s*(\d+)\s*,\s*\|\s*(\w+)\s*\|\s*\2\s*\.\s*stake\s*\)', body)
    if m: return int(m.group(1))
    m = re.search(r'\.get\s*\(\s*name\s*\)\s*\.\s*map_or\s*\(\s*(\d+)\s*,\s*\|\s*(\w+)\s*\|\s*\2\s*\.\s*stake\s*\)', body)
    if m: return int(m.group(1))
    m = re.search(r'\.get\s*\(\s*name\s*\)\s*\.\s*map\s*\(\s*\|\s*(\w+)\s*\|\s*\1\s*\.\s*stake\s*\)\s*\.\s*unwrap_or\s*\(\s*(\d+)\s*\)', body)
    if m: return int(m.group(2))
    if re.search(r'unwrap_or_default\s*\(\s*\)', body): return 0
    raise NotTranslatable("stake(): default for unknown authority not recognised: " + body)

def translate_leader(path):
    src = strip_comments(open(path).read())
    body = ' '.join(fn_body(src, 'get_leader').split())
    # expected shape: collect keys, sort, index by <expr>
    if not re.search(r'keys\s*\.\s*sort\s*\(\s*\)', body):
        raise NotTranslatable("get_leader: keys are not sorted")
    m = re.search(r'keys\s*\[\s*(.*?)\s*\]\s*$', body)
    if not m: raise NotTranslatable("get_leader: index expression not found")
    idx = m.group(1)
    idx = re.sub(r'\bround\s+as\s+usize\b', 'round', idx)
    idx = re.sub(r'\(\s*round\s+as\s+usize\s*\)', 'round', idx)
    idx = re.sub(r'self\s*\.\s*committee\s*\.\s*size\s*\(\s*\)', 'size', idx)
    idx = re.sub(r'keys\s*\.\s*len\s*\(\s*\)', 'size', idx)
    t = parse_expr(idx, {'round': ('var', 'round'), 'size': ('var', 'size')})
    def lean(t):
        if t[0] == 'num': return str(t[1])
        if t[0] == 'var': return t[1]
        return f"({lean(t[1])} {t[0]} {lean(t[2])})"
    return lean(t)

def detect_switches():
    """Source-level facts that select between the as-found and the repaired behaviour of three
    panic sites (DESIGN section 8: F2, F3, F4).  Unknown shape => False (the conservative,
    panicking reading) and a note."""
    notes = []
    # F2: mempool/src/batch_maker.rs, benchmark sample-tx scan in `seal`
    src = strip_comments(open(f"{REPO}/mempool/src/batch_maker.rs").read())
    m = re.search(r'\.filter\(\s*\|\s*tx\s*\|\s*(.*?)\)\s*\.filter_map', src, flags=re.S)
    len_first = False
    if m:
        cond = ' '.join(m.group(1).split())
        parts = [p.strip() for p in cond.split('&&')]
        idx = [i for i, p in enumerate(parts) if re.search(r'tx\s*\[', p)]
        ln = [i for i, p in enumerate(parts) if re.search(r'tx\s*\.\s*len\s*\(\s*\)\s*(>|>=)\s*[1-9]', p) or re.search(r'!\s*tx\s*\.\s*is_empty', p)]
        if not idx:
            len_first = True          # no indexing at all
        elif ln and min(ln) < min(idx):
            len_first = True
    else:
        if not re.search(r'tx\s*\[\s*0\s*\]', src):
            len_first = True
        else:
            notes.append("batch_maker.rs: sample-tx filter not recognised")
    # F3: crypto/src/lib.rs decode_base64 (public and secret key)
    src = strip_comments(open(f"{REPO}/crypto/src/lib.rs").read())
    bodies = re.findall(r'fn\s+decode_base64.*?\n    \}', src, flags=re.S)
    checked = bool(bodies)
    for b in bodies:
        if re.search(r'bytes\s*\[\s*\.\.', b):
            checked = False
        elif not re.search(r'\.get\s*\(\s*\.\.|try_from|try_into\s*\(\s*\)\s*\.map_err|len\s*\(\s*\)', b):
            checked = False
            notes.append("crypto/src/lib.rs: decode_base64 shape not recognised")
    # F4: consensus/src/helper.rs deserialisation of the stored entry
    src = strip_comments(open(f"{REPO}/consensus/src/helper.rs").read())
    skips = True
    m = re.search(r'bincode::deserialize\s*(?:::<[^>]*>)?\s*\(\s*&bytes\s*\)\s*(\.\s*(expect|unwrap)\s*\()?', src)
    if m is None:
        skips = False
        notes.append("consensus/src/helper.rs: deserialize call not found")
    elif m.group(1):
        skips = False
    return len_first, checked, skips, notes


def write_if_changed(path, text):
    old = open(path).read() if os.path.exists(path) else None
    if old != text:
        os.makedirs(os.path.dirname(path), exist_ok=True)
        open(path, 'w').write(text)
    return old != text


def main():
    out = sys.argv[1] if len(sys.argv) > 1 else "/verif/lean/HotstuffModel/Generated/Quorum.lean"
    info = {}
    try:
        tc = translate_threshold(f"{REPO}/consensus/src/config.rs")
        tm = translate_threshold(f"{REPO}/mempool/src/config.rs")
        sc = translate_stake_default(f"{REPO}/consensus/src/config.rs")
        sm = translate_stake_default(f"{REPO}/mempool/src/config.rs")
        li = translate_leader(f"{REPO}/consensus/src/leader.rs")
    except NotTranslatable as e:
        print("NOT-TRANSLATABLE: " + str(e))
        sys.exit(3)
    text = f"""/-
GENERATED by /verif/tools/translate.py from the current /repo sources — do not edit.
  consensus/src/config.rs  Committee::quorum_threshold, Committee::stake
  mempool/src/config.rs    Committee::quorum_threshold, Committee::stake
  consensus/src/leader.rs  RRLeaderElector::get_leader (index expression)
-/
namespace Gen

/-- `quorum_threshold` of the consensus committee as a function of the total stake. -/
def qtConsensus (total : Nat) : Nat := {to_lean(tc, 'total')}
/-- The same expression evaluated in `u32` wrapping arithmetic (what release builds compute). -/
def qtConsensusU32 (total : UInt32) : UInt32 := {to_lean(tc, 'total')}

/-- `quorum_threshold` of the mempool committee as a function of the total stake. -/
def qtMempool (total : Nat) : Nat := {to_lean(tm, 'total')}
def qtMempoolU32 (total : UInt32) : UInt32 := {to_lean(tm, 'total')}

/-- Stake reported for a key that is not in the committee map. -/
def unknownStakeConsensus : Nat := {sc}
def unknownStakeMempool : Nat := {sm}

/-- Index into the sorted key list used by `get_leader`. -/
def leaderIndex (round size : Nat) : Nat := {li}

end Gen
"""
    changed = write_if_changed(out, text)
    len_first, checked, skips, notes = detect_switches()
    b = lambda x: "true" if x else "false"
    sw = f"""/-
GENERATED by /verif/tools/translate.py from the current /repo sources — do not edit.
Which of two known shapes three panic-prone statements currently have.
-/
namespace Gen

/-- mempool/src/batch_maker.rs (benchmark build): the sample-transaction filter tests the length
before it indexes `tx[0]`. -/
def batchSampleLenFirst : Bool := {b(len_first)}

/-- crypto/src/lib.rs: `decode_base64` takes the key bytes with a checked slice (`get(..n)`)
rather than `bytes[..n]`. -/
def keySliceChecked : Bool := {b(checked)}

/-- consensus/src/helper.rs: a stored entry that does not decode as a block is skipped rather
than `expect`ed. -/
def helperSkipsNonBlock : Bool := {b(skips)}

end Gen
"""
    changed2 = write_if_changed(os.path.join(os.path.dirname(out), "Switches.lean"), sw)
    class _O:  # keep the old variable name used below
        pass
    old = None if (changed or changed2) else text
    info = {"batchSampleLenFirst": len_first, "keySliceChecked": checked, "helperSkipsNonBlock": skips,
            "switch_notes": notes}
    info0 = {"qtConsensus": to_lean(tc, 'total'), "qtMempool": to_lean(tm, 'total'),
            "unknownStakeConsensus": sc, "unknownStakeMempool": sm, "leaderIndex": li,
            "changed": old != text}
    info.update(info0)
    print(json.dumps(info))

if __name__ == "__main__":
    main()
