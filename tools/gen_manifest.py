#!/usr/bin/env python3
"""Writes /verif/MANIFEST.json from tools/props.py (claimed) + the remaining property ids."""
import json, os, sys
sys.path.insert(0, os.path.dirname(__file__))
from props import PROPS
VERIF = os.path.dirname(os.path.dirname(os.path.abspath(__file__)))
ids = [json.loads(l)["id"] for l in open(os.path.join(VERIF, "properties.jsonl"))]
NOT_YET = "check not built yet in this round (see DESIGN.md section 10, staging); claimed once its theorem file and engine are in place"
checks = []
for i in ids:
    if i not in PROPS: continue
    p = PROPS[i]
    checks.append({
        "property_id": i,
        "quick_cmd": f"./check {i} quick",
        "thorough_cmd": f"./check {i} thorough",
        "evidence_file": f"/verif/evidence/{i}.json",
        "replay_cmd_template": f"./check {i} --replay {{path}}",
        "engine": ",".join(e["name"] for e in p["engines"]),
        "level_claimed": {"category": p["level"], "text": p["level_text"] if "level_text" in p else p["explanation"], "design_ref": "DESIGN.md section 7, " + i},
        "level_note": "; ".join(p["assumptions"]) + " || trusted base: " + "; ".join(p["trusted_base"]),
        "technique": p.get("technique", "machine-checked proof in Lean 4 about an executable model + differential correspondence check against the real code"),
    })
m = {
    "version": 1,
    "setup_cmd": "./check --setup",
    "hooks": {
        "guard": "--cfg hotstuff_verif",
        "enable": "rustflags = [\"--cfg\", \"hotstuff_verif\"] in /verif/harness/.cargo/config.toml (the harness path-depends on /repo's crates)",
        "baseline_off_cmd": "cd /repo && cargo test --workspace --no-fail-fast --offline",
        "source_commits": [l.strip() for l in open(os.path.join(VERIF, "hooks_commits.txt"))] if os.path.exists(os.path.join(VERIF, "hooks_commits.txt")) else [],
        "add_only": True,
    },
    "engines": [
        {"name": "hsverif", "path": "/verif/harness", "serves_properties": [c["property_id"] for c in checks],
         "kind_free_text": "Rust harness: runs the real crates (path deps on /repo) and the Lean model driver on the same inputs, diffs, and runs property monitors on the real traces"},
        {"name": "hsmodel", "path": "/verif/lean", "serves_properties": [c["property_id"] for c in checks],
         "kind_free_text": "Lean 4 project: executable model, theorems (Properties/Cxx.lean), compiled line-protocol driver"},
    ],
    "checks": checks,
    "not_applicable": [{"property_id": i, "reason": NOT_YET} for i in ids if i not in PROPS],
    "notes": open(os.path.join(VERIF, "manifest_notes.txt")).read() if os.path.exists(os.path.join(VERIF, "manifest_notes.txt")) else "",
}
json.dump(m, open(os.path.join(VERIF, "MANIFEST.json"), "w"), indent=1)
print("claimed:", [c["property_id"] for c in checks])
