"""Per-property configuration of /verif/check."""

TB_COMMON = [
    "Lean 4.33 kernel; axioms propext, Classical.choice, Quot.sound only (audited with #print axioms on every run)",
    "the statements in lean/HotstuffModel/Properties/*.lean",
    "the hand-written executable model lean/HotstuffModel/Model/*.lean, tied to /repo by the correspondence engines of /verif/harness (differential, not proved)",
    "the model driver's parser/printer and the harness canonicalisation",
]

PROPS = {
    "C17": {
        "lean_modules": ["HotstuffModel.Properties.C17"],
        "needs_translator": True,
        "engines": [{"name": "quorum"}],
        "level": "proof",
        "trusted_base": TB_COMMON + [
            "tools/translate.py (Rust expression -> Lean definition for quorum_threshold / stake default / leader index)",
        ],
        "assumptions": [
            "Committee keys are distinct (HashMap)",
            "u32 `.sum()` of stakes does not overflow: total < 2^31 as the property states",
        ],
        "explanation": "Theorems are proved about Gen.qtConsensus/Gen.qtMempool, regenerated from the Rust source on every run; "
                       "the engine evaluates the real Committee::{quorum_threshold,stake} of both crates and the model on the same committees "
                       "and checks the property's inequalities on the real values.",
    },
    "C20": {
        "lean_modules": ["HotstuffModel.Properties.C20"],
        "engines": [{"name": "codec"}],
        "level": "proof",
        "trusted_base": TB_COMMON + [
            "bincode 1.3 / serde implement the fixint little-endian format as modelled in Model/Bincode.lean (checked byte-for-byte by the codec engine on every run, not proved)",
        ],
        "assumptions": [
            "SHA-512 truncated to 32 bytes has no collision among the pre-images that occur (theorems conclude 'fields equal OR an explicit collision H x = H y, x != y')",
            "rounds < 2^64 and list lengths < 2^64 (guaranteed by the Rust types u64/usize; proved for every decoded message)",
        ],
        "explanation": "Pre-image layouts (block 72+32k bytes, vote/QC 40, timeout/TC-entry 16) are proved injective in their fields and separated by length; "
                       "decode(encode m ++ rest) = (m, rest) is proved for every wire type, for the sync path and for the batch pre-image; every decoded message is proved well-formed. "
                       "The engine compares real digest() with SHA-512(model pre-image)[..32], real bincode bytes with model bytes, real deserialize (accept/reject/re-serialisation/digest) "
                       "with the model's, and runs digest-separation and round-trip-verifies monitors on the real code.",
    },
    "C18": {
        "lean_modules": ["HotstuffModel.Properties.C18"],
        "engines": [{"name": "codec"}],
        "level": "proof",
        "level_text": "PARTIAL: the key/text encoders are proved (base64 and key round trips, JSON string layer is the identity on key text); the signature half of the property "
                      "(ed25519 sign/verify/verify_batch) cannot be proved here (would need a verified Edwards25519+SHA-512) and is exercised differentially on the real code only.",
        "trusted_base": TB_COMMON + [
            "crate base64 0.13 STANDARD behaves as Model/Base64.lean (checked differentially, incl. exhaustive small-alphabet strings)",
        ],
        "assumptions": [
            "ed25519 (sign / verify_strict / verify_batch of ed25519-dalek) is NOT proved: exercised differentially only (sign->verify, all single-bit flips per key pair, batches 0..16 with one corrupted member at each position)",
            "JSON: only the string layer is modelled (escape-free reader); Secret/Committee files are round-tripped through the real Export::write/read",
        ],
        "explanation": "decode(encode bs) = bs for all byte strings, decodeKey(encodeKey k) = k for all 32/64-byte keys, key text needs no JSON escaping so the JSON string layer is the identity (all proved); "
                       "the signature half of the property is tested on the real code, not proved.",
    },
    "C16": {
        "lean_modules": ["HotstuffModel.Properties.C16"],
        "engines": [{"name": "store"}],
        "level": "proof",
        "trusted_base": TB_COMMON + [
            "RocksDB as a durable map (put/get; data survives close+open of the same path)",
            "tokio mpsc channels are FIFO per sender; a command sequence is the order in which the store task dequeues",
        ],
        "assumptions": [
            "every interleaving of concurrent handles is some command sequence respecting per-handle order (mpsc FIFO)",
            "db.put errors are ignored by the code and not modelled",
        ],
        "explanation": "Store actor modelled as kv map + obligations; theorems for every command sequence (read = last write, notify answered immediately or by the first later write, all waiters, exactly once, reopen keeps data); "
                       "the engine drives the real Store (RocksDB) from several handles with forced enqueue order and compares every reply and wake-up step with the model and with a reference map. The engine also abandons pending notify_reads (owner drops the future) at the head/middle of a waiter queue, and drives a second handle from its own task while the store has a backlog larger than its command channel (issue order between callers).",
    },
    "C12": {
        "lean_modules": ["HotstuffModel.Properties.C12"],
        "engines": [{"name": "quorumwaiter"}, {"name": "ownbatch"}],
        "level": "proof",
        "trusted_base": TB_COMMON + [
            "FuturesUnordered/oneshot: a handler completes when its sender is used or dropped",
        ],
        "assumptions": [
            "handler names of one batch are distinct (BatchMaker builds them from the committee map)",
            "the code counts a DROPPED handle like an ACK (`let _ = wait_for.await`); C14 shows the reliable sender never drops a live handle",
        ],
        "explanation": "QuorumWaiter modelled as a sequential actor serving one batch at a time; theorems: forwarded only with quorum stake incl. self, at most once, exactly at the crossing step, FIFO across batches, >= f+1 honest stake among ackers (via C17); "
                       "the engine drives the real QuorumWaiter with harness-made oneshot handles in every ACK order / silent subset and compares with the model and an independent stake monitor. The engine ownbatch runs the real BatchMaker wired to the real QuorumWaiter as in Mempool::spawn with every other mempool on simnet: ACKs are released one at a time (slow peers answer earlier batches while the next one is out) and each ACK is attributed to the frame it answers; the batch must come out exactly when own + acknowledged stake reaches the threshold. The quorum test itself (`waiterQuorum`) is regenerated from quorum_waiter.rs on every run.",
    },
    "C03": {
        "lean_modules": ["HotstuffModel.Properties.C03"],
        "engines": [{"name": "cons"}],
        "level": "proof",
        "trusted_base": TB_COMMON + [
            "ideal signatures and collision-free digests (DESIGN 3.4): ed25519 and SHA-512 are modelled, not verified",
            "tokio mpsc channels are FIFO, select! picks any ready branch, a task handles one message at a time; the micro-step model over-approximates every schedule",
        ],
        "assumptions": [
            "the ghost records `voted b` / `timeout t` of the model sit exactly where make_vote / local_timeout_round request a signature (tied by the lock-step engine: every wire vote/timeout of the real node is compared with the model's)",
        ],
        "explanation": "Invariants Inv1/Inv2 of the node model (Core+Proposer+Synchronizer+PayloadWaiter+Helper) are proved preserved by every micro-step for ARBITRARY inputs and lifted to every event list; "
                       "C03's clauses are read off them. The cons engine runs one real Consensus node in lock-step with the model on seeded protocol runs (equivocation, replays, loop-back paths, timeouts) "
                       "and checks the voting rules on the real node's own wire votes.",
    },
    "C10": {
        "lean_modules": ["HotstuffModel.Properties.C10"],
        "engines": [{"name": "cons"}],
        "level": "proof",
        "trusted_base": TB_COMMON + [
            "ideal signatures and collision-free digests (DESIGN 3.4): ed25519 and SHA-512 are modelled, not verified",
            "tokio mpsc channels are FIFO, select! picks any ready branch, a task handles one message at a time; the micro-step model over-approximates every schedule",
        ],
        "assumptions": [
            "timers are modelled by their order only: the `timer` event may fire at any time",
        ],
        "explanation": "Round monotonicity and 'a round change records its certificate' are two-state facts proved for every micro-step from any state (relation Ext); the timeout/high-QC clauses come from invariants Inv1/Inv2 for arbitrary inputs. "
                       "The cons engine checks the same on the real node's wire messages (round of successive own messages, certificate availability, QC carried by timeouts).",
    },
    "C04": {
        "lean_modules": ["HotstuffModel.Properties.C04"],
        "engines": [{"name": "verify"}, {"name": "cons"}],
        "level": "proof",
        "trusted_base": TB_COMMON + [
            "ideal signatures and collision-free digests (DESIGN 3.4): ed25519 and SHA-512 are modelled, not verified",
            "tokio mpsc channels are FIFO, select! picks any ready branch, a task handles one message at a time; the micro-step model over-approximates every schedule",
        ],
        "assumptions": [
            "ed25519 is ideal: a signature verifies for exactly one (key, digest); the byte-level digest layouts are injective and domain-separated (C20) and SHA-512/256 is collision-free",
        ],
        "explanation": "The five verify functions are modelled statement by statement and characterised exactly (accept iff distinct staked signers, quorum weight, every signature for exactly the certificate's content); tamper=>reject and "
                       "'a rejected message leaves the state literally unchanged' are theorems. The verify engine runs the real verify functions and the model on valid messages and ~10 mutation classes; the cons engine shows invalid messages never change the real node's outputs.",
    },
    "C14": {
        "lean_modules": ["HotstuffModel.Properties.C14"],
        "engines": [{"name": "sender"}],
        "level": "proof",
        "trusted_base": TB_COMMON + [
            "network/src/simnet.rs standing in for TCP: FIFO byte stream per connection, EOF/BrokenPipe on close, refused connect on an unbound port",
            "tokio mpsc as FIFO, oneshot as one-shot cell, select! as arbitrary choice among ready branches, paused-clock timers",
            "harness/src/e2_sender.rs: the scheduler resolving the model's free choices (connect/write outcome, reader result) from the environment the harness controls",
        ],
        "assumptions": [
            "the peer answers the k-th frame it reads on a connection with the k-th frame it writes on it; a peer writing unsolicited frames can make a handle complete with bytes that are not a reply to its message",
            "'eventually delivered' only under fairness: a connection eventually stays up until the buffer is written and the replies are read (theorem delivered_if_connection_stays_up states the schedule)",
            "mpsc capacity (1000) only blocks the caller, not modelled; half-open TCP (peer dies without FIN/RST) is outside the model",
            "is_closed is checked when a write starts: a handle dropped while its write is blocked does not stop that one write",
            "first deliveries are first TRANSMISSIONS in the model (a frame written on a connection); what the peer application reads from the socket is below the model (the engine's monitor checks deliveries to a reading peer)",
        ],
        "explanation": "Theorems over every event sequence of the Connection model (order, ACK pairing, no loss, cancellation, retransmission on reconnect, back-off bounds); engine `sender` drives the real ReliableSender against a scripted simnet peer and the real Receiver under virtual time, "
                       "compares per-connection frame lists / connection count / handle results with the model after every op, and runs the C14 monitor on the real observations.",
    },
    "C11": {
        "lean_modules": ["HotstuffModel.Properties.C11"],
        "engines": [{"name": "batchmaker"}, {"name": "batchmaker", "features": "benchmark"}, {"name": "mempoolsync"}],
        "level": "proof",
        "trusted_base": TB_COMMON + [
            "bincode fixed-int LE layout (checked byte-for-byte by the engine, decode direction with the real bincode)",
            "SHA-512/256-trunc collision-free (digest = pre-image in the model)",
        ],
        "assumptions": [
            "usize lengths < 2^64",
            "timer modelled as an event; the real-time bound 'sealed by t + max_batch_delay' is proved only as 'by the next timer expiry' and checked on the real code by the engine's monitor",
            "MempoolReceiverHandler is private: the engine compares the model's receiverHandler with the real bincode::deserialize::<MempoolMessage> on sealed and mutated frames",
        ],
        "explanation": "BatchMaker modelled as (cur, size) with events tx/timer for both build configurations; theorems for every event sequence, batch size (incl. 0) and tx content (incl. empty): sealed batches ++ open batch = accepted txs in order, "
                       "seal exactly at the threshold step / at timer expiry, no panic (benchmark build: given the length-first sample-tx test), batch encoding injective, Processor/handler use the hash of the exact bytes. "
                       "Engine `batchmaker` drives the real BatchMaker + Processor in BOTH builds (default and --features benchmark) under virtual time and compares sealed bytes, store keys and digests. The seal guards (`sealOnSize`, `sealOnTimer`) are regenerated from batch_maker.rs on every run and called by the model; received batches (stored and announced under the hash of their exact bytes, every frame ACKed once) are covered by Model/MempoolSync and the engine mempoolsync.",
    },
    "C02": {
        "lean_modules": ['HotstuffModel.Properties.C02'],
        "engines": [{'name': 'cons'}],
        "level": "proof",
        "level_text": "Proved in full on the model: per-call specification of commit for arbitrary inputs (single node) AND, in the global model (honest nodes run the node model, Byzantine nodes of total stake <= f send anything they can sign), the delivery log of every honest node is the parent-linked chain from genesis with strictly increasing rounds and no duplicates (HS.C02.delivery_log_is_chain_from_genesis, deliveries_strictly_increasing_no_duplicates).",
        "trusted_base": TB_COMMON + [
            "ideal signatures and collision-free digests (DESIGN 3.4): ed25519 and SHA-512 are modelled, not verified",
            "tokio mpsc channels are FIFO, select! picks any ready branch, a task handles one message at a time; the micro-step model over-approximates every schedule",
            "global model (Proofs/Global.lean): Byzantine nodes hold at most f stake and cannot forge honest signatures",
        ],
        "assumptions": ['RocksDB returns what was written (store model keyed by digest)', 'at most f stake is Byzantine (needed for the whole-life clause, which rests on agreement C01); the per-call clauses need no such assumption'],
        "explanation": 'Per-call specification of Core::commit (ancestor walk with hash-chain fuel, proved never to exhaust) + invariants for every event list; per-step specification of the commit channel (CommitSeq.cspec_step) composed with agreement (C01) over the global model gives the whole-life clause. The cons engine runs chain shapes with gaps / several uncommitted ancestors / sync-resumed blocks against the model and checks on the REAL commit channel: no genesis, parent = previous delivery, rounds increase, no duplicates.',
    },
    "C05": {
        "lean_modules": ['HotstuffModel.Properties.C05'],
        "engines": [{'name': 'cons'}],
        "level": "proof",
        "trusted_base": TB_COMMON + [
            "ideal signatures and collision-free digests (DESIGN 3.4): ed25519 and SHA-512 are modelled, not verified",
            "tokio mpsc channels are FIFO, select! picks any ready branch, a task handles one message at a time; the micro-step model over-approximates every schedule",
        ],
        "assumptions": ["a QC 'for b1' is a verified QC whose hash field is b1's digest; its round field is bound to b1.round only through the signatures (honest nodes sign (digest b, b.round) only)"],
        "explanation": "Every delivery is justified by a recorded 2-chain b0<-b1<-blk with consecutive rounds, blk checked (leader, signature, verified QC for b1's digest); no other kind of step changes last_committed_round or emits a delivery. The cons engine's monitor checks on the real node that every commit is backed by a valid QC it was shown / assembled for a consecutive-round child.",
    },
    "C08": {
        "lean_modules": ['HotstuffModel.Properties.C08'],
        "engines": [{'name': 'cons'}],
        "level": "proof",
        "trusted_base": TB_COMMON + [
            "ideal signatures and collision-free digests (DESIGN 3.4): ed25519 and SHA-512 are modelled, not verified",
            "tokio mpsc channels are FIFO, select! picks any ready branch, a task handles one message at a time; the micro-step model over-approximates every schedule",
        ],
        "assumptions": ["the node's own mempool stores a batch before announcing its digest (Processor: write then send; the model's `digest` event does both; checked on the real Processor by the batchmaker engine)"],
        "explanation": "Invariant Inv5 for every event list: every voted and every delivered block has its payload in the store; blocks parked for payload are released only when the awaited batches are all stored. The cons engine's monitor reads which batches were written before each real vote/commit.",
    },
    "C09": {
        "lean_modules": ['HotstuffModel.Properties.C09'],
        "engines": [{'name': 'leader'}, {'name': 'cons'}],
        "level": "proof",
        "trusted_base": TB_COMMON + [
            "ideal signatures and collision-free digests (DESIGN 3.4): ed25519 and SHA-512 are modelled, not verified",
            "tokio mpsc channels are FIFO, select! picks any ready branch, a task handles one message at a time; the micro-step model over-approximates every schedule",
        ],
        "assumptions": ['keys are numbered by byte-lexicographic rank (order isomorphism, checked by the leader engine on random 32-byte keys)'],
        "explanation": "Leader = sorted keys indexed by the translated expression: permutation-invariant, periodic, every authority exactly once per n consecutive rounds (proved for every committee with distinct keys). For every event list: voted blocks are by the round's leader with a valid author signature; own proposals have strictly increasing rounds (never two for one round), are made only as leader and once per Make.",
    },
    "C19": {
        "lean_modules": ['HotstuffModel.Properties.C19'],
        "engines": [{'name': 'aggregator'}, {'name': 'cons'}],
        "level": "proof",
        "trusted_base": TB_COMMON + [
            "ideal signatures and collision-free digests (DESIGN 3.4): ed25519 and SHA-512 are modelled, not verified",
            "tokio mpsc channels are FIFO, select! picks any ready branch, a task handles one message at a time; the micro-step model over-approximates every schedule",
        ],
        "assumptions": ['Core verifies votes/timeouts before adding them (modelled: handle_vote/handle_timeout)', 'committee keys distinct, total stake < 2^31 for the at-most-once clause'],
        "explanation": "QCMaker/TCMaker modelled verbatim: a certificate is returned exactly in the step the accumulated distinct verified stake reaches the quorum, verifies, is for exactly the vote's (hash, round), never mixes keys, and cannot be formed twice; every certificate the node sends or proposes with verifies (Inv3). The aggregator engine runs the real Aggregator against the model with an independent crossing-step monitor.",
    },
    "C15": {
        "lean_modules": ['HotstuffModel.Properties.C15', 'HotstuffModel.Properties.C15_decode'],
        "engines": [{'name': 'codec'}, {'name': 'cons'}, {'name': 'fuzz'}],
        "panic_inventory": True,
        "level": "proof",
        "level_text": 'PARTIAL: proof of panic-freedom of the models + panic-site inventory of the source (every expect/unwrap/panic!/index site classified, re-scanned on every run) + differential/fuzz tie; Rust panics that are not source-visible (integer overflow, allocation failure, select! with all branches disabled at shutdown) are not covered.',
        "trusted_base": TB_COMMON + [
            "ideal signatures and collision-free digests (DESIGN 3.4): ed25519 and SHA-512 are modelled, not verified",
            "tokio mpsc channels are FIFO, select! picks any ready branch, a task handles one message at a time; the micro-step model over-approximates every schedule",
        ],
        "assumptions": ['source-visible panics only: arithmetic overflow (round + 1 at 2^64-1 needs a quorum-signed certificate of that round) and allocation failure are outside the model', 'internal-channel expect()s fire only if a sibling task already died; the theorems show no task dies', 'the shapes of three panic-prone statements (F2-F4) are read from the source on every run (Generated/Switches.lean)'],
        "explanation": "Panics are values of the models: the node model's `panic` field (theorem: none in every reachable state, for arbitrary inputs incl. cross-component digests) and the three-way decoder results (theorem: never `panic` for any byte string). Engines: codec (every decoder vs the real crates under catch_unwind), cons (garbage frames / sync requests in protocol runs, panic hook), fuzz (all three ports of a real node, then functional probes).",
    },
    "C01": {
        "lean_modules": ["HotstuffModel.Properties.C01"],
        "engines": [{"name": "cons"}],
        "level": "proof",
        "trusted_base": TB_COMMON + [
            "ideal signatures and collision-free digests (DESIGN 3.4): ed25519 and SHA-512 are modelled, not verified",
            "the global model composes per-node models by an arbitrary scheduler and an arbitrary network (any event to any honest node, subject only to unforgeability of honest signatures); the per-node model is tied to /repo by the lock-step cons engine",
        ],
        "assumptions": [
            "Byzantine stake <= f = floor((n-1)/3), committee keys distinct, 1 <= n < 2^31",
            "a signature token of an honest signer inside a delivered message was produced by that signer (unforgeability); Byzantine signers are unconstrained",
            "honest nodes do not lose their voting state (the code persists none; crash-recovery of a voter is outside the property's quantifier)",
        ],
        "explanation": "Three layers, all machine-checked: (A) abstract agreement for any history satisfying four local invariants, by weighted quorum intersection and strong induction on rounds (Proofs/Agreement.lean); "
                       "(B) the executable node model satisfies the local invariants for ARBITRARY inputs (Inv1-Inv6, thousands of lines of step-preservation proofs); (C) the global model: any reachable state of any number of honest node models under any schedule/network/Byzantine behaviour "
                       "satisfies agreement: any two delivered blocks at any two honest nodes are on one chain; no two different blocks at one height; one certified block per round. "
                       "The cons engine ties the node model to the real Consensus node (0 divergences over seeded protocol runs with equivocation, replays, view changes, sync).",
    },
    "C06": {
        "lean_modules": ['HotstuffModel.Properties.C06'],
        "engines": [{'name': 'netsim'}, {'name': 'timer'}, {'name': 'proposerwait'}],
        "level": "proof",
        "level_text": "PARTIAL: machine-checked enabling lemmas for each progress step + whole-system simulation of the liveness claim on the real code (the 'eventually' itself is not a theorem).",
        "trusted_base": TB_COMMON + [
            "ideal signatures and collision-free digests (DESIGN 3.4): ed25519 and SHA-512 are modelled, not verified",
            "netsim engine: real nodes (real node.rs wiring) on the in-memory simnet transport under tokio's paused virtual clock; harness proxies model links (latency >= 5 ms; a lossy cut hangs connections and resets them at healing; a lossless outage keeps the connection and delivers the waiting frames afterwards — the only kind used before stabilisation in the liveness scenario; no loss on healthy links)",
        ],
        "assumptions": ['the temporal claim is NOT proved (no fairness / real-time model of timers and TCP back-off); it is explored by simulation', 'virtual time: timers fire in deadline order; link latencies after stabilisation are 1-20 ms against a 1000 ms round timeout'],
        "explanation": 'Proved for every state/input: the timer always yields a timeout for the current round; a quorum of verified timeouts forms and broadcasts a TC and advances the round; a leader entering its round via a TC requests exactly one proposal; voting is enabled for a safe block of the current round; TCs/QCs synchronise views. Explored: netsim runs 4-7 REAL nodes with every kind of <= f crash set, random crash instants and random pre-stabilisation delays/cuts; after stabilisation every live node must commit in each window of (4(f+1)+6) timeouts; commit logs must agree. Also proved: L7/L9 the good case through the whole of handle_proposal in every reachable state (a verified leader proposal on stored ancestors is voted and commits its grandparent when rounds are consecutive), L8/L10 leader rotation versus any m faulty authorities (at most m faulty-led rounds in a row; with n >= 3m+1 three consecutive non-faulty leaders in every window of n rounds). The netsim engine also plays a directed partial-broadcast crash. L11 (timer_fires_exactly_duration_after_last_reset): the round timer (Model/Timer.lean, deadline rule Gen.timerDeadline regenerated from consensus/src/timer.rs, plus a shape check that Core resets it on start, on entering a round and after a local timeout) is ready exactly from timeout_delay after its LAST reset on; the engine timer runs the real Timer under the virtual clock against that model and an independent oracle. L12 (proposer_wait_ends_with_honest_acks): the wait of the proposer for acknowledgements after a broadcast (Model/ProposerWait.lean, guard Gen.proposerQuorum regenerated from consensus/src/proposer.rs with its initialisation and accumulation shape-checked) ends as soon as the non-faulty peers have acknowledged, at the first completion that reaches the quorum — never blocked by crashed peers; the engine proposerwait runs the real Proposer with every peer on simnet (Make, a second Make queued, ACKs released one at a time, some peers never answering) against that model and an independent stake oracle. N1 (lost_tc_leaves_nodes_stuck, Proofs/PacemakerStuck): why the premise "not lost" is needed — if the single broadcast of TC(r) is lost after part of the nodes used it and neither part holds a quorum, no sequence of timer expiries and timeouts ever moves a node (proved for every such sequence; it is what the simulation met on the real code with lossy cuts before stabilisation, DESIGN 0.7), so before stabilisation the simulation delays messages but never loses them.',
    },
    "C07": {
        "lean_modules": ['HotstuffModel.Properties.C07'],
        "engines": [{'name': 'netsim'}, {'name': 'cons'}, {'name': 'syncretry'}],
        "level": "proof",
        "level_text": 'PARTIAL: machine-checked protocol lemmas, and the safety half of convergence (delivery logs of honest nodes are prefixes of one another in every reachable global state: never_diverges); that a reconnected node DOES catch up is a liveness statement, explored by simulation on the real code.',
        "trusted_base": TB_COMMON + [
            "ideal signatures and collision-free digests (DESIGN 3.4): ed25519 and SHA-512 are modelled, not verified",
            "netsim engine: real nodes (real node.rs wiring) on the in-memory simnet transport under tokio's paused virtual clock; harness proxies model links (latency >= 5 ms; a lossy cut hangs connections and resets them at healing; a lossless outage keeps the connection and delivers the waiting frames afterwards — the only kind used before stabilisation in the liveness scenario; no loss on healthy links)",
        ],
        "assumptions": ["convergence 'once reconnected' is a liveness statement: explored by simulation, not proved"],
        "explanation": "Proved for every state/input: a sync request from a member is answered with exactly the block stored under the digest (and stored blocks have the digest they are filed under); a block with a missing parent is parked, the parent requested from its author once, retried by broadcast; parked blocks resume only after the parent is stored; blocks enter the store only after their parents (oldest first). Explored: netsim isolates one real node for a random interval while the others commit (with/without view changes, slow first sync target) and requires its commit log to reach and equal the others'; the cons engine compares the single-node park/request/resume behaviour with the model. The engine syncretry runs the real Synchronizer with the DEFAULT retry delay at its real cadence (5 s ticks; the synchronizers read a tokio-driven clock in verification builds, hook H4): request to the author once, no retry before the delay, re-broadcast to all at the first tick past it and at every later one, resume exactly once when the parent is stored. The Synchronizer task itself is modelled with its timestamps (Model/Synchronizer.lean; its timer rule is the generated guard syncRetryDue, regenerated from consensus/src/synchronizer.rs on every run) and proved: first request to the author once (T1), the timer re-broadcasts exactly the overdue requests (T2), an unanswered request is re-broadcast at every tick past ts+delay whatever else happens (T3), resume exactly on the parent's arrival, each child once, no request left (T4); the engine syncretry replays every step of every case on that model (hsmodel `sy` commands) and compares the outputs step by step.",
    },
    "C13": {
        "lean_modules": ['HotstuffModel.Properties.C13'],
        "engines": [{'name': 'netsim'}, {'name': 'mempoolsync'}, {'name': 'cons'}],
        "level": "proof",
        "level_text": 'PARTIAL: machine-checked pipeline lemmas + whole-system simulation on the real code.',
        "trusted_base": TB_COMMON + [
            "ideal signatures and collision-free digests (DESIGN 3.4): ed25519 and SHA-512 are modelled, not verified",
            "netsim engine: real nodes (real node.rs wiring) on the in-memory simnet transport under tokio's paused virtual clock; harness proxies model links (latency >= 5 ms; a lossy cut hangs connections and resets them at healing; a lossless outage keeps the connection and delivers the waiting frames afterwards — the only kind used before stabilisation in the liveness scenario; no loss on healthy links)",
        ],
        "assumptions": ['the end-to-end claim is a liveness statement over the whole system: explored by simulation, not proved', 'per-hand-over facts come from C11 (batching), C12 (quorum ACK), C08 (availability), C16 (store)'],
        "explanation": "Proved for every state/input: a digest from the mempool stays in the proposer's buffer until it goes into the node's next proposal or a Cleanup names it; a block with missing batches asks for exactly the missing ones from its author, is parked, and resumes exactly when all of them are stored. Explored: netsim submits client transactions to several real nodes (one node misses another's batch broadcasts) and checks on the real stores that every transaction is in a batch referenced by a block committed at EVERY node, readable under its digest. The peer-facing side of the mempool (Processor, Helper, Synchronizer, receiver dispatch) is modelled in Model/MempoolSync with 14 theorems (request exactly the new digests to the target, pending iff requested and not stored/cleaned, no second request while pending, retry exactly the overdue digests, a stored batch clears its request, helper replies with exactly the stored bytes) and driven in lock-step against a real Mempool::spawn by the engine mempoolsync (virtual clock via hook H4, incl. a retry delay longer than the tick period).",
    },
}
