"""Per-property configuration of /verif/check."""

TB_COMMON = [
    "Lean 4.33 kernel; axioms propext, Classical.choice, Quot.sound only (audited with #print axioms on every run)",
    "the statements in lean/HotstuffModel/Properties/*.lean",
    "the hand-written executable model lean/HotstuffModel/Model/*.lean, tied to /repo by the correspondence engines of /verif/harness (differential, not proved)",
    "the model driver's parser/printer and the harness canonicalisation",
]

PROPS = {
    "C17": {
        "lean_modules": ["HotstuffModel.Properties.C17"],
        "needs_translator": True,
        "engines": [{"name": "quorum"}],
        "level": "proof",
        "trusted_base": TB_COMMON + [
            "tools/translate.py (Rust expression -> Lean definition for quorum_threshold / stake default / leader index)",
        ],
        "assumptions": [
            "Committee keys are distinct (HashMap)",
            "u32 `.sum()` of stakes does not overflow: total < 2^31 as the property states",
        ],
        "explanation": "Theorems are proved about Gen.qtConsensus/Gen.qtMempool, regenerated from the Rust source on every run; "
                       "the engine evaluates the real Committee::{quorum_threshold,stake} of both crates and the model on the same committees "
                       "and checks the property's inequalities on the real values.",
    },
}
