#!/usr/bin/env python3
"""tools/mutant_prompt.py <Cxx> <worktree> [focus text] — the prompt for an independent mutant-writing sub-agent:
only the property's text (from properties.jsonl) and its scratch worktree; nothing from /verif."""
import json, sys
pid, wt = sys.argv[1], sys.argv[2]
focus = sys.argv[3] if len(sys.argv) > 3 else ""
tpl = open('/verif/tools/mutant_prompt.txt').read()
for l in open('/verif/properties.jsonl'):
    d = json.loads(l)
    if d['id'] == pid:
        a = d['anchors']
        prop = f"{d['id']} — {d['title']}\n\nStatement: {d['statement']}\n\nQuantifier: {d['quantifier']['text']}\n\nWhy tests cannot settle it: {d['why_tests_cant']}\n\nCode anchors: {', '.join(a.get('files', []))}\n"
        if focus:
            prop += f"\n(Of the clauses of the statement, aim at this one: {focus})\n"
        print(tpl.replace('{WT}', wt).replace('{PROP}', prop))
