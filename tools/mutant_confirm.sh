#!/bin/bash
# tools/mutant_confirm.sh <worktree> "<cargo args, e.g. --workspace>" <test filter>
# Confirms a sub-agent's seeded change in its own scratch worktree: demo fails with patch, passes without, 41 tests pass with patch.
set -u
WT=$1; CRATE=$2; FILTER=$3
cd "$WT" || exit 2
export CARGO_NET_OFFLINE=true
T="$WT/target"
git reset -q --hard; git clean -fdq -e deliver -e target
git apply deliver/demo.diff || { echo "demo.diff does not apply"; exit 2; }
echo "## without patch"
cargo test -q $CRATE --offline --target-dir "$T" "$FILTER" 2>&1 | grep -E "^test |test result|panicked" | head -8
git apply deliver/patch.diff || { echo "patch.diff does not apply"; exit 2; }
echo "## with patch"
cargo test -q $CRATE --offline --target-dir "$T" "$FILTER" 2>&1 | grep -E "^test |test result|panicked" | head -8
git reset -q --hard; git clean -fdq -e deliver -e target
git apply deliver/patch.diff
echo "## 41 tests with patch only"
cargo test --offline --target-dir "$T" 2>&1 | grep -E "test result|FAILED|failed" | head -12
