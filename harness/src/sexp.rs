//! Minimal s-expression splitting for the model driver's answers.

/// Split `(head a b c)` into its top-level items `[head, a, b, c]` (each item is raw text).
pub fn items(s: &str) -> Vec<String> {
    let s = s.trim();
    let inner = if s.starts_with('(') && s.ends_with(')') { &s[1..s.len() - 1] } else { s };
    let mut out = Vec::new();
    let mut depth = 0i32;
    let mut cur = String::new();
    for ch in inner.chars() {
        match ch {
            '(' => {
                depth += 1;
                cur.push(ch);
            }
            ')' => {
                depth -= 1;
                cur.push(ch);
                if depth == 0 {
                    out.push(std::mem::take(&mut cur));
                }
            }
            c if c.is_whitespace() && depth == 0 => {
                if !cur.is_empty() {
                    out.push(std::mem::take(&mut cur));
                }
            }
            c => cur.push(c),
        }
    }
    if !cur.is_empty() {
        out.push(cur);
    }
    out
}

pub fn head(s: &str) -> String {
    items(s).into_iter().next().unwrap_or_default()
}
