//! Handle on the Lean model driver (`hsmodel`): one s-expression per line in, one line out.
use std::io::{BufRead, BufReader, Write};
use std::process::{Child, ChildStdin, ChildStdout, Command, Stdio};

pub struct Model {
    child: Child,
    stdin: ChildStdin,
    stdout: BufReader<ChildStdout>,
    pub requests: u64,
}

pub fn model_path() -> String {
    std::env::var("HSMODEL").unwrap_or_else(|_| "/verif/lean/.lake/build/bin/hsmodel".to_string())
}

impl Model {
    pub fn spawn() -> Model {
        let mut child = Command::new(model_path())
            .stdin(Stdio::piped())
            .stdout(Stdio::piped())
            .spawn()
            .expect("cannot start the model driver (hsmodel)");
        let stdin = child.stdin.take().unwrap();
        let stdout = BufReader::new(child.stdout.take().unwrap());
        Model { child, stdin, stdout, requests: 0 }
    }

    pub fn ask(&mut self, line: &str) -> String {
        debug_assert!(!line.contains('\n'));
        self.stdin.write_all(line.as_bytes()).unwrap();
        self.stdin.write_all(b"\n").unwrap();
        self.stdin.flush().unwrap();
        let mut out = String::new();
        self.stdout.read_line(&mut out).expect("model driver died");
        self.requests += 1;
        out.trim_end().to_string()
    }
}

impl Drop for Model {
    fn drop(&mut self) {
        let _ = self.child.kill();
        let _ = self.child.wait();
    }
}
