//! E2/mempoolsync — the peer-facing side of the mempool (C13, C11): the REAL `Processor`, `Helper`,
//! `Synchronizer`, `NetworkReceiver` and `MempoolReceiverHandler`, started by the real
//! `Mempool::spawn` for one node (authority 1) on `network::simnet` under tokio's paused clock.
//!
//! The harness plays everything around that node:
//!   * every other mempool (authorities 2..n): a simnet listener on its mempool address that records
//!     each frame and answers `Ack` (authorities listed in `Case::down` do not listen at all:
//!     connections to them are refused, what the node sends them is lost);
//!   * consensus: it sends `ConsensusMempoolMessage::{Synchronize, Cleanup}` into the channel the
//!     synchronizer reads and drains the channel on which the processors announce digests;
//!   * remote peers: two simnet connections to the node's mempool port on which it writes
//!     `MempoolMessage::Batch` frames (valid bincode, some with trailing bytes, which bincode accepts),
//!     `MempoolMessage::BatchRequest` frames (origin = a peer, a key outside the committee, or the
//!     node itself) and undecodable frames; after every undecodable frame a valid probe frame
//!     (`BatchRequest([], stranger)`) follows on the SAME connection and must be ACKed too;
//!   * another task of the node writing the shared store (as consensus does with blocks and the
//!     other `Processor` with own batches).
//! One stimulus at a time; after each, a quiescence barrier (`sleep(1µs)` + yields, repeated while the
//! harness peers still receive something), then everything observable is collected: frames at each
//! harness peer, ACKs on the harness' connections, digests handed to consensus, and the value under
//! every digest of the case's universe read through a cloned `Store`.
//!
//! NOTE (hook H4): in verification builds the synchronizer's `SystemTime` is `network::simnet::SystemTime`,
//! which follows tokio's clock.  "Wall clock" below therefore means that virtual clock, and the
//! "real sleep" before a tick is a virtual advance; the bracket reasoning is unchanged.
//!
//! TIME.  The synchronizer stamps a pending digest with `SystemTime::now()` (wall clock) and its retry
//! timer compares wall-clock readings, but the timer itself ticks on tokio time (`TIMER_RESOLUTION` =
//! 1000 ms).  So a `Timer` stimulus (a) optionally REALLY sleeps (`std::thread::sleep`, the tokio
//! clock does not move), (b) advances the paused tokio clock past the tick.  The harness keeps bounds
//! on the tick's deadline (it is re-armed `1000 ms` after the handler ran) and never lets virtual
//! time drift over it by accident (each barrier costs 1-3 virtual ms; a `Timer` step is forced when
//! fewer than 150 virtual ms are left).  Three delay regimes, chosen per case:
//!   * `sync_retry_delay = 0`, real sleep 3 ms before every tick: everything pending is overdue;
//!   * `sync_retry_delay = 10^12`: nothing is ever overdue;
//!   * `sync_retry_delay = 120 ms`, real sleep of 0 or 160 ms before a tick: entries older than the
//!     sleep are overdue, the ones made after it are not.
//! The harness reads the wall clock before and after each step; the synchronizer's own reading lies
//! in that bracket.  An entry is *certainly overdue* at a tick if `hi(sync) + delay < lo(tick)`,
//! *certainly not* if `lo(sync) + delay >= hi(tick)`.  If neither holds for some pending digest
//! (machine hiccup), the case is abandoned (`case.abandoned-timing` in the histogram; nothing is
//! reported for it).  The model gets `now = hi` for a `Synchronize` and `now = lo` for a tick, which
//! agrees with the real run in both certain cases.
//!
//! MODEL.  The same stimuli drive the Lean model `HS.MS` (`(ms …)` commands of `hsmodel`).  What the
//! model addresses to the node itself (a request whose target, or a reply whose origin, is the node)
//! is fed back to the model as the frame event it is (the harness classifies the bytes with the real
//! `bincode`), then `(ms settle)` completes the waiters of stored digests, as has happened in the
//! real node at quiescence.  Compared per step, as canonical text: ACK count, digests to consensus in
//! order, the store over the universe, the frames at each harness peer in order (digest order
//! inside a retry request is `HashMap` order in the code: compared sorted).  `lucky_broadcast`'s pick is
//! taken from the real run (the peers that received the retry, filled up with `down` peers).
//! class `impl_vs_model`, kind `C13:mempoolsync-trace`.
//!
//! MONITORS (independent of the model, on the real outputs; class `impl_vs_property`):
//!   C11:stored-under-wrong-key, C11:unexpected-store-change, C11:announced-digest-not-hash,
//!   C11:frame-not-acked, C13:service-dead-after-garbage, C13:request-not-to-target,
//!   C13:requested-twice-while-pending, C13:missing-digest-not-requested,
//!   C13:request-for-unasked-digest, C13:retry-before-delay, C13:retry-of-non-pending,
//!   C13:retry-missing, C13:retry-recipients, C13:helper-reply, C13:unexpected-frame,
//!   C13:task-panicked.
//! They keep their own expectation of the store and of the set of pending digests (requested by a
//! `Synchronize`, not stored and not garbage-collected since).  Two behaviours of the code are
//! tolerated and counted (`obs.*` in the histogram) because the property does not forbid them: a
//! `Synchronize` naming an already stored digest requests it again (the synchronizer never reads the
//! store), and an EMPTY `BatchRequest` is sent when every named digest is already pending.
//!
//! `hsverif mempoolsync-selftest` feeds the monitors hand-made wrong outputs (see `selftest`).
//!
//! Each case gets a fresh tokio runtime, `simnet::reset()` and a fresh RocksDB directory next to
//! `--out` (env `HS_DBDIR` overrides the directory, e.g. a tmpfs: opening RocksDB dominates the cost
//! of a case).  The run stops at a wall-clock budget (16 s quick, 240 s thorough;
//! `stopped.time-budget` in the histogram) if the case count is not reached before.
use crate::driver::Model;
use crate::report::Report;
use crate::sexp;
use crate::Opts;
use bytes::Bytes;
use crypto::{Digest, PublicKey};
use ed25519_dalek::Digest as _;
use ed25519_dalek::Sha512;
use futures::{FutureExt as _, SinkExt as _, StreamExt as _};
use mempool::verif::MempoolMessage;
use mempool::{ConsensusMempoolMessage, Mempool, Parameters};
use network::simnet::{self, TcpListener, TcpStream};
use rand::rngs::SmallRng;
use rand::{Rng, SeedableRng};
use serde::{Deserialize, Serialize};
use serde_json::json;
use std::collections::{BTreeMap, BTreeSet, HashMap};
use std::net::SocketAddr;
use std::sync::atomic::{AtomicU64, Ordering};
use network::simnet::{SystemTime, UNIX_EPOCH};
use std::time::Duration;
use store::Store;
use tokio::sync::mpsc::channel;
use tokio_util::codec::{Framed, LengthDelimitedCodec};

pub const DELAY_HUGE: u64 = 1_000_000_000_000;
pub const DELAY_MID: u64 = 120;
pub const PRESLEEP_MID: u64 = 160;
const STRANGER: u32 = 99;

#[derive(Clone, Debug, Serialize, Deserialize, PartialEq, Eq, PartialOrd, Ord)]
pub enum DRef {
    /// SHA-512/256 of `Case::frames[i]`
    Frame(usize),
    /// a digest that is the hash of nothing in the case
    Fresh(u8),
}

#[derive(Clone, Debug, Serialize, Deserialize)]
pub enum WVal {
    Frame(usize),
    Bytes(Vec<u8>),
}

/// Authorities: 1 = the node under test, 2..=n the other members, 0 = a key outside the committee.
#[derive(Clone, Debug, Serialize, Deserialize)]
pub enum Stim {
    Batch { frame: usize, conn: usize },
    Request { digests: Vec<DRef>, origin: u32, conn: usize },
    Garbage { bytes: Vec<u8>, conn: usize },
    Sync { digests: Vec<DRef>, target: u32 },
    Cleanup { round: u64 },
    Timer { presleep_ms: u64 },
    Write { key: DRef, value: WVal },
}

#[derive(Clone, Debug, Serialize, Deserialize)]
pub struct Case {
    pub n: u32,
    pub gc_depth: u64,
    pub retry_delay: u64,
    pub retry_nodes: usize,
    pub down: Vec<u32>,
    /// the batch frames of the case (whole serialized `MempoolMessage::Batch`, maybe with trailing bytes)
    pub frames: Vec<Vec<u8>>,
    pub stims: Vec<Stim>,
}

pub type D32 = [u8; 32];

pub fn sha(b: &[u8]) -> D32 {
    let mut out = [0u8; 32];
    out.copy_from_slice(&Sha512::digest(b)[..32]);
    out
}

fn key(i: u32) -> PublicKey {
    let i = if i == 0 { STRANGER } else { i };
    let mut k = [0u8; 32];
    k[..4].copy_from_slice(&i.to_be_bytes());
    k[31] = 7;
    PublicKey(k)
}

fn key_number(k: &PublicKey) -> u32 {
    let mut b = [0u8; 4];
    b.copy_from_slice(&k.0[..4]);
    let i = u32::from_be_bytes(b);
    if *k == key(i) {
        i
    } else {
        777_777
    }
}

fn mempool_addr(i: u32) -> SocketAddr {
    format!("127.0.0.1:{}", 7500 + i).parse().unwrap()
}

fn committee(n: u32) -> mempool::Committee {
    mempool::Committee::new((1..=n).map(|i| (key(i), 1, format!("127.0.0.1:{}", 7600 + i).parse().unwrap(), mempool_addr(i))).collect(), 1)
}

impl Case {
    pub fn digest(&self, r: &DRef) -> D32 {
        match r {
            DRef::Frame(i) => sha(&self.frames[*i % self.frames.len().max(1)]),
            DRef::Fresh(j) => {
                let mut d = [0xF0u8; 32];
                d[0] = *j;
                d[31] = 0x5A;
                d
            }
        }
    }
    pub fn value(&self, v: &WVal) -> Vec<u8> {
        match v {
            WVal::Frame(i) => self.frames[*i % self.frames.len().max(1)].clone(),
            WVal::Bytes(b) => b.clone(),
        }
    }
    /// every digest the case can talk about (the store is probed under these keys)
    pub fn universe(&self) -> Vec<D32> {
        let mut u = BTreeSet::new();
        for i in 0..self.frames.len() {
            u.insert(sha(&self.frames[i]));
        }
        for j in 0..6u8 {
            u.insert(self.digest(&DRef::Fresh(j)));
        }
        for s in &self.stims {
            if let Stim::Write { key, value } = s {
                u.insert(self.digest(key));
                u.insert(sha(&self.value(value)));
            }
        }
        u.into_iter().collect()
    }
    fn is_up(&self, i: u32) -> bool {
        i >= 2 && i <= self.n && !self.down.contains(&i)
    }
}

/// What the harness saw after one stimulus.
#[derive(Clone, Debug, Default)]
pub struct StepObs {
    pub frames_sent: usize,
    pub acks: usize,
    pub digests: Vec<D32>,
    pub store: BTreeMap<D32, Vec<u8>>,
    pub peer_frames: BTreeMap<u32, Vec<Vec<u8>>>,
    /// wall clock (ms since the case started) before / after the step
    pub t_lo: u128,
    pub t_hi: u128,
    /// a `Timer` step the harness inserted because virtual time came close to the tick
    pub forced: bool,
    pub panics: Vec<String>,
}

fn wall_ms() -> u128 {
    SystemTime::now().duration_since(UNIX_EPOCH).unwrap().as_millis()
}

async fn barrier() {
    for _ in 0..3 {
        tokio::time::sleep(Duration::from_micros(1)).await;
        for _ in 0..8 {
            tokio::task::yield_now().await;
        }
    }
}

struct Peer {
    id: u32,
    listener: TcpListener,
    conns: Vec<Framed<TcpStream, LengthDelimitedCodec>>,
    inbox: Vec<Vec<u8>>,
}

async fn pump(peers: &mut Vec<Peer>) {
    for _ in 0..40 {
        barrier().await;
        let mut progress = false;
        for p in peers.iter_mut() {
            while let Some(Ok((s, _))) = p.listener.accept().now_or_never() {
                p.conns.push(Framed::new(s, LengthDelimitedCodec::new()));
                progress = true;
            }
            for c in p.conns.iter_mut() {
                while let Some(Some(Ok(b))) = c.next().now_or_never() {
                    p.inbox.push(b.to_vec());
                    let _ = c.send(Bytes::from("Ack")).await;
                    progress = true;
                }
            }
        }
        if !progress {
            break;
        }
    }
}

static DB_COUNTER: AtomicU64 = AtomicU64::new(0);

fn fresh_db(dir: &str) -> String {
    let n = DB_COUNTER.fetch_add(1, Ordering::SeqCst);
    let p = format!("{}/db_ms_{}_{}", dir, std::process::id(), n);
    let _ = std::fs::remove_dir_all(&p);
    p
}

fn request_frame(digests: Vec<D32>, origin: u32) -> Vec<u8> {
    bincode::serialize(&MempoolMessage::BatchRequest(digests.into_iter().map(Digest).collect(), key(origin))).unwrap()
}

/// Run the case on the real code.  Returns the executed steps (the case's stimuli plus forced timer
/// steps) with what was observed after each.
pub async fn exec_real(case: &Case, db: &str) -> Result<Vec<(Stim, StepObs)>, String> {
    simnet::reset();
    let _ = crate::world::take_panics();
    let com = committee(case.n);
    let me = key(1);
    let universe = case.universe();
    let mut peers: Vec<Peer> = Vec::new();
    for i in 2..=case.n {
        if case.is_up(i) {
            peers.push(Peer { id: i, listener: TcpListener::bind(&mempool_addr(i)).await.map_err(|e| format!("bind: {}", e))?, conns: vec![], inbox: vec![] });
        }
    }
    let store = Store::new(db).map_err(|e| format!("store: {}", e))?;
    let (tx_cons, rx_cons) = channel::<ConsensusMempoolMessage>(1_000);
    let (tx_digest, mut rx_digest) = channel::<Digest>(10_000);
    let parameters = Parameters { gc_depth: case.gc_depth, sync_retry_delay: case.retry_delay, sync_retry_nodes: case.retry_nodes, batch_size: 500_000, max_batch_delay: 1_000_000_000 };
    let v0 = tokio::time::Instant::now();
    let w0 = wall_ms();
    let spawn_at = v0.elapsed();
    Mempool::spawn(me, com.clone(), parameters, store.clone(), rx_cons, tx_digest);
    barrier().await;
    // bounds on the deadline of the synchronizer's tick (virtual time since v0)
    let mut dl_lo = spawn_at + Duration::from_millis(1_000);
    let mut dl_hi = v0.elapsed() + Duration::from_millis(1_000);
    let mut conns = Vec::new();
    for _ in 0..2 {
        let s = TcpStream::connect(mempool_addr(1)).await.map_err(|e| format!("connect to the node: {}", e))?;
        conns.push(Framed::new(s, LengthDelimitedCodec::new()));
    }
    barrier().await;

    let mut out: Vec<(Stim, StepObs)> = Vec::new();
    let mut queue: Vec<(Stim, bool)> = Vec::new();
    for s in &case.stims {
        queue.push((s.clone(), false));
    }
    let mut qi = 0;
    while qi < queue.len() {
        // never cross the tick by accident
        let (stim, forced) = if !matches!(queue[qi].0, Stim::Timer { .. }) && v0.elapsed() + Duration::from_millis(150) >= dl_lo {
            (Stim::Timer { presleep_ms: if case.retry_delay == 0 { 3 } else { 0 } }, true)
        } else {
            qi += 1;
            queue[qi - 1].clone()
        };
        let mut obs = StepObs { forced, ..Default::default() };
        obs.t_lo = wall_ms() - w0;
        match &stim {
            Stim::Batch { frame, conn } => {
                let f = case.frames[*frame % case.frames.len()].clone();
                let _ = conns[*conn % 2].send(Bytes::from(f)).await;
                obs.frames_sent = 1;
            }
            Stim::Request { digests, origin, conn } => {
                let f = request_frame(digests.iter().map(|d| case.digest(d)).collect(), *origin);
                let _ = conns[*conn % 2].send(Bytes::from(f)).await;
                obs.frames_sent = 1;
            }
            Stim::Garbage { bytes, conn } => {
                let _ = conns[*conn % 2].send(Bytes::from(bytes.clone())).await;
                // probe on the same connection
                let _ = conns[*conn % 2].send(Bytes::from(request_frame(vec![], 0))).await;
                obs.frames_sent = 2;
            }
            Stim::Sync { digests, target } => {
                let ds = digests.iter().map(|d| Digest(case.digest(d))).collect();
                let _ = tx_cons.send(ConsensusMempoolMessage::Synchronize(ds, key(*target))).await;
            }
            Stim::Cleanup { round } => {
                let _ = tx_cons.send(ConsensusMempoolMessage::Cleanup(*round)).await;
            }
            Stim::Timer { presleep_ms } => {
                // hook H4: the synchronizer's "wall clock" is tokio's clock in this build, so the
                // pre-sleep is virtual too (it may itself carry the clock over the tick: still one tick)
                if *presleep_ms > 0 {
                    tokio::time::advance(Duration::from_millis(*presleep_ms)).await;
                }
                let target = dl_hi + Duration::from_millis(2);
                let now = v0.elapsed();
                if target > now {
                    tokio::time::advance(target - now).await;
                }
                // the tick handler runs in the barrier that follows and reads the clock then
                obs.t_lo = wall_ms() - w0;
                dl_lo = v0.elapsed() + Duration::from_millis(1_000);
            }
            Stim::Write { key, value } => {
                let mut s = store.clone();
                s.write(case.digest(key).to_vec(), case.value(value)).await;
            }
        }
        pump(&mut peers).await;
        obs.t_hi = wall_ms() - w0;
        if let Stim::Timer { .. } = &stim {
            dl_hi = v0.elapsed() + Duration::from_millis(1_000);
        }
        for c in conns.iter_mut() {
            while let Some(Some(Ok(b))) = c.next().now_or_never() {
                if &b[..] == b"Ack" {
                    obs.acks += 1;
                } else {
                    obs.acks += 1_000; // something else than an ACK came back
                }
            }
        }
        while let Ok(d) = rx_digest.try_recv() {
            obs.digests.push(d.0);
        }
        for p in peers.iter_mut() {
            if !p.inbox.is_empty() {
                obs.peer_frames.insert(p.id, std::mem::take(&mut p.inbox));
            }
        }
        let mut s = store.clone();
        for k in &universe {
            match s.read(k.to_vec()).await {
                Ok(Some(v)) => {
                    obs.store.insert(*k, v);
                }
                Ok(None) => {}
                Err(e) => return Err(format!("store read: {}", e)),
            }
        }
        obs.panics = crate::world::take_panics();
        out.push((stim, obs));
    }
    Ok(out)
}

// ---------------------------------------------------------------------------------------------
// property monitors (independent of the model)

#[derive(Clone, Debug)]
pub struct PendSpec {
    pub lo: u128,
    pub hi: u128,
    pub round: u64,
}

/// The monitors' own expectation.
pub struct Spec {
    pub store: BTreeMap<D32, Vec<u8>>,
    pub pending: BTreeMap<D32, PendSpec>,
    pub round: u64,
    /// a tick whose outcome the wall-clock brackets do not determine: stop judging this case
    pub ambiguous: bool,
    pub notes: Vec<String>,
}

impl Spec {
    pub fn new() -> Spec {
        Spec { store: BTreeMap::new(), pending: BTreeMap::new(), round: 0, ambiguous: false, notes: vec![] }
    }
}

fn hx(b: &[u8]) -> String {
    let s: String = b.iter().take(6).map(|x| format!("{:02x}", x)).collect();
    if b.len() > 6 {
        format!("{}..({}B)", s, b.len())
    } else {
        s
    }
}

fn first_occurrences(ds: &[D32]) -> Vec<D32> {
    let mut seen = BTreeSet::new();
    ds.iter().filter(|d| seen.insert(**d)).cloned().collect()
}

/// Evaluate one executed step against the property; updates the expectation.
pub fn monitor_step(case: &Case, spec: &mut Spec, stim: &Stim, obs: &StepObs) -> Vec<(String, String)> {
    let mut out: Vec<(String, String)> = Vec::new();
    macro_rules! bad {
        ($k:expr, $d:expr $(,)?) => {
            out.push(($k.to_string(), $d))
        };
    }
    for p in &obs.panics {
        bad!("C13:task-panicked", format!("a task of the node panicked: {}", p));
    }
    let loopback = matches!(stim, Stim::Sync { target: 1, .. } | Stim::Request { origin: 1, .. });

    // ---- store
    let mut frame_key: Option<(D32, Vec<u8>)> = None;
    match stim {
        Stim::Batch { frame, .. } => {
            let f = case.frames[*frame % case.frames.len()].clone();
            spec.store.insert(sha(&f), f.clone());
            frame_key = Some((sha(&f), f));
        }
        Stim::Write { key, value } => {
            spec.store.insert(case.digest(key), case.value(value));
        }
        _ => {}
    }
    if loopback {
        // what the node sends to itself comes back as frames; the model comparison covers it
        spec.store = obs.store.clone();
    } else {
        if let Some((k, f)) = &frame_key {
            match obs.store.get(k) {
                Some(v) if v == f => {}
                Some(v) => bad!("C11:stored-under-wrong-key", format!("batch frame {}: the store holds {} under SHA-512/256(frame) = {}", hx(f), hx(v), hx(k))),
                None => bad!("C11:stored-under-wrong-key", format!("batch frame {}: nothing stored under SHA-512/256(frame) = {}", hx(f), hx(k))),
            }
        }
        for k in case.universe() {
            if frame_key.as_ref().map_or(false, |(fk, _)| *fk == k) {
                continue;
            }
            if obs.store.get(&k) != spec.store.get(&k) {
                bad!(
                    "C11:unexpected-store-change",
                    format!("key {}: store holds {:?}, expected {:?} after {:?}", hx(&k), obs.store.get(&k).map(|v| hx(v)), spec.store.get(&k).map(|v| hx(v)), stim_kind(stim)),
                );
            }
        }
    }

    // ---- digests handed to consensus
    if !loopback {
        let expect: Vec<D32> = frame_key.iter().map(|(k, _)| *k).collect();
        if obs.digests != expect {
            bad!(
                "C11:announced-digest-not-hash",
                format!("after {:?}: digests handed to consensus {:?}, expected {:?} (the hash of the received frame, once)", stim_kind(stim), obs.digests.iter().map(|d| hx(d)).collect::<Vec<_>>(), expect.iter().map(|d| hx(d)).collect::<Vec<_>>()),
            );
        }
    }

    // ---- ACKs
    if obs.acks != obs.frames_sent {
        if let Stim::Garbage { bytes, .. } = stim {
            bad!("C13:service-dead-after-garbage", format!("undecodable frame {} then a valid probe on the same connection: {} ACKs came back, expected 2", hx(bytes), obs.acks));
        } else {
            bad!("C11:frame-not-acked", format!("{:?}: {} frame(s) sent, {} ACK(s) received", stim_kind(stim), obs.frames_sent, obs.acks));
        }
    }

    // ---- frames at the harness peers
    let decode = |b: &Vec<u8>| -> Option<(Vec<D32>, u32)> {
        match bincode::deserialize::<MempoolMessage>(b) {
            Ok(MempoolMessage::BatchRequest(ds, o)) => Some((ds.into_iter().map(|d| d.0).collect(), key_number(&o))),
            _ => None,
        }
    };
    let mut explained: BTreeSet<u32> = BTreeSet::new();
    match stim {
        Stim::Sync { digests, target } if !loopback => {
            let ds: Vec<D32> = digests.iter().map(|d| case.digest(d)).collect();
            let firsts = first_occurrences(&ds);
            if case.is_up(*target) {
                explained.insert(*target);
                let got = obs.peer_frames.get(target).cloned().unwrap_or_default();
                if got.len() != 1 {
                    bad!("C13:request-not-to-target", format!("Synchronize({:?}, {}): the target received {} frames, expected exactly one BatchRequest", digests, target, got.len()));
                }
                for f in got.iter().take(1) {
                    match decode(f) {
                        Some((m, origin)) => {
                            if origin != 1 {
                                bad!("C13:request-not-to-target", format!("the BatchRequest names origin {} instead of the node", origin));
                            }
                            for d in &m {
                                if !ds.contains(d) {
                                    bad!("C13:request-for-unasked-digest", format!("Synchronize({:?}, {}): the request lists {} which consensus did not name", digests, target, hx(d)));
                                } else if spec.pending.contains_key(d) {
                                    bad!("C13:requested-twice-while-pending", format!("Synchronize({:?}, {}): {} is requested again while its earlier request is still pending (not stored, not cleaned up since)", digests, target, hx(d)));
                                } else if spec.store.contains_key(d) {
                                    spec.notes.push("obs.sync-stored-digest-requested".into());
                                }
                            }
                            for d in &firsts {
                                if !spec.pending.contains_key(d) && !spec.store.contains_key(d) && !m.contains(d) {
                                    bad!("C13:missing-digest-not-requested", format!("Synchronize({:?}, {}): {} is neither stored nor pending but the request does not list it", digests, target, hx(d)));
                                }
                            }
                            if m.len() != first_occurrences(&m).len() {
                                bad!("C13:requested-twice-while-pending", format!("Synchronize({:?}, {}): the request lists a digest twice", digests, target));
                            }
                            if m.is_empty() {
                                spec.notes.push("obs.empty-request-sent".into());
                            }
                        }
                        None => bad!("C13:request-not-to-target", format!("Synchronize({:?}, {}): the target received {} which is not a BatchRequest", digests, target, hx(f))),
                    }
                }
            }
            for d in firsts {
                spec.pending.entry(d).or_insert(PendSpec { lo: obs.t_lo, hi: obs.t_hi, round: spec.round });
            }
        }
        Stim::Sync { digests, .. } => {
            let ds: Vec<D32> = digests.iter().map(|d| case.digest(d)).collect();
            for d in first_occurrences(&ds) {
                spec.pending.entry(d).or_insert(PendSpec { lo: obs.t_lo, hi: obs.t_hi, round: spec.round });
            }
        }
        Stim::Request { digests, origin, .. } if !loopback => {
            if case.is_up(*origin) {
                explained.insert(*origin);
                let expect: Vec<Vec<u8>> = digests.iter().filter_map(|d| spec.store.get(&case.digest(d)).cloned()).collect();
                let got = obs.peer_frames.get(origin).cloned().unwrap_or_default();
                if got != expect {
                    bad!(
                        "C13:helper-reply",
                        format!("BatchRequest({:?}, origin {}): origin received {:?}, expected the stored bytes of the stored digests in request order {:?}", digests, origin, got.iter().map(|v| hx(v)).collect::<Vec<_>>(), expect.iter().map(|v| hx(v)).collect::<Vec<_>>()),
                    );
                }
            }
        }
        Stim::Timer { .. } => {
            let k = case.retry_nodes.min(case.n as usize - 1);
            let mut sure_due: BTreeSet<D32> = BTreeSet::new();
            let mut sure_not: BTreeSet<D32> = BTreeSet::new();
            for (d, p) in &spec.pending {
                if p.hi + (case.retry_delay as u128) < obs.t_lo {
                    sure_due.insert(*d);
                } else if p.lo + (case.retry_delay as u128) >= obs.t_hi {
                    sure_not.insert(*d);
                } else {
                    spec.ambiguous = true;
                }
            }
            if spec.ambiguous {
                return out;
            }
            if !sure_due.is_empty() && !sure_not.is_empty() {
                spec.notes.push("timer.overdue-and-young-entries-together".into());
            }
            let receivers: Vec<u32> = obs.peer_frames.keys().cloned().collect();
            for r in &receivers {
                explained.insert(*r);
            }
            let mut contents: BTreeSet<Vec<D32>> = BTreeSet::new();
            for (p, fs) in &obs.peer_frames {
                if fs.len() != 1 {
                    bad!("C13:retry-recipients", format!("timer: peer {} received {} frames, expected at most one retry request", p, fs.len()));
                }
                for f in fs {
                    match decode(f) {
                        Some((mut m, origin)) => {
                            if origin != 1 {
                                bad!("C13:retry-recipients", format!("the retry request names origin {} instead of the node", origin));
                            }
                            m.sort();
                            contents.insert(m);
                        }
                        None => bad!("C13:unexpected-frame", format!("timer: peer {} received {} which is not a BatchRequest", p, hx(f))),
                    }
                }
            }
            if contents.len() > 1 {
                bad!("C13:retry-recipients", "timer: the peers received different retry requests".into());
            }
            for m in &contents {
                for d in m {
                    if sure_not.contains(d) {
                        let p = &spec.pending[d];
                        bad!("C13:retry-before-delay", format!("timer at wall clock [{}, {}] ms: {} re-requested although it was requested at [{}, {}] ms, less than sync_retry_delay = {} ms ago", obs.t_lo, obs.t_hi, hx(d), p.lo, p.hi, case.retry_delay));
                    } else if !sure_due.contains(d) {
                        bad!("C13:retry-of-non-pending", format!("timer: {} re-requested although it is not pending (never requested, or stored / cleaned up since)", hx(d)));
                    }
                }
                for d in &sure_due {
                    if !m.contains(d) {
                        bad!("C13:retry-missing", format!("timer at [{}, {}] ms: {} has been pending since [{}, {}] ms (> sync_retry_delay = {} ms) but the retry request does not list it", obs.t_lo, obs.t_hi, hx(d), spec.pending[d].lo, spec.pending[d].hi, case.retry_delay));
                    }
                }
            }
            if sure_due.is_empty() {
                if !receivers.is_empty() && contents.iter().all(|m| m.is_empty()) {
                    bad!("C13:retry-of-non-pending", "timer: an empty retry request was sent although nothing is overdue".into());
                }
            } else {
                let downs = case.down.len();
                if receivers.len() > k || receivers.len() + downs < k {
                    bad!("C13:retry-recipients", format!("timer: {} overdue digest(s); {} harness peers received the retry, expected min(sync_retry_nodes, n-1) = {} ({} peers are down)", sure_due.len(), receivers.len(), k, downs));
                }
            }
        }
        _ => {}
    }
    if !loopback {
        for (p, fs) in &obs.peer_frames {
            if !explained.contains(p) {
                bad!("C13:unexpected-frame", format!("{:?}: peer {} received {} frame(s) ({}) it should not have", stim_kind(stim), p, fs.len(), fs.iter().map(|v| hx(v)).collect::<Vec<_>>().join(",")));
            }
        }
    }

    // ---- pending: waiters of stored digests complete; Cleanup collects
    if let Stim::Cleanup { round } = stim {
        spec.round = *round;
        if *round >= case.gc_depth {
            let gc = *round - case.gc_depth;
            spec.pending.retain(|_, p| p.round > gc);
        }
    }
    let stored: Vec<D32> = spec.pending.keys().filter(|d| spec.store.contains_key(*d)).cloned().collect();
    for d in stored {
        spec.pending.remove(&d);
    }
    out
}

fn stim_kind(s: &Stim) -> String {
    match s {
        Stim::Batch { frame, .. } => format!("Batch(frame {})", frame),
        Stim::Request { digests, origin, .. } => format!("BatchRequest({:?}, origin {})", digests, origin),
        Stim::Garbage { bytes, .. } => format!("Garbage({})", hx(bytes)),
        Stim::Sync { digests, target } => format!("Synchronize({:?}, {})", digests, target),
        Stim::Cleanup { round } => format!("Cleanup({})", round),
        Stim::Timer { presleep_ms } => format!("Timer(after a real sleep of {} ms)", presleep_ms),
        Stim::Write { key, .. } => format!("Write({:?})", key),
    }
}

pub fn monitor(case: &Case, steps: &[(Stim, StepObs)]) -> (Vec<(String, String)>, Spec) {
    let mut spec = Spec::new();
    let mut out = Vec::new();
    for (i, (stim, obs)) in steps.iter().enumerate() {
        for (k, d) in monitor_step(case, &mut spec, stim, obs) {
            out.push((k, format!("step {}: {}", i, d)));
        }
        if spec.ambiguous {
            break;
        }
    }
    (out, spec)
}

// ---------------------------------------------------------------------------------------------
// model side

struct Intern {
    digests: HashMap<D32, usize>,
    bytes: HashMap<Vec<u8>, usize>,
    decls: Vec<String>,
}

impl Intern {
    fn new() -> Intern {
        Intern { digests: HashMap::new(), bytes: HashMap::new(), decls: vec![] }
    }
    fn d(&mut self, d: &D32) -> usize {
        let n = self.digests.len() + 1;
        *self.digests.entry(*d).or_insert(n)
    }
    fn b(&mut self, b: &[u8]) -> usize {
        if let Some(i) = self.bytes.get(b) {
            return *i;
        }
        let i = 1_000 + self.bytes.len() + 1;
        self.bytes.insert(b.to_vec(), i);
        let d = self.d(&sha(b));
        self.decls.push(format!("(ms hash {} {})", i, d));
        i
    }
    fn bytes_of(&self, id: usize) -> Option<Vec<u8>> {
        self.bytes.iter().find(|(_, v)| **v == id).map(|(k, _)| k.clone())
    }
}

#[derive(Default, Debug, PartialEq)]
struct Canon {
    acks: usize,
    digests: Vec<usize>,
    store: BTreeMap<usize, usize>,
    peers: BTreeMap<u32, Vec<String>>,
}

fn nums(s: &str) -> Vec<usize> {
    sexp::items(s).iter().filter_map(|x| x.parse().ok()).collect()
}

fn canon_real(case: &Case, it: &mut Intern, stim: &Stim, obs: &StepObs) -> Canon {
    let mut c = Canon { acks: obs.acks, ..Default::default() };
    c.digests = obs.digests.iter().map(|d| it.d(d)).collect();
    for (k, v) in &obs.store {
        let (k, v) = (it.d(k), it.b(v));
        c.store.insert(k, v);
    }
    let sort = matches!(stim, Stim::Timer { .. });
    for (p, fs) in &obs.peer_frames {
        let mut l = Vec::new();
        for f in fs {
            match bincode::deserialize::<MempoolMessage>(f) {
                Ok(MempoolMessage::BatchRequest(ds, o)) if bincode::serialize(&MempoolMessage::BatchRequest(ds.clone(), o)).map_or(false, |s| &s == f) => {
                    let mut ids: Vec<usize> = ds.iter().map(|d| it.d(&d.0)).collect();
                    if sort {
                        ids.sort();
                    }
                    l.push(format!("req({};{})", key_number(&o), ids.iter().map(|x| x.to_string()).collect::<Vec<_>>().join(",")));
                }
                _ => l.push(format!("raw({})", it.b(f))),
            }
        }
        c.peers.insert(*p, l);
    }
    let _ = case;
    c
}

/// Drive the model with one executed step; returns what the model says the harness observes.
fn model_step(model: &mut Model, case: &Case, it: &mut Intern, stim: &Stim, obs: &StepObs) -> Canon {
    let mut c = Canon::default();
    let dl = |it: &mut Intern, ds: &Vec<DRef>| ds.iter().map(|d| it.d(&case.digest(d)).to_string()).collect::<Vec<_>>().join(" ");
    let who = |i: u32| if i == 0 { STRANGER } else { i };
    // (command, counts towards the harness' ACKs)
    let mut work: Vec<(String, bool)> = Vec::new();
    match stim {
        Stim::Batch { frame, .. } => {
            let b = it.b(&case.frames[*frame % case.frames.len()]);
            work.push((format!("(ms frame {})", b), true));
        }
        Stim::Request { digests, origin, .. } => work.push((format!("(ms request ({}) {})", dl(it, digests), who(*origin)), true)),
        Stim::Garbage { .. } => {
            work.push(("(ms garbage)".into(), true));
            work.push((format!("(ms request () {})", STRANGER), true));
        }
        Stim::Sync { digests, target } => work.push((format!("(ms sync ({}) {} {})", dl(it, digests), who(*target), obs.t_hi), false)),
        Stim::Cleanup { round } => work.push((format!("(ms cleanup {})", round), false)),
        Stim::Timer { .. } => {
            // the pick of lucky_broadcast: the peers that got the retry, filled up with down peers
            let k = case.retry_nodes.min(case.n as usize - 1);
            let mut pick: Vec<u32> = obs.peer_frames.keys().cloned().collect();
            for d in &case.down {
                if pick.len() < k && !pick.contains(d) {
                    pick.push(*d);
                }
            }
            work.push((format!("(ms timer {} ({}))", obs.t_lo, pick.iter().map(|x| x.to_string()).collect::<Vec<_>>().join(" ")), false));
        }
        Stim::Write { key, value } => {
            let (k, v) = (it.d(&case.digest(key)), it.b(&case.value(value)));
            work.push((format!("(ms write {} {})", k, v), false));
        }
    }
    let sort = matches!(stim, Stim::Timer { .. });
    let mut guard = 0;
    while !work.is_empty() && guard < 200 {
        guard += 1;
        let (cmd, counts) = work.remove(0);
        for d in std::mem::take(&mut it.decls) {
            let _ = model.ask(&d);
        }
        let r = model.ask(&cmd);
        for o in sexp::items(&r).into_iter().skip(1) {
            let parts = sexp::items(&o);
            match parts.first().map(|s| s.as_str()) {
                Some("ack") => {
                    if counts {
                        c.acks += 1;
                    }
                }
                Some("stored") => {}
                Some("digest") => c.digests.push(parts[1].parse().unwrap_or(0)),
                Some("request") => {
                    let t: u32 = parts[1].parse().unwrap_or(0);
                    let ds = nums(&parts[2]);
                    if t == 1 {
                        work.push((format!("(ms request ({}) 1)", ds.iter().map(|x| x.to_string()).collect::<Vec<_>>().join(" ")), false));
                    } else if case.is_up(t) {
                        c.peers.entry(t).or_default().push(format!("req(1;{})", ds.iter().map(|x| x.to_string()).collect::<Vec<_>>().join(",")));
                    }
                }
                Some("retry") => {
                    let ps = nums(&parts[1]);
                    let mut ds = nums(&parts[2]);
                    if sort {
                        ds.sort();
                    }
                    for p in ps {
                        if case.is_up(p as u32) {
                            c.peers.entry(p as u32).or_default().push(format!("req(1;{})", ds.iter().map(|x| x.to_string()).collect::<Vec<_>>().join(",")));
                        }
                    }
                }
                Some("reply") => {
                    let o: u32 = parts[1].parse().unwrap_or(0);
                    let b: usize = parts[2].parse().unwrap_or(0);
                    if o == 1 {
                        // the node sends the stored bytes to its own mempool port: classify them as the receiver does
                        let bytes = it.bytes_of(b).unwrap_or_default();
                        match bincode::deserialize::<MempoolMessage>(&bytes) {
                            Ok(MempoolMessage::Batch(..)) => work.push((format!("(ms frame {})", b), false)),
                            Ok(MempoolMessage::BatchRequest(ds, o)) => {
                                let ids: Vec<String> = ds.iter().map(|d| it.d(&d.0).to_string()).collect();
                                work.push((format!("(ms request ({}) {})", ids.join(" "), key_number(&o)), false));
                            }
                            Err(_) => work.push(("(ms garbage)".into(), false)),
                        }
                    } else if case.is_up(o) {
                        c.peers.entry(o).or_default().push(format!("raw({})", b));
                    }
                }
                _ => {}
            }
        }
    }
    let _ = model.ask("(ms settle)");
    let st = model.ask("(ms state)");
    for part in sexp::items(&st).into_iter().skip(1) {
        let items = sexp::items(&part);
        if items.first().map(|s| s.as_str()) == Some("store") {
            for kv in items.iter().skip(1) {
                let n = nums(kv);
                if n.len() == 2 {
                    c.store.insert(n[0], n[1]);
                }
            }
        }
    }
    c
}

fn model_init(model: &mut Model, case: &Case) {
    let members: Vec<String> = (1..=case.n).map(|i| i.to_string()).collect();
    let _ = model.ask(&format!("(ms init 1 ({}) {} {} {})", members.join(" "), case.gc_depth, case.retry_delay, case.retry_nodes));
}

// ---------------------------------------------------------------------------------------------
// generation

fn gen_frame(rng: &mut SmallRng) -> Vec<u8> {
    let ntx = rng.gen_range(0, 4);
    let txs: Vec<Vec<u8>> = (0..ntx)
        .map(|_| {
            let l = *[0usize, 1, 8, 9, 33].get(rng.gen_range(0, 5)).unwrap();
            (0..l).map(|_| rng.gen()).collect()
        })
        .collect();
    let mut f = bincode::serialize(&MempoolMessage::Batch(txs)).unwrap();
    if rng.gen_bool(0.2) {
        // bincode::deserialize ignores trailing bytes: still a Batch for the receiver
        for _ in 0..rng.gen_range(1, 5) {
            f.push(rng.gen());
        }
    }
    f
}

fn gen_garbage(rng: &mut SmallRng) -> Vec<u8> {
    loop {
        let g: Vec<u8> = match rng.gen_range(0, 5) {
            0 => vec![],
            1 => (0..rng.gen_range(1, 24)).map(|_| rng.gen()).collect(),
            2 => {
                // an unknown variant tag
                let mut v = vec![2u8, 0, 0, 0];
                v.extend((0..rng.gen_range(0, 12)).map(|_| rng.gen::<u8>()));
                v
            }
            3 => {
                // a batch frame cut short
                let f = gen_frame(rng);
                let keep = rng.gen_range(0, f.len());
                f[..keep].to_vec()
            }
            _ => {
                // a batch request cut short
                let f = request_frame(vec![[7u8; 32]], 2);
                let keep = rng.gen_range(1, f.len());
                f[..keep].to_vec()
            }
        };
        if bincode::deserialize::<MempoolMessage>(&g).is_err() {
            return g;
        }
    }
}

fn gen_drefs(rng: &mut SmallRng, nframes: usize, lo: usize, hi: usize) -> Vec<DRef> {
    let k = rng.gen_range(lo, hi + 1);
    let mut v: Vec<DRef> = Vec::new();
    for _ in 0..k {
        if !v.is_empty() && rng.gen_bool(0.12) {
            let d = v[rng.gen_range(0, v.len())].clone();
            v.push(d); // a duplicate
        } else if rng.gen_bool(0.7) {
            v.push(DRef::Frame(rng.gen_range(0, nframes)));
        } else {
            v.push(DRef::Fresh(rng.gen_range(0, 4)));
        }
    }
    v
}

/// regime: 0 = delay 0, 1 = huge delay, 2 = 120 ms
pub fn gen_case(rng: &mut SmallRng, regime: u32) -> Case {
    let n = rng.gen_range(4, 7) as u32;
    let gc_depth = *[0u64, 1, 2, 5, 50].get(rng.gen_range(0, 5)).unwrap();
    let retry_nodes = *[0usize, 1, 2, 3, 10].get(rng.gen_range(0, 5)).unwrap();
    let retry_delay = match regime {
        0 => 0,
        1 => DELAY_HUGE,
        // longer than the tick period (TIMER_RESOLUTION = 1 s): a retry needs the request's timestamp
        // to survive several ticks (the default configuration has this shape: 5 s delay)
        3 => 2_500,
        _ => DELAY_MID,
    };
    let down = if rng.gen_bool(0.25) { vec![rng.gen_range(2, n + 1)] } else { vec![] };
    let mut frames: Vec<Vec<u8>> = Vec::new();
    while frames.len() < rng.gen_range(3, 7) {
        let f = gen_frame(rng);
        if !frames.contains(&f) {
            frames.push(f);
        }
    }
    let nf = frames.len();
    let len = if regime == 2 { rng.gen_range(5, 12) } else if regime == 3 { rng.gen_range(10, 20) } else { rng.gen_range(8, 23) };
    let mut stims = Vec::new();
    if regime == 2 {
        // an old and a young entry at the same tick: only the old one may be retried
        let a = rng.gen_range(0, nf);
        stims.push(Stim::Sync { digests: vec![DRef::Frame(a), DRef::Fresh(rng.gen_range(0, 2))], target: rng.gen_range(2, n + 1) });
        stims.push(Stim::Timer { presleep_ms: PRESLEEP_MID });
        stims.push(Stim::Sync { digests: vec![DRef::Frame((a + 1) % nf), DRef::Fresh(rng.gen_range(2, 4))], target: rng.gen_range(2, n + 1) });
        stims.push(Stim::Timer { presleep_ms: 0 });
    }
    for _ in 0..len {
        let mut r = rng.gen_range(0, 100);
        if regime == 2 || regime == 3 {
            // the 120 ms regime is about the timer: mostly Synchronize and ticks, so that entries older
            // and younger than the delay meet at the same tick
            r = match r {
                0..=13 => 0,   // batch
                14..=49 => 30, // sync
                50..=79 => 50, // timer
                80..=86 => 70, // request
                87..=88 => 80, // garbage
                89..=95 => 90, // cleanup
                _ => 97,       // write
            };
        }
        let s = if r < 22 {
            Stim::Batch { frame: rng.gen_range(0, nf), conn: rng.gen_range(0, 2) }
        } else if r < 47 {
            let t = rng.gen_range(0, 100);
            let target = if t < 85 { rng.gen_range(2, n + 1) } else if t < 89 { 1 } else { 0 };
            Stim::Sync { digests: gen_drefs(rng, nf, 1, 4), target }
        } else if r < 62 {
            let presleep_ms = match regime {
                0 => 3,
                1 | 3 => 0,
                _ => if rng.gen_bool(0.5) { PRESLEEP_MID } else { 0 },
            };
            Stim::Timer { presleep_ms }
        } else if r < 77 {
            let t = rng.gen_range(0, 100);
            let origin = if t < 80 { rng.gen_range(2, n + 1) } else if t < 92 { 0 } else { 1 };
            Stim::Request { digests: gen_drefs(rng, nf, 0, 4), origin, conn: rng.gen_range(0, 2) }
        } else if r < 85 {
            Stim::Garbage { bytes: gen_garbage(rng), conn: rng.gen_range(0, 2) }
        } else if r < 95 {
            Stim::Cleanup { round: rng.gen_range(0, gc_depth + 4) }
        } else {
            let key = if rng.gen_bool(0.6) { DRef::Frame(rng.gen_range(0, nf)) } else { DRef::Fresh(rng.gen_range(0, 4)) };
            let value = match (&key, rng.gen_bool(0.6)) {
                (DRef::Frame(i), true) => WVal::Frame(*i), // the other Processor storing an own batch
                _ => {
                    // something that is not a mempool message at all (a consensus block, say)
                    let mut v: Vec<u8> = (0..rng.gen_range(1, 40)).map(|_| rng.gen()).collect();
                    v[0] = 0xEE;
                    WVal::Bytes(v)
                }
            };
            Stim::Write { key, value }
        };
        stims.push(s);
    }
    Case { n, gc_depth, retry_delay, retry_nodes, down, frames, stims }
}

fn directed_cases() -> Vec<Case> {
    let f = |txs: Vec<Vec<u8>>| bincode::serialize(&MempoolMessage::Batch(txs)).unwrap();
    let frames = vec![f(vec![vec![1, 2, 3]]), f(vec![]), f(vec![vec![], vec![9; 40]]), { let mut x = f(vec![vec![5]]); x.extend([1, 2, 3]); x }];
    let mut out = Vec::new();
    // the example of Properties/C13.lean, with delay 0
    out.push(Case {
        n: 4,
        gc_depth: 2,
        retry_delay: 0,
        retry_nodes: 2,
        down: vec![],
        frames: frames.clone(),
        stims: vec![
            Stim::Sync { digests: vec![DRef::Frame(0), DRef::Frame(1), DRef::Frame(0)], target: 3 },
            Stim::Sync { digests: vec![DRef::Frame(1), DRef::Frame(2), DRef::Frame(0)], target: 4 },
            Stim::Sync { digests: vec![DRef::Frame(1)], target: 2 },
            Stim::Sync { digests: vec![DRef::Fresh(0)], target: 0 },
            Stim::Timer { presleep_ms: 3 },
            Stim::Batch { frame: 0, conn: 0 },
            Stim::Timer { presleep_ms: 3 },
            Stim::Cleanup { round: 1 },
            Stim::Cleanup { round: 3 },
            Stim::Timer { presleep_ms: 3 },
            Stim::Sync { digests: vec![DRef::Frame(0)], target: 3 },
            Stim::Request { digests: vec![DRef::Frame(0), DRef::Frame(1), DRef::Frame(0)], origin: 2, conn: 1 },
            Stim::Request { digests: vec![DRef::Frame(0)], origin: 0, conn: 1 },
            Stim::Garbage { bytes: vec![9, 9, 9], conn: 1 },
            Stim::Batch { frame: 3, conn: 1 },
            Stim::Request { digests: vec![DRef::Frame(3)], origin: 4, conn: 1 },
        ],
    });
    // the 120 ms regime: old entries are retried, young ones are not
    out.push(Case {
        n: 5,
        gc_depth: 50,
        retry_delay: DELAY_MID,
        retry_nodes: 3,
        down: vec![],
        frames: frames.clone(),
        stims: vec![
            Stim::Sync { digests: vec![DRef::Frame(0), DRef::Fresh(1)], target: 2 },
            Stim::Timer { presleep_ms: 0 },
            Stim::Sync { digests: vec![DRef::Frame(1)], target: 3 },
            Stim::Timer { presleep_ms: PRESLEEP_MID },
            Stim::Sync { digests: vec![DRef::Frame(2)], target: 4 },
            Stim::Batch { frame: 0, conn: 0 },
            Stim::Timer { presleep_ms: 0 },
            Stim::Timer { presleep_ms: PRESLEEP_MID },
        ],
    });
    // the node is asked to talk to itself: Synchronize with itself as target, BatchRequest with itself as origin
    out.push(Case {
        n: 4,
        gc_depth: 50,
        retry_delay: DELAY_HUGE,
        retry_nodes: 3,
        down: vec![3],
        frames: frames.clone(),
        stims: vec![
            Stim::Batch { frame: 2, conn: 0 },
            Stim::Write { key: DRef::Fresh(0), value: WVal::Bytes(vec![0xEE, 1, 2]) },
            Stim::Request { digests: vec![DRef::Frame(2), DRef::Fresh(0)], origin: 1, conn: 0 },
            Stim::Sync { digests: vec![DRef::Frame(2), DRef::Frame(1)], target: 1 },
            Stim::Sync { digests: vec![DRef::Frame(1)], target: 3 },
            Stim::Write { key: DRef::Frame(1), value: WVal::Frame(1) },
            Stim::Sync { digests: vec![DRef::Frame(1)], target: 2 },
            Stim::Timer { presleep_ms: 0 },
        ],
    });
    out
}

// ---------------------------------------------------------------------------------------------

struct Ctx {
    db_dir: String,
    distinct: BTreeSet<String>,
    mid_sleeps: u64,
}

fn run_case(model: Option<&mut Model>, rep: &mut Report, case: &Case, ctx: &mut Ctx) {
    // a fresh runtime per case: the tasks of the previous case must not leak into this one
    let db = fresh_db(&ctx.db_dir);
    let t0 = std::time::Instant::now();
    let rt = tokio::runtime::Builder::new_current_thread().enable_all().start_paused(true).build().unwrap();
    let real = rt.block_on(exec_real(case, &db));
    let t1 = t0.elapsed();
    drop(rt);
    let t2 = t0.elapsed();
    let _ = std::fs::remove_dir_all(&db);
    if std::env::var("HS_TRACE").is_ok() {
        eprintln!("case: exec {:?} drop-rt {:?} rmdir {:?} steps {}", t1, t2 - t1, t0.elapsed() - t2, case.stims.len());
    }
    rep.evaluations += 1;
    let replay = json!({"engine": "mempoolsync", "case": case});
    let steps = match real {
        Ok(s) => s,
        Err(e) => {
            rep.finding("impl_vs_property", "C13:harness-error", e, replay);
            return;
        }
    };
    let (hits, spec) = monitor(case, &steps);
    if spec.ambiguous {
        rep.hit("case.abandoned-timing");
        return;
    }
    for n in &spec.notes {
        rep.hit(n);
    }
    for (k, d) in hits {
        rep.finding("impl_vs_property", &k, d, replay.clone());
    }
    let mut kinds = BTreeSet::new();
    let mut req_frames = 0;
    for (s, o) in &steps {
        let k = match s {
            Stim::Batch { .. } => "batch",
            Stim::Request { origin, .. } => match origin { 0 => "request.stranger", 1 => "request.self", _ => "request.member" },
            Stim::Garbage { .. } => "garbage",
            Stim::Sync { target, .. } => match target { 0 => "sync.stranger", 1 => "sync.self", t if case.down.contains(t) => "sync.down-target", _ => "sync.member" },
            Stim::Cleanup { .. } => "cleanup",
            Stim::Timer { presleep_ms, .. } => {
                if o.forced { "timer.forced" } else if *presleep_ms >= PRESLEEP_MID { ctx.mid_sleeps += 1; "timer.after-long-sleep" } else { "timer" }
            }
            Stim::Write { .. } => "write",
        };
        rep.hit(&format!("stim.{}", k));
        kinds.insert(k.split('.').next().unwrap().to_string());
        if let Stim::Timer { .. } = s {
            rep.hit(if o.peer_frames.is_empty() { "timer.no-retry" } else { "timer.retry-sent" });
        }
        req_frames += o.peer_frames.values().map(|v| v.len()).sum::<usize>();
    }
    rep.hit(&format!("regime.delay-{}", if case.retry_delay == 0 { "0".to_string() } else if case.retry_delay == DELAY_HUGE { "huge".to_string() } else { format!("{}ms", case.retry_delay) }));
    if kinds.contains("sync") && (kinds.contains("batch") || kinds.contains("write")) && (kinds.contains("timer") || kinds.contains("request")) && req_frames > 0 {
        ctx.distinct.insert(serde_json::to_string(case).unwrap());
    }
    if let Some(model) = model {
        model_init(model, case);
        let mut it = Intern::new();
        let mut trace = Vec::new();
        for (i, (stim, obs)) in steps.iter().enumerate() {
            let r = canon_real(case, &mut it, stim, obs);
            let m = model_step(model, case, &mut it, stim, obs);
            trace.push(json!({"stim": stim_kind(stim), "observed": format!("{:?}", r)}));
            if r != m {
                rep.finding("impl_vs_model", "C13:mempoolsync-trace", format!("step {} {}: impl {:?} / model {:?}", i, stim_kind(stim), r, m), replay.clone());
                break;
            }
        }
        if rep.evaluations % 37 == 2 {
            rep.sample(json!({"n": case.n, "gc_depth": case.gc_depth, "retry_delay": case.retry_delay, "retry_nodes": case.retry_nodes, "down": case.down, "trace": trace}));
        }
    }
}

fn out_dir(o: &Opts) -> String {
    if let Ok(d) = std::env::var("HS_DBDIR") {
        return d;
    }
    std::path::Path::new(&o.out).parent().map(|p| p.to_string_lossy().to_string()).filter(|s| !s.is_empty()).unwrap_or_else(|| ".".into())
}

pub fn run(o: &Opts) -> Report {
    crate::world::install_panic_hook();
    let prop = if o.prop.is_empty() { "C13".to_string() } else { o.prop.clone() };
    let mut rep = Report::new("mempoolsync", &prop, &o.tier, o.seed);
    rep.rule = "real Mempool::spawn for one node on simnet (Processor, Helper, Synchronizer, receiver handler), committee of 4-6, gc_depth in {0,1,2,5,50}, sync_retry_nodes in {0,1,2,3,10}, sync_retry_delay in {0, 120 ms, 10^12} with real sleeps before timer ticks, 0-1 peers down; 5-22 stimuli per case out of: Batch frame (incl. trailing bytes, empty batch), BatchRequest (member / stranger / the node itself as origin; stored, unknown and duplicate digests), undecodable frame + probe, Synchronize (member / down / stranger / self target; stored, pending, duplicate digests), Cleanup (any round), timer tick, write to the shared store by another task; distinct by the whole case; non-trivial when the case has a Synchronize, a Batch or Write, a timer tick or BatchRequest, and at least one frame reached a harness peer".into();
    let mut ctx = Ctx { db_dir: out_dir(o), distinct: BTreeSet::new(), mid_sleeps: 0 };
    if let Some(file) = &o.replay {
        let v: serde_json::Value = serde_json::from_str(&std::fs::read_to_string(file).expect("replay file")).expect("replay json");
        let case: Case = serde_json::from_value(v["case"].clone()).expect("replay case");
        // a timing hiccup abandons the case: try again a few times
        for _ in 0..4 {
            let before = rep.histogram.get("case.abandoned-timing").cloned().unwrap_or(0);
            run_case(None, &mut rep, &case, &mut ctx);
            if rep.histogram.get("case.abandoned-timing").cloned().unwrap_or(0) == before {
                break;
            }
        }
        rep.distinct_nontrivial = ctx.distinct.len() as u64;
        return rep;
    }
    let mut model = Model::spawn();
    let mut rng = SmallRng::seed_from_u64(o.seed);
    let started = std::time::Instant::now();
    for c in directed_cases() {
        run_case(Some(&mut model), &mut rep, &c, &mut ctx);
    }
    let (cases, budget_s, max_mid_sleeps) = if o.thorough() { (3_000, 240, 600) } else { (170, 16, 35) };
    for i in 0..cases {
        if started.elapsed().as_secs() >= budget_s {
            rep.hit("stopped.time-budget");
            break;
        }
        let regime = if ctx.mid_sleeps < max_mid_sleeps && i % 5 == 4 { 2 } else if i % 5 == 3 { 3 } else { (i % 2) as u32 };
        let case = gen_case(&mut rng, regime);
        run_case(Some(&mut model), &mut rep, &case, &mut ctx);
    }
    rep.distinct_nontrivial = ctx.distinct.len() as u64;
    rep.model_requests = model.requests;
    rep
}

// ---------------------------------------------------------------------------------------------
// sensitivity of the monitors: hand-made wrong outputs

/// A correct run of a small case, synthesised (no real code involved), and single corruptions of it.
/// Every corruption must raise the named finding; the uncorrupted run must raise none.
pub fn selftest_cases() -> Vec<(&'static str, &'static str, Vec<(String, String)>)> {
    let f = |txs: Vec<Vec<u8>>| bincode::serialize(&MempoolMessage::Batch(txs)).unwrap();
    let case = Case {
        n: 4,
        gc_depth: 2,
        retry_delay: 100,
        retry_nodes: 2,
        down: vec![],
        frames: vec![f(vec![vec![1, 2, 3]]), f(vec![vec![4]])],
        stims: vec![],
    };
    let d0 = sha(&case.frames[0]);
    let d1 = sha(&case.frames[1]);
    let x = case.digest(&DRef::Fresh(0));
    // the correct run
    let good = || -> Vec<(Stim, StepObs)> {
        let mut st: BTreeMap<D32, Vec<u8>> = BTreeMap::new();
        let mut v = Vec::new();
        // 0: Synchronize([d0, x], 2) at 10..11 ms
        v.push((
            Stim::Sync { digests: vec![DRef::Frame(0), DRef::Fresh(0)], target: 2 },
            StepObs { peer_frames: [(2u32, vec![request_frame(vec![d0, x], 1)])].into_iter().collect(), t_lo: 10, t_hi: 11, store: st.clone(), ..Default::default() },
        ));
        // 1: Synchronize([d0, d1], 3): only d1 is new
        v.push((
            Stim::Sync { digests: vec![DRef::Frame(0), DRef::Frame(1)], target: 3 },
            StepObs { peer_frames: [(3u32, vec![request_frame(vec![d1], 1)])].into_iter().collect(), t_lo: 300, t_hi: 301, store: st.clone(), ..Default::default() },
        ));
        // 2: tick at 350: d0, x overdue (11 + 100 < 350), d1 not (300 + 100 >= 351)
        v.push((
            Stim::Timer { presleep_ms: 0 },
            StepObs { peer_frames: [(3u32, vec![request_frame(vec![x, d0], 1)]), (4u32, vec![request_frame(vec![x, d0], 1)])].into_iter().collect(), t_lo: 350, t_hi: 351, store: st.clone(), ..Default::default() },
        ));
        // 3: the batch arrives
        st.insert(d0, case.frames[0].clone());
        v.push((Stim::Batch { frame: 0, conn: 0 }, StepObs { frames_sent: 1, acks: 1, digests: vec![d0], store: st.clone(), t_lo: 352, t_hi: 353, ..Default::default() }));
        // 4: tick at 600: x and d1 overdue, d0 gone
        v.push((
            Stim::Timer { presleep_ms: 0 },
            StepObs { peer_frames: [(2u32, vec![request_frame(vec![d1, x], 1)]), (4u32, vec![request_frame(vec![d1, x], 1)])].into_iter().collect(), t_lo: 600, t_hi: 601, store: st.clone(), ..Default::default() },
        ));
        // 5: helper: request [d0, d1, d0] from 4
        v.push((
            Stim::Request { digests: vec![DRef::Frame(0), DRef::Frame(1), DRef::Frame(0)], origin: 4, conn: 0 },
            StepObs { frames_sent: 1, acks: 1, peer_frames: [(4u32, vec![case.frames[0].clone(), case.frames[0].clone()])].into_iter().collect(), store: st.clone(), t_lo: 602, t_hi: 603, ..Default::default() },
        ));
        // 6: stranger
        v.push((Stim::Request { digests: vec![DRef::Frame(0)], origin: 0, conn: 0 }, StepObs { frames_sent: 1, acks: 1, store: st.clone(), t_lo: 604, t_hi: 605, ..Default::default() }));
        // 7: garbage + probe
        v.push((Stim::Garbage { bytes: vec![9, 9], conn: 0 }, StepObs { frames_sent: 2, acks: 2, store: st.clone(), t_lo: 606, t_hi: 607, ..Default::default() }));
        // 8: Cleanup(2): entries of round 0 go
        v.push((Stim::Cleanup { round: 2 }, StepObs { store: st.clone(), t_lo: 608, t_hi: 609, ..Default::default() }));
        // 9: tick: nothing pending
        v.push((Stim::Timer { presleep_ms: 0 }, StepObs { store: st.clone(), t_lo: 900, t_hi: 901, ..Default::default() }));
        // 10: Synchronize([d1], 4): requested afresh
        v.push((
            Stim::Sync { digests: vec![DRef::Frame(1)], target: 4 },
            StepObs { peer_frames: [(4u32, vec![request_frame(vec![d1], 1)])].into_iter().collect(), store: st.clone(), t_lo: 902, t_hi: 903, ..Default::default() },
        ));
        v
    };
    let eval = |steps: &Vec<(Stim, StepObs)>| monitor(&case, steps).0;
    let mut out: Vec<(&'static str, &'static str, Vec<(String, String)>)> = Vec::new();
    out.push(("correct run", "", eval(&good())));
    let mut t;
    t = good();
    t[3].1.store.remove(&d0);
    t[3].1.store.insert(x, case.frames[0].clone());
    out.push(("batch stored under another key", "C11:stored-under-wrong-key", eval(&t)));
    t = good();
    t[3].1.store.insert(d0, case.frames[1].clone());
    out.push(("other bytes stored under the batch's digest", "C11:stored-under-wrong-key", eval(&t)));
    t = good();
    t[3].1.digests = vec![d1];
    out.push(("digest handed to consensus is not the hash of the frame", "C11:announced-digest-not-hash", eval(&t)));
    t = good();
    t[3].1.digests = vec![d0, d0];
    out.push(("digest handed to consensus twice", "C11:announced-digest-not-hash", eval(&t)));
    t = good();
    t[3].1.acks = 0;
    out.push(("batch frame not ACKed", "C11:frame-not-acked", eval(&t)));
    t = good();
    t[0].1.peer_frames = [(3u32, vec![request_frame(vec![d0, x], 1)])].into_iter().collect();
    out.push(("request sent to another peer than the target", "C13:request-not-to-target", eval(&t)));
    t = good();
    t[0].1.peer_frames = BTreeMap::new();
    out.push(("no request sent", "C13:request-not-to-target", eval(&t)));
    t = good();
    t[1].1.peer_frames = [(3u32, vec![request_frame(vec![d0, d1], 1)])].into_iter().collect();
    out.push(("pending digest requested again", "C13:requested-twice-while-pending", eval(&t)));
    t = good();
    t[1].1.peer_frames = [(3u32, vec![request_frame(vec![], 1)])].into_iter().collect();
    out.push(("a lacking digest is left out of the request", "C13:missing-digest-not-requested", eval(&t)));
    t = good();
    t[1].1.peer_frames = [(3u32, vec![request_frame(vec![d1, x], 1)])].into_iter().collect();
    out.push(("request lists a pending digest consensus did not name", "C13:request-for-unasked-digest", eval(&t)));
    t = good();
    t[2].1.peer_frames = [(3u32, vec![request_frame(vec![x, d0, d1], 1)]), (4u32, vec![request_frame(vec![x, d0, d1], 1)])].into_iter().collect();
    out.push(("retry lists a digest requested less than the delay ago", "C13:retry-before-delay", eval(&t)));
    t = good();
    t[2].1.peer_frames = [(3u32, vec![request_frame(vec![x], 1)]), (4u32, vec![request_frame(vec![x], 1)])].into_iter().collect();
    out.push(("retry misses an overdue digest", "C13:retry-missing", eval(&t)));
    t = good();
    t[2].1.peer_frames = BTreeMap::new();
    out.push(("no retry although digests are overdue", "C13:retry-recipients", eval(&t)));
    t = good();
    t[2].1.peer_frames = [(2u32, vec![request_frame(vec![x, d0], 1)]), (3u32, vec![request_frame(vec![x, d0], 1)]), (4u32, vec![request_frame(vec![x, d0], 1)])].into_iter().collect();
    out.push(("retry sent to more than sync_retry_nodes peers", "C13:retry-recipients", eval(&t)));
    t = good();
    t[4].1.peer_frames = [(2u32, vec![request_frame(vec![d1, x, d0], 1)]), (4u32, vec![request_frame(vec![d1, x, d0], 1)])].into_iter().collect();
    out.push(("retry for a digest that has been stored", "C13:retry-of-non-pending", eval(&t)));
    t = good();
    t[9].1.peer_frames = [(2u32, vec![request_frame(vec![x], 1)]), (3u32, vec![request_frame(vec![x], 1)])].into_iter().collect();
    out.push(("retry for a digest that was garbage-collected", "C13:retry-of-non-pending", eval(&t)));
    t = good();
    t[10].1.peer_frames = [(4u32, vec![request_frame(vec![], 1)])].into_iter().collect();
    out.push(("garbage-collected digest not requested afresh", "C13:missing-digest-not-requested", eval(&t)));
    t = good();
    t[5].1.peer_frames = [(4u32, vec![case.frames[0].clone(), case.frames[1].clone()])].into_iter().collect();
    out.push(("helper replies with other bytes than stored", "C13:helper-reply", eval(&t)));
    t = good();
    t[5].1.peer_frames = [(4u32, vec![case.frames[0].clone()])].into_iter().collect();
    out.push(("helper leaves out a stored digest", "C13:helper-reply", eval(&t)));
    t = good();
    t[5].1.peer_frames = [(2u32, vec![case.frames[0].clone(), case.frames[0].clone()])].into_iter().collect();
    out.push(("helper replies to another peer than the origin", "C13:helper-reply", eval(&t)));
    t = good();
    t[6].1.peer_frames = [(2u32, vec![case.frames[0].clone()])].into_iter().collect();
    out.push(("helper answers a stranger's request to somebody", "C13:unexpected-frame", eval(&t)));
    t = good();
    t[7].1.acks = 1;
    out.push(("no ACK for the probe after an undecodable frame", "C13:service-dead-after-garbage", eval(&t)));
    t = good();
    t[7].1.store.insert(x, vec![9, 9]);
    out.push(("undecodable frame changes the store", "C11:unexpected-store-change", eval(&t)));
    t = good();
    t[8].1.panics = vec!["boom".into()];
    out.push(("a task panics", "C13:task-panicked", eval(&t)));
    out
}

pub fn selftest(o: &Opts) -> Report {
    let mut rep = Report::new("mempoolsync-selftest", "C13", &o.tier, o.seed);
    rep.rule = "the monitors of `mempoolsync` on a synthesised correct run (must stay silent) and on single corruptions of it (each must raise the named kind)".into();
    for (what, want, got) in selftest_cases() {
        rep.evaluations += 1;
        let kinds: BTreeSet<String> = got.iter().map(|(k, _)| k.clone()).collect();
        if want.is_empty() {
            if got.is_empty() {
                rep.hit("selftest.silent-on-correct-run");
            } else {
                rep.finding("selftest", "selftest:false-alarm", format!("{}: {:?}", what, got), json!({}));
            }
        } else if kinds.contains(want) {
            rep.hit(&format!("selftest.caught.{}", want));
            rep.sample(json!({"corruption": what, "raised": got.iter().map(|(k, d)| format!("{}: {}", k, d)).collect::<Vec<_>>()}));
        } else {
            rep.finding("selftest", "selftest:missed", format!("{}: expected {}, got {:?}", what, want, got), json!({}));
        }
    }
    rep.distinct_nontrivial = rep.evaluations;
    rep
}

#[cfg(test)]
mod tests {
    #[test]
    fn monitors_catch_every_corruption() {
        for (what, want, got) in super::selftest_cases() {
            if want.is_empty() {
                assert!(got.is_empty(), "{}: {:?}", what, got);
            } else {
                assert!(got.iter().any(|(k, _)| k == want), "{}: expected {}, got {:?}", what, want, got);
            }
        }
    }
}
