//! One real `Consensus::spawn` node on simnet under paused virtual time; the harness plays every
//! peer, the mempool and the application (DESIGN §4.3, engine E3).
use crate::sym::Universe;
use bytes::Bytes;
use consensus::verif::ConsensusMessage;
use consensus::{Block, Consensus, Parameters};
use crypto::{Digest, SignatureService};
use futures::sink::SinkExt as _;
use futures::stream::StreamExt as _;
use mempool::ConsensusMempoolMessage;
use network::simnet::{TcpListener, TcpStream};
use std::sync::atomic::{AtomicBool, AtomicU64, Ordering};
use std::sync::{Arc, Mutex, OnceLock};
use std::time::Duration;
use store::Store;
use tokio::sync::mpsc::{channel, Receiver, Sender};
use tokio_util::codec::{Framed, LengthDelimitedCodec};

pub const TIMEOUT_DELAY: u64 = 50_000_000;

static PANICS: OnceLock<Mutex<Vec<String>>> = OnceLock::new();
static DB_COUNTER: AtomicU64 = AtomicU64::new(0);

pub fn panics() -> &'static Mutex<Vec<String>> {
    PANICS.get_or_init(|| Mutex::new(Vec::new()))
}

/// Record every panic (tokio catches task panics; the hook still runs) instead of printing it.
pub fn install_panic_hook() {
    std::panic::set_hook(Box::new(|info| {
        let loc = info.location().map(|l| format!("{}:{}", l.file(), l.line())).unwrap_or_default();
        let msg = if let Some(s) = info.payload().downcast_ref::<&str>() {
            s.to_string()
        } else if let Some(s) = info.payload().downcast_ref::<String>() {
            s.clone()
        } else {
            "?".to_string()
        };
        panics().lock().unwrap().push(format!("{} @ {}", msg, loc));
    }));
}

pub fn take_panics() -> Vec<String> {
    std::mem::take(&mut *panics().lock().unwrap())
}

pub async fn settle() {
    tokio::time::sleep(Duration::from_micros(1)).await;
}

pub fn fresh_db_path() -> String {
    let n = DB_COUNTER.fetch_add(1, Ordering::SeqCst);
    let p = format!("/verif/work/db_{}_{}", std::process::id(), n);
    let _ = std::fs::remove_dir_all(&p);
    p
}

pub struct World {
    pub u: Universe,
    pub node: u64,
    frames: Arc<Mutex<Vec<(u64, Vec<u8>)>>>,
    to_node: futures::stream::SplitSink<Framed<TcpStream, LengthDelimitedCodec>, Bytes>,
    pub tx_digest: Sender<Digest>,
    rx_mempool: Receiver<ConsensusMempoolMessage>,
    rx_commit: Receiver<Block>,
    pub store: Store,
    db_path: String,
    pub ack: Arc<AtomicBool>,
}

/// What the node did in reaction to one stimulus.
#[derive(Default)]
pub struct Reaction {
    pub frames: Vec<(u64, ConsensusMessage)>,
    pub undecodable: Vec<(u64, Vec<u8>)>,
    pub commits: Vec<Block>,
    pub mempool: Vec<ConsensusMempoolMessage>,
}

impl World {
    /// Boot the node `node` (an id of `u`) and the harness peers; returns after the boot reaction settled.
    pub async fn boot(u: Universe, node: u64) -> World {
        network::simnet::reset();
        let committee = u.committee();
        let frames: Arc<Mutex<Vec<(u64, Vec<u8>)>>> = Arc::new(Mutex::new(Vec::new()));
        let ack = Arc::new(AtomicBool::new(true));
        for j in 1..=u.n() as u64 {
            if j == node {
                continue;
            }
            let addr = format!("127.0.0.1:{}", u.port(j)).parse().unwrap();
            let listener = TcpListener::bind(&addr).await.expect("simnet bind");
            let frames = frames.clone();
            let ack = ack.clone();
            tokio::spawn(async move {
                loop {
                    let (socket, _) = match listener.accept().await {
                        Ok(x) => x,
                        Err(_) => return,
                    };
                    let frames = frames.clone();
                    let ack = ack.clone();
                    tokio::spawn(async move {
                        let (mut w, mut r) = Framed::new(socket, LengthDelimitedCodec::new()).split();
                        while let Some(Ok(f)) = r.next().await {
                            let bytes = f.to_vec();
                            let is_proposal = matches!(bincode::deserialize::<ConsensusMessage>(&bytes), Ok(ConsensusMessage::Propose(..)));
                            frames.lock().unwrap().push((j, bytes));
                            if is_proposal && ack.load(Ordering::SeqCst) {
                                let _ = w.send(Bytes::from("Ack")).await;
                            }
                        }
                    });
                }
            });
        }

        let db_path = fresh_db_path();
        let store = Store::new(&db_path).expect("store");
        let (tx_commit, rx_commit) = channel(10_000);
        let (tx_c2m, rx_mempool) = channel(10_000);
        let (tx_digest, rx_m2c) = channel(10_000);
        let parameters = Parameters { timeout_delay: TIMEOUT_DELAY, sync_retry_delay: 1_000_000_000_000 };
        let signature_service = SignatureService::new(u.sk(node));
        Consensus::spawn(u.pk(node), committee, parameters, signature_service, store.clone(), rx_m2c, tx_c2m, tx_commit);
        settle().await;

        let addr = format!("127.0.0.1:{}", u.port(node)).parse().unwrap();
        let stream = TcpStream::connect(addr).await.expect("connect to node");
        let (to_node, mut from_node) = Framed::new(stream, LengthDelimitedCodec::new()).split();
        tokio::spawn(async move { while let Some(Ok(_)) = from_node.next().await {} });
        settle().await;
        World { u, node, frames, to_node, tx_digest, rx_mempool, rx_commit, store, db_path, ack }
    }

    pub async fn send_raw(&mut self, bytes: Vec<u8>) {
        // a fresh connection per frame: the node's receiver drops a connection after an undecodable frame
        let addr = format!("127.0.0.1:{}", self.u.port(self.node)).parse().unwrap();
        if let Ok(stream) = TcpStream::connect(addr).await {
            let (to_node, mut from_node) = Framed::new(stream, LengthDelimitedCodec::new()).split();
            tokio::spawn(async move { while let Some(Ok(_)) = from_node.next().await {} });
            self.to_node = to_node;
        }
        let _ = self.to_node.send(Bytes::from(bytes)).await;
        settle().await;
    }

    pub async fn send(&mut self, m: &ConsensusMessage) {
        self.send_raw(bincode::serialize(m).unwrap()).await;
    }

    pub async fn fire_timer(&mut self) {
        tokio::time::advance(Duration::from_millis(TIMEOUT_DELAY)).await;
        settle().await;
    }

    pub async fn give_digest(&mut self, d: Digest) {
        let _ = self.tx_digest.send(d).await;
        settle().await;
    }

    pub async fn write_batch(&mut self, d: &Digest, bytes: Vec<u8>) {
        self.store.write(d.to_vec(), bytes).await;
        settle().await;
    }

    /// Everything observable since the last call.
    pub fn reaction(&mut self) -> Reaction {
        let mut r = Reaction::default();
        for (j, bytes) in std::mem::take(&mut *self.frames.lock().unwrap()) {
            match bincode::deserialize::<ConsensusMessage>(&bytes) {
                Ok(m) => r.frames.push((j, m)),
                Err(_) => r.undecodable.push((j, bytes)),
            }
        }
        while let Ok(b) = self.rx_commit.try_recv() {
            r.commits.push(b);
        }
        while let Ok(m) = self.rx_mempool.try_recv() {
            r.mempool.push(m);
        }
        r
    }

    /// Path of the RocksDB directory (remove it after the runtime has been dropped).
    pub fn db_path(&self) -> String {
        self.db_path.clone()
    }
}

/// A fresh current-thread runtime with a paused clock (one per scenario: dropping it kills every task).
pub fn runtime() -> tokio::runtime::Runtime {
    tokio::runtime::Builder::new_current_thread().enable_all().start_paused(true).build().unwrap()
}
