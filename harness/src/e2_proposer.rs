//! E2/proposerwait — the real `Proposer` (consensus/src/proposer.rs) with every peer played on simnet:
//! the "control system" at the end of `make_block` (C06 L12, `Model/ProposerWait.lean`).
//!
//! A case: a committee (equal or skewed stakes, possibly a zero-stake member), node 1 is the
//! proposer.  It is asked for a block (`Make`), which it broadcasts through the reliable sender; every
//! peer holds its ACK.  A second `Make` is queued.  The harness then releases the ACKs one at a time in a
//! chosen order (peers not in the list never answer — crashed).  After every release the loop-back
//! channel is observed: the SECOND block may appear only once the peers that acknowledged the FIRST
//! hold, with the node, a quorum — and must appear at exactly that release.
//!
//! Oracle independent of the model: own stake + stake of the peers that have ACKed vs `quorum_threshold()`.
//! Model: `(pw wait QUORUM OWN (STAKE ...))` = (consumed, left-through-break).
use crate::driver::Model;
use crate::report::Report;
use crate::sym::Universe;
use crate::Opts;
use bytes::Bytes;
use consensus::verif::{Proposer, ProposerMessage};
use consensus::{Block, QC};
use crypto::{Digest, SignatureService};
use futures::{FutureExt as _, SinkExt as _, StreamExt as _};
use network::simnet::{self, TcpListener, TcpStream};
use rand::rngs::SmallRng;
use rand::seq::SliceRandom;
use rand::{Rng, SeedableRng};
use serde::{Deserialize, Serialize};
use serde_json::json;
use std::collections::BTreeSet;
use std::time::Duration;
use tokio::sync::mpsc::channel;
use tokio_util::codec::{Framed, LengthDelimitedCodec};

#[derive(Clone, Debug, Serialize, Deserialize)]
pub struct Case {
    pub seed: u64,
    pub stakes: Vec<u32>,
    /// the order in which peers (>= 2) release their ACK of the first block; the others never answer
    pub acks: Vec<u64>,
}

async fn barrier() {
    for _ in 0..3 {
        tokio::time::sleep(Duration::from_micros(1)).await;
        for _ in 0..8 {
            tokio::task::yield_now().await;
        }
    }
}

struct Peer {
    id: u64,
    listener: TcpListener,
    conn: Option<Framed<TcpStream, LengthDelimitedCodec>>,
    held: usize,
}

async fn pump(peers: &mut Vec<Peer>) {
    loop {
        barrier().await;
        let mut progress = false;
        for p in peers.iter_mut() {
            while let Some(Ok((s, _))) = p.listener.accept().now_or_never() {
                p.conn = Some(Framed::new(s, LengthDelimitedCodec::new()));
                progress = true;
            }
            if let Some(f) = p.conn.as_mut() {
                while let Some(Some(Ok(_))) = f.next().now_or_never() {
                    p.held += 1;
                    progress = true;
                }
            }
        }
        if !progress {
            break;
        }
    }
}

/// blocks on the loop-back channel after: the first Make, the second Make, each release
async fn exec(case: &Case) -> (Vec<usize>, Vec<String>) {
    simnet::reset();
    let u = Universe::new(case.seed, case.stakes.clone(), 9600);
    let n = case.stakes.len() as u64;
    let mut errors = Vec::new();
    let mut peers: Vec<Peer> = Vec::new();
    for j in 2..=n {
        let addr = format!("127.0.0.1:{}", u.port(j)).parse().unwrap();
        peers.push(Peer { id: j, listener: TcpListener::bind(&addr).await.expect("simnet bind"), conn: None, held: 0 });
    }
    let (_tx_mempool, rx_mempool) = channel::<Digest>(100);
    let (tx_message, rx_message) = channel::<ProposerMessage>(100);
    let (tx_loopback, mut rx_loopback) = channel::<Block>(100);
    Proposer::spawn(u.pk(1), u.committee(), SignatureService::new(u.sk(1)), rx_mempool, rx_message, tx_loopback);
    let mut seen = 0usize;
    let mut obs = Vec::new();
    let _ = tx_message.send(ProposerMessage::Make(1, QC::genesis(), None)).await;
    pump(&mut peers).await;
    while rx_loopback.try_recv().is_ok() {
        seen += 1;
    }
    obs.push(seen);
    for p in &peers {
        if p.held != 1 {
            errors.push(format!("peer {} holds {} frames after the first block (expected 1)", p.id, p.held));
        }
    }
    let _ = tx_message.send(ProposerMessage::Make(2, QC::genesis(), None)).await;
    pump(&mut peers).await;
    while rx_loopback.try_recv().is_ok() {
        seen += 1;
    }
    obs.push(seen);
    for who in &case.acks {
        if let Some(p) = peers.iter_mut().find(|p| p.id == *who) {
            if let Some(f) = p.conn.as_mut() {
                let _ = f.send(Bytes::from("Ack")).await;
            }
        }
        pump(&mut peers).await;
        while rx_loopback.try_recv().is_ok() {
            seen += 1;
        }
        obs.push(seen);
    }
    (obs, errors)
}

fn run_case(rep: &mut Report, model: &mut Model, case: &Case, distinct: &mut BTreeSet<String>) {
    let rt = tokio::runtime::Builder::new_current_thread().enable_all().start_paused(true).build().unwrap();
    let (obs, errors) = rt.block_on(exec(case));
    drop(rt);
    rep.evaluations += 1;
    let replay = json!({"engine": "proposerwait", "case": case});
    for e in errors {
        rep.finding("impl_vs_property", "C06:proposer-broadcast", e, replay.clone());
    }
    let u = Universe::new(case.seed, case.stakes.clone(), 9600);
    let quorum = u.quorum();
    let own = u.stake(1);
    if obs.first() != Some(&1) {
        rep.finding("impl_vs_property", "C06:proposer-first-block", format!("{} blocks on the loop-back channel after the first Make (expected 1)", obs.first().cloned().unwrap_or(0)), replay.clone());
        return;
    }
    // oracle: the release at which own + acked stake first reaches the quorum (1-based), if any
    let mut total = own;
    let mut expect_at: Option<usize> = None;
    for (i, who) in case.acks.iter().enumerate() {
        total += u.stake(*who);
        if total >= quorum && expect_at.is_none() {
            expect_at = Some(i + 1);
        }
    }
    // observed: obs[1] = after the second Make (must still be 1), obs[1 + k] = after release k
    let mut got_at: Option<usize> = None;
    for k in 0..=case.acks.len() {
        let seen = obs[1 + k];
        if seen >= 2 && got_at.is_none() {
            got_at = Some(k);
        }
        if seen > 2 {
            rep.finding("impl_vs_property", "C06:proposer-extra-block", format!("{} blocks after release {}", seen, k), replay.clone());
        }
    }
    match (got_at, expect_at) {
        (Some(g), Some(e)) if g == e => rep.hit("outcome.resumed-at-quorum"),
        (None, None) => rep.hit("outcome.still-waiting"),
        (Some(g), e) if e.map_or(true, |e| g < e) => rep.finding(
            "impl_vs_property",
            "C06:proposer-resumed-early",
            format!("stakes {:?}, ACK order {:?}: the second block appeared after release {} (0 = before any), but own stake + acknowledged stake reaches the quorum {} only at release {:?}", case.stakes, case.acks, g, quorum, e),
            replay.clone(),
        ),
        (g, e) => rep.finding(
            "impl_vs_property",
            "C06:proposer-stuck",
            format!("stakes {:?}, ACK order {:?}: own stake + acknowledged stake reaches the quorum {} at release {:?}, but the second block appeared at release {:?}", case.stakes, case.acks, quorum, e, g),
            replay.clone(),
        ),
    }
    // the model
    let stakes: Vec<String> = case.acks.iter().map(|w| u.stake(*w).to_string()).collect();
    let ans = model.ask(&format!("(pw wait {} {} ({}))", quorum, own, stakes.join(" ")));
    let want = match got_at {
        Some(g) if g >= 1 => format!("(wait {} 1)", g),
        Some(_) => "(resumed-before-any-ack)".to_string(),
        None => format!("(wait {} 0)", case.acks.len()),
    };
    if ans != want {
        rep.finding("impl_vs_model", "C06:proposer-wait-model", format!("stakes {:?}, ACK order {:?}: real {} model {}", case.stakes, case.acks, want, ans), replay.clone());
    }
    if case.acks.len() >= 2 && got_at.is_some() {
        distinct.insert(serde_json::to_string(case).unwrap());
    }
}

fn gen_case(rng: &mut SmallRng, seed: u64) -> Case {
    let stakes: Vec<u32> = match rng.gen_range(0, 6) {
        0 | 1 => vec![1; rng.gen_range(4, 8)],
        2 => vec![2, 1, 1, 1, 1],
        3 => vec![1, 3, 2, 2, 1, 0],
        4 => vec![1, 1, 1, 1, 0],
        _ => vec![1, 5, 1, 1],
    };
    let n = stakes.len() as u64;
    let mut peers: Vec<u64> = (2..=n).collect();
    peers.shuffle(rng);
    let k = rng.gen_range(0, peers.len() + 1);
    peers.truncate(k);
    Case { seed, stakes, acks: peers }
}

pub fn run(o: &Opts) -> Report {
    crate::world::install_panic_hook();
    let mut rep = Report::new("proposerwait", &o.prop, &o.tier, o.seed);
    rep.rule = "the real Proposer with all peers on simnet: Make, Make queued, ACKs of the first block released one at a time in a random order over a random subset of the peers (the rest never answer); committees of 4-7 with equal / skewed / zero stakes; the second block must appear exactly at the release at which own + acknowledged stake reaches the quorum (oracle) and as the Lean model HS.PW.wait says; non-trivial when at least two ACKs were released and the proposer resumed; distinct by case".into();
    let mut model = Model::spawn();
    let mut distinct = BTreeSet::new();
    if let Some(file) = &o.replay {
        let v: serde_json::Value = serde_json::from_str(&std::fs::read_to_string(file).expect("replay file")).expect("replay json");
        let inner = v.get("replay").cloned().unwrap_or(v);
        let case: Case = serde_json::from_value(inner["case"].clone()).expect("replay case");
        run_case(&mut rep, &mut model, &case, &mut distinct);
        return rep;
    }
    // directed: four equal stakes, one peer crashed; a heavy peer; nobody answers
    run_case(&mut rep, &mut model, &Case { seed: o.seed, stakes: vec![1, 1, 1, 1], acks: vec![3, 2] }, &mut distinct);
    run_case(&mut rep, &mut model, &Case { seed: o.seed, stakes: vec![1, 5, 1, 1], acks: vec![3, 4, 2] }, &mut distinct);
    run_case(&mut rep, &mut model, &Case { seed: o.seed, stakes: vec![1, 1, 1, 1], acks: vec![] }, &mut distinct);
    let mut rng = SmallRng::seed_from_u64(o.seed ^ 0x9a17);
    let cases = if o.thorough() { 20_000 } else { 200 };
    for i in 0..cases {
        let case = gen_case(&mut rng, o.seed.wrapping_mul(977).wrapping_add(i));
        run_case(&mut rep, &mut model, &case, &mut distinct);
    }
    for p in crate::world::take_panics() {
        rep.finding("impl_vs_property", "C15:panic", p, json!({"engine": "proposerwait"}));
    }
    rep.distinct_nontrivial = distinct.len() as u64;
    rep
}
