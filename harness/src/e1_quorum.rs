//! E1/quorum — `Committee::{stake, quorum_threshold}` of both crates against the model (C17).
use crate::driver::Model;
use crate::report::Report;
use crate::Opts;
use crypto::PublicKey;
use rand::rngs::SmallRng;
use rand::{Rng, SeedableRng};
use serde_json::json;
use std::collections::BTreeSet;

fn key(i: u32) -> PublicKey {
    let mut k = [0u8; 32];
    k[..4].copy_from_slice(&i.to_be_bytes());
    k[31] = 7;
    PublicKey(k)
}

fn committees(stakes: &[u32]) -> (consensus::Committee, mempool::Committee) {
    let c = consensus::Committee::new(
        stakes.iter().enumerate().map(|(i, s)| (key(i as u32 + 1), *s, format!("127.0.0.1:{}", 100 + i).parse().unwrap())).collect(),
        1,
    );
    let m = mempool::Committee::new(
        stakes
            .iter()
            .enumerate()
            .map(|(i, s)| {
                (key(i as u32 + 1), *s, format!("127.0.0.1:{}", 100 + i).parse().unwrap(), format!("127.0.0.1:{}", 200 + i).parse().unwrap())
            })
            .collect(),
        1,
    );
    (c, m)
}

/// Split `total` over `n` authorities in a given style.
fn distribute(rng: &mut SmallRng, total: u32, style: u32) -> Vec<u32> {
    match style % 5 {
        0 => vec![total],
        1 => {
            // equal (remainder to the first)
            let n = rng.gen_range(1, 10u32).min(total.max(1));
            let mut v = vec![total / n; n as usize];
            v[0] += total % n;
            v
        }
        2 => {
            // single dominant + crumbs + zero-stake member
            let crumbs = rng.gen_range(0, 4u32).min(total);
            let mut v = vec![total - crumbs];
            for _ in 0..crumbs {
                v.push(1);
            }
            v.push(0);
            v
        }
        3 => {
            // random skewed split
            let n = rng.gen_range(2, 9usize);
            let mut left = total;
            let mut v = Vec::new();
            for i in 0..n {
                let s = if i + 1 == n { left } else { rng.gen_range(0, left / 2 + 1) };
                v.push(s);
                left -= s;
            }
            v
        }
        _ => {
            // zero-stake members interleaved
            let n = rng.gen_range(1, 5usize);
            let mut v = vec![0u32; 2 * n];
            let mut left = total;
            for i in 0..n {
                let s = if i + 1 == n { left } else { rng.gen_range(0, left + 1) };
                v[2 * i] = s;
                left -= s;
            }
            v
        }
    }
}

pub fn run(o: &Opts) -> Report {
    let mut rep = Report::new("quorum", "C17", &o.tier, o.seed);
    rep.rule = "totals 1..=N exhaustively plus boundary totals up to 2^31-1 and seeded random totals, each split over authorities in 5 styles (single, equal, dominant+zero-stake, skewed, interleaved zeros); a case is distinct by (total, stake vector) and non-trivial when the committee has >= 2 authorities".into();
    let mut rng = SmallRng::seed_from_u64(o.seed);
    let mut model = Model::spawn();
    let mut distinct: BTreeSet<(u32, Vec<u32>)> = BTreeSet::new();

    let upto: u32 = if o.thorough() { 20000 } else { 2048 };
    let mut totals: Vec<u32> = (1..=upto).collect();
    for k in 2..31u32 {
        for d in [-2i64, -1, 0, 1, 2] {
            let t = (1i64 << k) + d;
            if t >= 1 && t < (1i64 << 31) {
                totals.push(t as u32);
            }
        }
    }
    for m in [3u32, 1431655764, 1431655765, 1431655766, 2147483645, 2147483646, 2147483647] {
        totals.push(m);
    }
    let extra = if o.thorough() { 20000 } else { 1000 };
    for _ in 0..extra {
        totals.push(rng.gen_range(1u32, 1u32 << 31));
    }

    for (idx, total) in totals.iter().enumerate() {
        let total = *total;
        let stakes = distribute(&mut rng, total, idx as u32);
        let (c, m) = committees(&stakes);
        let qc = c.quorum_threshold();
        let qm = m.quorum_threshold();
        rep.evaluations += 1;
        rep.hit(&format!("style{}", idx % 5));
        if stakes.len() >= 2 {
            distinct.insert((total, stakes.clone()));
        }

        // --- impl vs property (monitor on the real functions)
        let n = total as u64;
        let f = (n - 1) / 3;
        let replay = json!({"engine": "quorum", "stakes": stakes, "total": total});
        if !(3 * (qc as u64) > 2 * n && (qc as u64) <= n - f) {
            rep.finding("impl_vs_property", "C17:threshold-bounds-consensus", format!("total={} q={} violates q>2n/3 and q<=n-f (f={})", n, qc, f), replay.clone());
        }
        if !(3 * (qm as u64) > 2 * n && (qm as u64) <= n - f) {
            rep.finding("impl_vs_property", "C17:threshold-bounds-mempool", format!("total={} q={} violates q>2n/3 and q<=n-f (f={})", n, qm, f), replay.clone());
        }
        if qc != qm {
            rep.finding("impl_vs_property", "C17:consensus-mempool-differ", format!("total={} consensus q={} mempool q={}", n, qc, qm), replay.clone());
        }
        let unknown = key(1_000_000);
        if c.stake(&unknown) != 0 || m.stake(&unknown) != 0 {
            rep.finding("impl_vs_property", "C17:unknown-stake-nonzero", format!("unknown authority has stake {} / {}", c.stake(&unknown), m.stake(&unknown)), replay.clone());
        }

        // --- impl vs model
        let ks: Vec<u32> = (1..=stakes.len() as u32).chain([1_000_000u32]).collect();
        let line = format!(
            "(committee-info ({}) ({}))",
            stakes.iter().enumerate().map(|(i, s)| format!("({} {})", i + 1, s)).collect::<Vec<_>>().join(" "),
            ks.iter().map(|k| k.to_string()).collect::<Vec<_>>().join(" ")
        );
        let got = model.ask(&line);
        let st_c: Vec<String> = ks.iter().map(|k| c.stake(&key(*k)).to_string()).collect();
        let st_m: Vec<String> = ks.iter().map(|k| m.stake(&key(*k)).to_string()).collect();
        let want = format!("(info {} {} {} ({}) ({}))", total, qc, qm, st_c.join(" "), st_m.join(" "));
        if got != want {
            rep.finding("impl_vs_model", "C17:committee-info", format!("model {} impl {}", got, want), replay.clone());
        }
        let got2 = model.ask(&format!("(qt {})", total));
        let want2 = format!("({} {} {} {})", qc, qm, qc, qm);
        if got2 != want2 {
            rep.finding("impl_vs_model", "C17:qt", format!("model {} impl {}", got2, want2), replay.clone());
        }
        if idx % 997 == 0 {
            rep.sample(json!({"stakes": stakes, "total": total, "quorum_consensus": qc, "quorum_mempool": qm, "model": got}));
        }
    }
    rep.distinct_nontrivial = distinct.len() as u64;
    rep.model_requests = model.requests;
    rep
}
