//! E2/ownbatch — the real `BatchMaker` wired to the real `QuorumWaiter` exactly as `Mempool::spawn`
//! wires them, with every other mempool played by the harness on simnet (C12).
//!
//! The component engines `batchmaker` and `quorumwaiter` check each task on its own; what neither
//! sees is the glue between them: `BatchMaker::seal` pairs each peer's NAME with the cancel handler
//! of the frame sent to that peer's ADDRESS, and the quorum waiter credits the stake of the name
//! when the handler resolves.  Here the batch is really broadcast, each harness peer receives its
//! frame and holds its ACK, and the harness releases the ACKs one at a time in a chosen order
//! (some peers never answer).  After every release (quiescence barrier) the output of the quorum
//! waiter is observed.
//!
//! Oracle (independent of the model): the batch comes out exactly at the release that makes
//! own stake + stake of the peers that HAVE ACKED reach `quorum_threshold()`; never earlier, never
//! twice, with the bytes that were broadcast.  Compared with the Lean model `HS.QW` driven with the
//! same committee and ACK order.
use crate::driver::Model;
use crate::report::Report;
use crate::Opts;
use bytes::Bytes;
use crypto::PublicKey;
use futures::{FutureExt as _, SinkExt as _, StreamExt as _};
use mempool::verif::{BatchMaker, QuorumWaiter, QuorumWaiterMessage};
use network::simnet::{self, TcpListener, TcpStream};
use rand::rngs::SmallRng;
use rand::seq::SliceRandom;
use rand::{Rng, SeedableRng};
use serde::{Deserialize, Serialize};
use serde_json::json;
use std::collections::BTreeSet;
use std::net::SocketAddr;
use std::time::Duration;
use tokio::sync::mpsc::channel;
use tokio_util::codec::{Framed, LengthDelimitedCodec};

#[derive(Clone, Debug, Serialize, Deserialize)]
pub struct Case {
    /// stake of authority i+1; authority 1 is the node under test
    pub stakes: Vec<u32>,
    /// per batch: the order in which peers (authority numbers >= 2) release their ACK; peers not
    /// listed never answer that batch
    pub batches: Vec<Vec<u32>>,
}

fn key(i: u32) -> PublicKey {
    let mut k = [0u8; 32];
    k[..4].copy_from_slice(&i.to_be_bytes());
    k[31] = 9;
    PublicKey(k)
}

fn mempool_addr(i: u32) -> SocketAddr {
    format!("127.0.0.1:{}", 7300 + i).parse().unwrap()
}

fn committee(stakes: &[u32]) -> mempool::Committee {
    mempool::Committee::new(
        stakes
            .iter()
            .enumerate()
            .map(|(i, s)| (key(i as u32 + 1), *s, format!("127.0.0.1:{}", 7100 + i + 1).parse().unwrap(), mempool_addr(i as u32 + 1)))
            .collect(),
        1,
    )
}

async fn barrier() {
    for _ in 0..3 {
        tokio::time::sleep(Duration::from_micros(1)).await;
        for _ in 0..8 {
            tokio::task::yield_now().await;
        }
    }
}

struct Peer {
    id: u32,
    listener: TcpListener,
    conn: Option<Framed<TcpStream, LengthDelimitedCodec>>,
    /// frames received and not yet ACKed (oldest first), with the index of the batch they belong to
    held: Vec<(usize, Vec<u8>)>,
    /// batch index to attribute the next received frame to
    next_batch: usize,
}

/// Per batch: (bytes broadcast, for each release step the batches that came out of the quorum waiter)
pub struct RealRun {
    pub threshold: u32,
    pub per_batch: Vec<(Vec<u8>, Vec<Vec<Vec<u8>>>, Vec<String>)>,
    /// per batch, per release: the batch whose frame that ACK answered (None: the peer held nothing)
    pub attribution: Vec<Vec<Option<usize>>>,
}

async fn pump(peers: &mut Vec<Peer>) {
    loop {
        barrier().await;
        let mut progress = false;
        for p in peers.iter_mut() {
            while let Some(Ok((s, _))) = p.listener.accept().now_or_never() {
                p.conn = Some(Framed::new(s, LengthDelimitedCodec::new()));
                progress = true;
            }
            if let Some(f) = p.conn.as_mut() {
                while let Some(Some(Ok(b))) = f.next().now_or_never() {
                    p.held.push((p.next_batch, b.to_vec()));
                    p.next_batch += 1;
                    progress = true;
                }
            }
        }
        if !progress {
            break;
        }
    }
}

pub async fn exec_real(case: &Case) -> RealRun {
    simnet::reset();
    let com = committee(&case.stakes);
    let me = key(1);
    let threshold = com.quorum_threshold();
    let mut peers: Vec<Peer> = Vec::new();
    for i in 2..=case.stakes.len() as u32 {
        peers.push(Peer { id: i, listener: TcpListener::bind(&mempool_addr(i)).await.expect("simnet bind"), conn: None, held: vec![], next_batch: 0 });
    }
    let (tx_transaction, rx_transaction) = channel::<Vec<u8>>(1000);
    let (tx_qw, rx_qw) = channel::<QuorumWaiterMessage>(1000);
    let (tx_out, mut rx_out) = channel::<Vec<u8>>(1000);
    // exactly the wiring of Mempool::handle_clients_transactions
    BatchMaker::spawn(/* batch_size */ 20, /* max_batch_delay */ 1_000_000, rx_transaction, tx_qw, com.broadcast_addresses(&me));
    QuorumWaiter::spawn(com.clone(), com.stake(&me), rx_qw, tx_out);

    let mut per_batch = Vec::new();
    let mut attribution: Vec<Vec<Option<usize>>> = Vec::new();
    for (bi, order) in case.batches.iter().enumerate() {
        let mut errors = Vec::new();
        // one transaction of 32 bytes >= batch_size seals a batch at once
        let mut tx = vec![1u8; 32];
        tx[1..9].copy_from_slice(&(bi as u64 + 1).to_le_bytes());
        let _ = tx_transaction.send(tx).await;
        if std::env::var("HS_TRACE").is_ok() { eprintln!("sent tx {}", bi); }
        pump(&mut peers).await;
        if std::env::var("HS_TRACE").is_ok() { eprintln!("pumped {}", bi); }
        // what was broadcast: every peer must have received exactly one new frame (attributed to this
        // batch), all equal; frames of EARLIER batches whose ACK was never released stay held in front
        let mut bytes: Option<Vec<u8>> = None;
        for p in &peers {
            let mine: Vec<&Vec<u8>> = p.held.iter().filter(|(b, _)| *b == bi).map(|(_, f)| f).collect();
            if mine.len() != 1 || p.next_batch != bi + 1 {
                errors.push(format!("peer {} received {} frames for batch {} (expected 1)", p.id, mine.len(), bi + 1));
            } else {
                if bytes.as_ref().map_or(false, |b| b != mine[0]) {
                    errors.push(format!("peer {} received different bytes than another peer", p.id));
                }
                bytes = Some(mine[0].clone());
            }
        }
        let mut acked_for: Vec<Option<usize>> = Vec::new();
        let mut steps: Vec<Vec<Vec<u8>>> = Vec::new();
        let mut now = Vec::new();
        while let Ok(b) = rx_out.try_recv() {
            now.push(b);
        }
        steps.push(now); // step 0: before any ACK
        for id in order {
            // a release ACKs the OLDEST frame the peer still holds: that may be a frame of an earlier
            // batch (a late ACK), which must not count for this one
            let mut attributed = None;
            if let Some(p) = peers.iter_mut().find(|p| p.id == *id) {
                if !p.held.is_empty() {
                    let (b, _) = p.held.remove(0);
                    attributed = Some(b);
                    if let Some(f) = p.conn.as_mut() {
                        let _ = f.send(Bytes::from("Ack")).await;
                    }
                }
            }
            barrier().await;
            let mut now = Vec::new();
            while let Ok(b) = rx_out.try_recv() {
                now.push(b);
            }
            steps.push(now);
            acked_for.push(attributed);
        }
        attribution.push(acked_for);
        per_batch.push((bytes.unwrap_or_default(), steps, errors));
    }
    RealRun { threshold, per_batch, attribution }
}

/// The Lean model of the quorum waiter on the same committee and ACK order: per batch, per step,
/// whether the batch is forwarded in that step.
fn exec_model(model: &mut Model, case: &Case, attribution: &[Vec<Option<usize>>]) -> Vec<Vec<bool>> {
    let c = case.stakes.iter().enumerate().map(|(i, s)| format!("({} {})", i + 1, s)).collect::<Vec<_>>().join(" ");
    let _ = model.ask(&format!("(qw init ({}) {})", c, case.stakes[0]));
    let mut out = Vec::new();
    for (bi, order) in case.batches.iter().enumerate() {
        let id = bi as u64 + 1;
        // handler i belongs to authority i+2 (the model does not depend on the order of the list)
        let names: Vec<String> = (2..=case.stakes.len() as u32).map(|i| i.to_string()).collect();
        let fwd = |r: &str| r.contains(&format!("(forward {} ", id));
        let mut steps = Vec::new();
        let r = model.ask(&format!("(qw batch {} ({}))", id, names.join(" ")));
        steps.push(fwd(&r));
        for (k, peer) in order.iter().enumerate() {
            // the ACK completes the handler of the batch whose frame it answers (possibly an earlier one)
            match attribution.get(bi).and_then(|a| a.get(k)).cloned().flatten() {
                Some(b) => {
                    let r = model.ask(&format!("(qw ack {} {})", b as u64 + 1, *peer - 2));
                    steps.push(fwd(&r));
                }
                None => steps.push(false),
            }
        }
        out.push(steps);
    }
    out
}

fn monitor(case: &Case, real: &RealRun) -> Vec<(String, String)> {
    let mut out = Vec::new();
    let own = case.stakes[0];
    for (bi, ((bytes, steps, errors), order)) in real.per_batch.iter().zip(case.batches.iter()).enumerate() {
        for e in errors {
            out.push(("C12:broadcast".to_string(), format!("batch {}: {}", bi + 1, e)));
        }
        let mut acked = own;
        let mut forwarded_at: Option<usize> = None;
        for (si, got) in steps.iter().enumerate() {
            if si > 0 && real.attribution.get(bi).and_then(|a| a.get(si - 1)).cloned().flatten() == Some(bi) {
                // only an ACK that answers THIS batch's frame counts for it
                acked += case.stakes[(order[si - 1] - 1) as usize];
            }
            for g in got {
                if g != bytes {
                    out.push(("C12:forwarded-other-bytes".into(), format!("batch {} step {}: the forwarded bytes differ from the broadcast bytes", bi + 1, si)));
                }
                if let Some(prev) = forwarded_at {
                    out.push(("C12:forwarded-twice".into(), format!("batch {} forwarded at step {} and again at step {}", bi + 1, prev, si)));
                }
                if acked < real.threshold {
                    out.push((
                        "C12:forwarded-below-quorum".into(),
                        format!(
                            "batch {}: handed on after ACKs from peers {:?}: own stake {} + acknowledged stake = {} < quorum threshold {} (stakes {:?})",
                            bi + 1,
                            &order[..si],
                            own,
                            acked,
                            real.threshold,
                            case.stakes
                        ),
                    ));
                }
                forwarded_at = Some(si);
            }
            if acked >= real.threshold && forwarded_at.is_none() {
                out.push((
                    "C12:not-forwarded-at-quorum".into(),
                    format!("batch {}: own + acknowledged stake reached {} >= {} at step {} but the batch was not handed on", bi + 1, acked, real.threshold, si),
                ));
                forwarded_at = Some(usize::MAX); // report once
            }
        }
    }
    out
}

fn gen_case(rng: &mut SmallRng) -> Case {
    let stakes: Vec<u32> = match rng.gen_range(0, 7) {
        0 => vec![1; rng.gen_range(4, 8)],
        1 => vec![1, 10, 1, 1],
        2 => vec![2, 1, 5, 1, 1],
        3 => vec![1, 1, 1, 7, 1, 1],
        4 => vec![3, 2, 2, 1, 1, 0],
        5 => (0..rng.gen_range(4, 8)).map(|_| rng.gen_range(1, 6)).collect(),
        _ => vec![1, 4, 3, 2, 1],
    };
    let n = stakes.len() as u32;
    let nb = rng.gen_range(1, 4);
    let total: u32 = stakes.iter().sum();
    let threshold = 2 * total / 3 + 1;
    let mut batches = Vec::new();
    let mut backlog: Vec<u32> = vec![0; n as usize + 1]; // un-ACKed frames of earlier batches per peer
    for b in 0..nb {
        let mut order: Vec<u32> = (2..=n).collect();
        order.shuffle(rng);
        if b < nb - 1 {
            // every batch but the last must complete (the quorum waiter serves batches one at a time), but
            // not everybody needs to answer it: the slow peers answer LATER, while the next batch is out
            let mut acc = stakes[0];
            let mut keep = 0;
            for (k, i) in order.iter().enumerate() {
                if backlog[*i as usize] > 0 {
                    continue; // its release would answer an older frame
                }
                acc += stakes[(*i - 1) as usize];
                keep = k + 1;
                if acc >= threshold {
                    break;
                }
            }
            if acc < threshold {
                // not completable with fresh peers only: everybody answers everything it holds
                let mut full = Vec::new();
                for i in &order {
                    for _ in 0..=backlog[*i as usize] {
                        full.push(*i);
                    }
                    backlog[*i as usize] = 0;
                }
                batches.push(full);
                continue;
            }
            let extra = rng.gen_range(0, order.len() - keep + 1);
            order.truncate(keep + extra);
        } else {
            let keep = rng.gen_range(0, order.len() + 1);
            // prefer silencing the heaviest peers: that is where a mis-credited stake shows
            if rng.gen_bool(0.6) {
                order.sort_by_key(|i| stakes[(*i - 1) as usize]);
            }
            order.truncate(keep);
            order.shuffle(rng);
            // some of the peers with an old frame answer twice (old frame, then this one)
            let twice: Vec<u32> = order.iter().cloned().filter(|i| backlog[*i as usize] > 0 && rng.gen_bool(0.4)).collect();
            order.extend(twice);
        }
        for i in 2..=n {
            let released = order.iter().filter(|x| **x == i).count() as u32;
            backlog[i as usize] = (backlog[i as usize] + 1).saturating_sub(released);
        }
        batches.push(order);
    }
    Case { stakes, batches }
}

fn run_case(model: Option<&mut Model>, rep: &mut Report, case: &Case, distinct: &mut BTreeSet<String>) {
    // a fresh runtime per case: the tasks of the previous case (senders that keep reconnecting) must not leak into this one
    let rt = tokio::runtime::Builder::new_current_thread().enable_all().start_paused(true).build().unwrap();
    let real = rt.block_on(exec_real(case));
    drop(rt);
    rep.evaluations += 1;
    let replay = json!({"engine": "ownbatch", "case": case});
    for (k, d) in monitor(case, &real) {
        rep.finding("impl_vs_property", &k, d, replay.clone());
    }
    rep.hit(&format!("stakes.{}", if case.stakes.iter().all(|s| *s == case.stakes[0]) { "equal" } else { "skewed" }));
    for ((_, steps, _), order) in real.per_batch.iter().zip(case.batches.iter()) {
        let fwd = steps.iter().any(|s| !s.is_empty());
        rep.hit(if fwd { "batch.forwarded" } else { "batch.starved" });
        rep.hit(&format!("acks_released.{}", order.len().min(7)));
    }
    for (bi, a) in real.attribution.iter().enumerate() {
        for x in a {
            match x {
                Some(b) if *b != bi => rep.hit("ack.late-for-earlier-batch"),
                Some(_) => rep.hit("ack.for-this-batch"),
                None => rep.hit("ack.nothing-held"),
            }
        }
    }
    if case.batches.iter().map(|b| b.len()).sum::<usize>() >= 2 {
        distinct.insert(serde_json::to_string(case).unwrap());
    }
    if let Some(model) = model {
        let m = exec_model(model, case, &real.attribution);
        let r: Vec<Vec<bool>> = real.per_batch.iter().map(|(_, steps, _)| steps.iter().map(|s| !s.is_empty()).collect()).collect();
        if m != r {
            rep.finding("impl_vs_model", "C12:ownbatch-trace", format!("forwarding steps: model {:?} impl {:?}", m, r), replay.clone());
        }
        if rep.evaluations % 41 == 1 {
            rep.sample(json!({"stakes": case.stakes, "batches": case.batches, "forwarded_steps": r}));
        }
    }
}

pub fn run(o: &Opts) -> Report {
    crate::world::install_panic_hook();
    let mut rep = Report::new("ownbatch", "C12", &o.tier, o.seed);
    rep.rule = "real BatchMaker -> real QuorumWaiter wired as in Mempool::spawn, committee of 4-7 with equal/skewed/dominant/zero stakes, every other mempool played on simnet: each receives the broadcast batch and the harness releases the ACKs one at a time in a random order, some peers (preferably the heaviest) never answering; the quorum waiter's output is observed after every release; distinct by (stakes, release orders); non-trivial when at least two ACKs are released".into();
    let mut distinct = BTreeSet::new();
    if let Some(file) = &o.replay {
        let v: serde_json::Value = serde_json::from_str(&std::fs::read_to_string(file).expect("replay file")).expect("replay json");
        let case: Case = serde_json::from_value(v["case"].clone()).expect("replay case");
        run_case(None, &mut rep, &case, &mut distinct);
        return rep;
    }
    let mut model = Model::spawn();
    let mut rng = SmallRng::seed_from_u64(o.seed);
    // directed: a heavy silent peer and light ACKs (the shape where a mis-paired name shows)
    for silent in 2..=4u32 {
        let mut stakes = vec![1u32, 1, 1, 1];
        stakes[(silent - 1) as usize] = 10;
        for rot in 0..2 {
            let mut order: Vec<u32> = (2..=4).filter(|i| *i != silent).collect();
            order.rotate_left(rot);
            run_case(Some(&mut model), &mut rep, &Case { stakes: stakes.clone(), batches: vec![order] }, &mut distinct);
        }
    }
    let cases = if o.thorough() { 4000 } else { 250 };
    for _ in 0..cases {
        let case = gen_case(&mut rng);
        run_case(Some(&mut model), &mut rep, &case, &mut distinct);
    }
    rep.distinct_nontrivial = distinct.len() as u64;
    rep.model_requests = model.requests;
    rep
}
