//! Correspondence / search engines for the Lean model of asonnino/hotstuff.
//! usage: hsverif <engine> --prop Cxx --tier quick|thorough --seed N --out report.json [--replay file]
#[path = "/repo/node/src/config.rs"]
mod config;
#[path = "/repo/node/src/node.rs"]
mod node;
mod driver;
mod report;
mod e1_codec;
mod e1_quorum;
mod e1_timer;
mod e1_unit;
mod e2_batchmaker;
mod e2_mempoolsync;
mod e2_syncretry;
mod e2_proposer;
mod e2_ownbatch;
mod e2_quorumwaiter;
mod e2_sender;
mod e2_store;
mod e3_cons;
mod e4_fuzz;
mod e4_netsim;
mod monitor;
mod sexp;
mod sym;
mod world;

pub struct Opts {
    pub engine: String,
    pub prop: String,
    pub tier: String,
    pub seed: u64,
    pub out: String,
    pub replay: Option<String>,
}

impl Opts {
    pub fn thorough(&self) -> bool {
        self.tier == "thorough"
    }
}

/// Debugging aid: `HS_LOG=1` prints the node crates' `log` output to stderr.
struct StderrLog;
impl log::Log for StderrLog {
    fn enabled(&self, _: &log::Metadata) -> bool {
        true
    }
    fn log(&self, r: &log::Record) {
        eprintln!("[{}] {}: {}", r.level(), r.target(), r.args());
    }
    fn flush(&self) {}
}

fn main() {
    if std::env::var("HS_LOG").is_ok() {
        static LOGGER: StderrLog = StderrLog;
        let _ = log::set_logger(&LOGGER);
        log::set_max_level(log::LevelFilter::Debug);
    }
    let args: Vec<String> = std::env::args().collect();
    if args.len() < 2 {
        eprintln!("usage: hsverif <engine> [--prop C] [--tier T] [--seed N] [--out F] [--replay F]");
        std::process::exit(2);
    }
    let mut o = Opts {
        engine: args[1].clone(),
        prop: String::new(),
        tier: "quick".into(),
        seed: 1,
        out: "/verif/work/report.json".into(),
        replay: None,
    };
    let mut i = 2;
    while i + 1 < args.len() {
        match args[i].as_str() {
            "--prop" => o.prop = args[i + 1].clone(),
            "--tier" => o.tier = args[i + 1].clone(),
            "--seed" => o.seed = args[i + 1].parse().unwrap_or(1),
            "--out" => o.out = args[i + 1].clone(),
            "--replay" => o.replay = Some(args[i + 1].clone()),
            x => {
                eprintln!("unknown option {}", x);
                std::process::exit(2);
            }
        }
        i += 2;
    }
    // the unit-level engines are deterministic in (seed, tier): their replay is the recorded seed
    if let Some(p) = o.replay.clone() {
        if matches!(o.engine.as_str(), "quorum" | "verify" | "leader" | "aggregator") {
            if let Ok(txt) = std::fs::read_to_string(&p) {
                if let Ok(v) = serde_json::from_str::<serde_json::Value>(&txt) {
                    let inner = v.get("replay").cloned().unwrap_or(v);
                    if let Some(s) = inner["seed"].as_u64() {
                        o.seed = s;
                    }
                }
            }
            o.replay = None;
        }
    }
    let report = match o.engine.as_str() {
        "quorum" => e1_quorum::run(&o),
        "verify" => e1_unit::run_verify(&o),
        "leader" => e1_unit::run_leader(&o),
        "aggregator" => e1_unit::run_aggregator(&o),
        "codec" => e1_codec::run(&o),
        "store" => e2_store::run(&o),
        "batchmaker" => e2_batchmaker::run(&o),
        "sender" => e2_sender::run(&o),
        "ownbatch" => e2_ownbatch::run(&o),
        "mempoolsync" => e2_mempoolsync::run(&o),
        "syncretry" => e2_syncretry::run(&o),
        "timer" => e1_timer::run(&o),
        "proposerwait" => e2_proposer::run(&o),
        "mempoolsync-selftest" => e2_mempoolsync::selftest(&o),
        "quorumwaiter" => e2_quorumwaiter::run(&o),
        "cons" => e3_cons::run(&o),
        "netsim" => e4_netsim::run(&o),
        "fuzz" => e4_fuzz::run(&o),
        x => {
            eprintln!("unknown engine {}", x);
            std::process::exit(2);
        }
    };
    report.write(&o.out);
    println!(
        "engine={} evaluations={} findings={}",
        report.engine,
        report.evaluations,
        report.findings.len()
    );
}
