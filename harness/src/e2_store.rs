//! E2/store — the real `store::Store` (RocksDB actor) against the Lean model `HS.Store` (C16).
//!
//! A case is a list of ops issued from several cloned handles.  Ops between two barriers form a
//! *burst*: they are enqueued on the store's channel in exactly the listed order without letting the
//! actor run (`write` completes at once while the channel has capacity; `read`/`notify_read` are
//! polled once, which enqueues the command and parks on the oneshot), then the quiescence barrier
//! lets the actor drain them.  After each barrier every outstanding future is polled again: a read
//! must be answered, a waiter is either woken (value recorded with the burst index) or still parked.
//! With bursts of one op the wake-up *step* is observed exactly.
//!
//! `reopen`: all pending waiter futures and all handles are dropped, barrier (the actor leaves its
//! loop and closes RocksDB), then `Store::new` on the same path.
//!
//! `cancel w`: the pending future of waiter `w` is dropped by its owner (as `select!` does with a
//! losing branch in the synchronizers).  The store actor never learns of it: the model is not told
//! either, and what the model sends to a cancelled waiter is removed from the expected wakes.
//!
//! Compared with the model per burst: the read replies in order and the set of (waiter, value)
//! woken.  Monitor, independent of the model: a reference map replayed over the same op list.
use crate::driver::Model;
use crate::report::Report;
use crate::Opts;
use rand::rngs::SmallRng;
use rand::{Rng, SeedableRng};
use serde::{Deserialize, Serialize};
use serde_json::json;
use std::collections::{BTreeMap, BTreeSet, HashMap};
use std::future::Future;
use std::pin::Pin;
use std::time::Duration;
use store::Store;

#[derive(Clone, Debug, Serialize, Deserialize, PartialEq)]
#[serde(tag = "op", rename_all = "lowercase")]
pub enum Op {
    Write { h: usize, k: String, v: String },
    Read { h: usize, k: String },
    Notify { h: usize, k: String, w: u64 },
    /// the owner of pending waiter `w` drops its `notify_read` future (a lost `select!` branch, a
    /// timeout); the actor is not told and its `send` to that waiter fails silently
    Cancel { w: u64 },
    Reopen,
    Barrier,
}

fn hex(b: &[u8]) -> String {
    b.iter().map(|x| format!("{:02x}", x)).collect()
}
fn unhex(s: &str) -> Vec<u8> {
    (0..s.len() / 2).map(|i| u8::from_str_radix(&s[2 * i..2 * i + 2], 16).unwrap_or(0)).collect()
}

/// What one burst produced.
#[derive(Clone, Debug, Default, PartialEq)]
pub struct Burst {
    /// replies to the reads of this burst, in issue order (hex or "none")
    pub reads: Vec<String>,
    /// waiters woken during this burst: waiter id -> value (hex)
    pub wakes: BTreeMap<u64, String>,
    /// errors: unanswered reads, store errors, reopen failures
    pub errors: Vec<String>,
}

type BoxFut<T> = Pin<Box<dyn Future<Output = T>>>;

const HANDLES: usize = 4;

fn work_dir() -> String {
    std::env::var("VERIF_WORK").unwrap_or_else(|_| "/verif/work".to_string())
}

async fn barrier() {
    tokio::time::sleep(Duration::from_micros(1)).await;
}

/// Execute the op list on the real store; one `Burst` per barrier (explicit, before/after reopen, final).
pub async fn exec_real(path: &str, ops: &[Op]) -> Vec<Burst> {
    let _ = std::fs::remove_dir_all(path);
    let mut bursts = Vec::new();
    let mut cur = Burst::default();
    let base = match Store::new(path) {
        Ok(s) => s,
        Err(e) => {
            cur.errors.push(format!("open failed: {}", e));
            bursts.push(cur);
            return bursts;
        }
    };
    let mut handles: Vec<Store> = (0..HANDLES).map(|_| base.clone()).collect();
    drop(base);
    let mut reads: Vec<BoxFut<Result<Option<Vec<u8>>, store::StoreError>>> = Vec::new();
    let mut waiters: Vec<(u64, BoxFut<Result<Vec<u8>, String>>)> = Vec::new();

    macro_rules! settle {
        () => {{
            barrier().await;
            for mut f in reads.drain(..) {
                match futures::poll!(f.as_mut()) {
                    std::task::Poll::Ready(Ok(None)) => cur.reads.push("none".into()),
                    std::task::Poll::Ready(Ok(Some(v))) => cur.reads.push(hex(&v)),
                    std::task::Poll::Ready(Err(e)) => {
                        cur.reads.push("error".into());
                        cur.errors.push(format!("read error {}", e))
                    }
                    std::task::Poll::Pending => {
                        cur.reads.push("unanswered".into());
                        cur.errors.push("read not answered at quiescence".into())
                    }
                }
            }
            let mut still = Vec::new();
            for (w, mut f) in waiters.drain(..) {
                match futures::poll!(f.as_mut()) {
                    std::task::Poll::Ready(Ok(v)) => {
                        cur.wakes.insert(w, hex(&v));
                    }
                    std::task::Poll::Ready(Err(e)) => cur.errors.push(format!("notify_read of waiter {} failed: {}", w, e)),
                    std::task::Poll::Pending => still.push((w, f)),
                }
            }
            waiters = still;
            bursts.push(std::mem::take(&mut cur));
        }};
    }

    for op in ops {
        match op {
            Op::Write { h, k, v } => handles[*h % HANDLES].write(unhex(k), unhex(v)).await,
            Op::Read { h, k } => {
                let mut s = handles[*h % HANDLES].clone();
                let key = unhex(k);
                let mut f: BoxFut<_> = Box::pin(async move { s.read(key).await });
                if let std::task::Poll::Ready(_) = futures::poll!(f.as_mut()) {
                    cur.errors.push("read answered before the actor ran".into());
                } else {
                    reads.push(f);
                }
            }
            Op::Notify { h, k, w } => {
                let mut s = handles[*h % HANDLES].clone();
                let key = unhex(k);
                // `notify_read` `expect`s its oneshot: a dropped sender panics inside the caller's future
                let mut f: BoxFut<_> = Box::pin(async move {
                    match futures::FutureExt::catch_unwind(std::panic::AssertUnwindSafe(s.notify_read(key))).await {
                        Ok(r) => r.map_err(|e| e.to_string()),
                        Err(p) => {
                            let msg = p.downcast_ref::<String>().cloned().or_else(|| p.downcast_ref::<&str>().map(|x| x.to_string())).unwrap_or_default();
                            Err(format!("the caller's notify_read panicked: {}", msg))
                        }
                    }
                });
                if let std::task::Poll::Ready(_) = futures::poll!(f.as_mut()) {
                    cur.errors.push("notify_read answered before the actor ran".into());
                } else {
                    waiters.push((*w, f));
                }
            }
            Op::Cancel { w } => waiters.retain(|(id, _)| id != w),
            Op::Barrier => settle!(),
            Op::Reopen => {
                settle!();
                // the owners give up their pending notify_reads, every handle goes away
                waiters.clear();
                handles.clear();
                barrier().await;
                match Store::new(path) {
                    Ok(s) => handles = (0..HANDLES).map(|_| s.clone()).collect(),
                    Err(e) => {
                        cur.errors.push(format!("reopen failed: {}", e));
                        bursts.push(std::mem::take(&mut cur));
                        return bursts;
                    }
                }
            }
        }
    }
    settle!();
    drop(waiters);
    drop(handles);
    barrier().await;
    let _ = std::fs::remove_dir_all(path);
    bursts
}

/// The same op list on the Lean model; same burst structure.
fn exec_model(model: &mut Model, ops: &[Op]) -> Vec<Burst> {
    let mut bursts = Vec::new();
    let mut cur = Burst::default();
    let r = model.ask("(store reset)");
    if r != "(ok)" {
        cur.errors.push(format!("model reset: {}", r));
    }
    fn absorb(cur: &mut Burst, reply: &str) {
        // (replies (read none) | (read xHEX) | (notified W xHEX) ...)
        let inner = reply.trim();
        if !inner.starts_with("(replies") {
            cur.errors.push(format!("model said {}", reply));
            return;
        }
        let body = &inner["(replies".len()..inner.len() - 1];
        for item in body.split('(').skip(1) {
            let item = item.trim().trim_end_matches(')');
            let parts: Vec<&str> = item.split_whitespace().collect();
            match parts.as_slice() {
                ["read", "none"] => cur.reads.push("none".into()),
                ["read", v] => cur.reads.push(v[1..].to_string()),
                ["notified", w, v] => {
                    if cur.wakes.insert(w.parse().unwrap_or(u64::MAX), v[1..].to_string()).is_some() {
                        cur.errors.push(format!("model woke waiter {} twice in one burst", w));
                    }
                }
                _ => cur.errors.push(format!("model reply item {:?}", item)),
            }
        }
    }
    // waiters whose owner went away while they were still pending: nobody observes what they are sent
    let mut cancelled: BTreeSet<u64> = BTreeSet::new();
    let mut answered: BTreeSet<u64> = BTreeSet::new();
    macro_rules! close {
        () => {{
            for w in &cancelled {
                cur.wakes.remove(w);
            }
            answered.extend(cur.wakes.keys().cloned());
            bursts.push(std::mem::take(&mut cur));
        }};
    }
    for op in ops {
        match op {
            Op::Write { k, v, .. } => absorb(&mut cur, &model.ask(&format!("(store write x{} x{})", k, v))),
            Op::Read { k, .. } => absorb(&mut cur, &model.ask(&format!("(store read x{})", k))),
            Op::Notify { k, w, .. } => absorb(&mut cur, &model.ask(&format!("(store notify x{} {})", k, w))),
            Op::Cancel { w } => {
                if !answered.contains(w) {
                    cancelled.insert(*w);
                }
            }
            Op::Barrier => close!(),
            Op::Reopen => {
                close!();
                absorb(&mut cur, &model.ask("(store reopen)"));
            }
        }
    }
    close!();
    bursts
}

/// Reference map (independent of the Lean model): what C16 requires of this op list.
fn exec_reference(ops: &[Op]) -> Vec<Burst> {
    let mut bursts = Vec::new();
    let mut cur = Burst::default();
    let mut map: HashMap<String, String> = HashMap::new();
    let mut parked: Vec<(u64, String)> = Vec::new();
    let mut answered: BTreeSet<u64> = BTreeSet::new();
    let mut cancelled: BTreeSet<u64> = BTreeSet::new();
    for op in ops {
        match op {
            Op::Write { k, v, .. } => {
                map.insert(k.clone(), v.clone());
                parked.retain(|(w, pk)| {
                    if pk == k {
                        cur.wakes.insert(*w, v.clone());
                        false
                    } else {
                        true
                    }
                });
            }
            Op::Read { k, .. } => cur.reads.push(map.get(k).cloned().unwrap_or_else(|| "none".into())),
            Op::Notify { k, w, .. } => match map.get(k) {
                Some(v) => {
                    cur.wakes.insert(*w, v.clone());
                }
                None => parked.push((*w, k.clone())),
            },
            Op::Cancel { w } => {
                // only a waiter that has not been observed answered (at a barrier) can still be abandoned
                if !answered.contains(w) {
                    parked.retain(|(pw, _)| pw != w);
                    cur.wakes.remove(w);
                    cancelled.insert(*w);
                }
            }
            Op::Barrier => {
                answered.extend(cur.wakes.keys().cloned());
                bursts.push(std::mem::take(&mut cur))
            }
            Op::Reopen => {
                answered.extend(cur.wakes.keys().cloned());
                bursts.push(std::mem::take(&mut cur));
                parked.clear();
            }
        }
    }
    let _ = &cancelled;
    bursts.push(cur);
    bursts
}

/// Property monitor on the real outputs.  Returns (kind, detail) per violation.
fn monitor(ops: &[Op], real: &[Burst]) -> Vec<(String, String)> {
    let want = exec_reference(ops);
    let mut out = Vec::new();
    for (i, b) in real.iter().enumerate() {
        for e in &b.errors {
            let kind = if e.contains("reopen failed") || e.contains("open failed") { "C16:reopen-failed" } else { "C16:store-error" };
            out.push((kind.to_string(), format!("burst {}: {}", i, e)));
        }
    }
    if real.len() != want.len() {
        out.push(("C16:store-error".into(), format!("{} bursts observed, {} expected", real.len(), want.len())));
        return out;
    }
    let mut woken_at: HashMap<u64, usize> = HashMap::new();
    for (i, (r, w)) in real.iter().zip(want.iter()).enumerate() {
        for (j, (a, b)) in r.reads.iter().zip(w.reads.iter()).enumerate() {
            if a != b {
                let kind = if b == "none" { "C16:read-invented-value" } else if a == "none" { "C16:read-lost-write" } else { "C16:read-stale" };
                out.push((kind.into(), format!("burst {} read #{}: store returned {} but the last write to the key is {}", i, j, a, b)));
            }
        }
        for (wid, v) in &r.wakes {
            if let Some(prev) = woken_at.insert(*wid, i) {
                out.push(("C16:notify-twice".into(), format!("waiter {} answered in burst {} and again in burst {}", wid, prev, i)));
            }
            match w.wakes.get(wid) {
                Some(wv) if wv == v => {}
                Some(wv) => out.push(("C16:notify-wrong-value".into(), format!("burst {}: waiter {} got {} but the write that must wake it wrote {}", i, wid, v, wv))),
                None => out.push(("C16:notify-spurious".into(), format!("burst {}: waiter {} answered with {} although no value existed / no write to its key happened in this burst", i, wid, v))),
            }
        }
        for (wid, wv) in &w.wakes {
            if !r.wakes.contains_key(wid) {
                out.push(("C16:notify-missed".into(), format!("burst {}: waiter {} must be answered with {} in this burst and was not", i, wid, wv)));
            }
        }
    }
    out
}

// ------------------------------------------------------------------ concurrent callers under backlog

/// Issue order between CALLERS (C16: "writes to one key take effect in issue order", "a read
/// returns the most recently written value"): a second handle, driven by its own task, issues its
/// command only after `write(k, first)` of the first handle has RETURNED, while the store has a
/// backlog of `fill` commands it has not looked at yet (the command channel holds 100).  Whatever the
/// backlog, the second command must take effect after the first.
async fn exec_backlog(path: &str, fill: usize, second_is_read: bool) -> Vec<(String, String)> {
    use std::sync::atomic::{AtomicBool, Ordering};
    let _ = std::fs::remove_dir_all(path);
    let mut out = Vec::new();
    let mut store = match Store::new(path) {
        Ok(s) => s,
        Err(e) => return vec![("C16:store-error".into(), format!("open failed: {}", e))],
    };
    let key = vec![7u8; 32];
    let issued = std::sync::Arc::new(AtomicBool::new(false));
    let second = {
        let mut st = store.clone();
        let key = key.clone();
        let issued = issued.clone();
        tokio::spawn(async move {
            while !issued.load(Ordering::SeqCst) {
                tokio::task::yield_now().await;
            }
            if second_is_read {
                st.read(key).await.ok().flatten()
            } else {
                st.write(key, b"second".to_vec()).await;
                None
            }
        })
    };
    // the store task does not run before this task yields
    for i in 0..fill {
        let mut other = vec![0u8; 32];
        other[0] = 1;
        other[1] = (i % 256) as u8;
        other[2] = (i / 256) as u8;
        store.write(other, vec![i as u8]).await;
    }
    store.write(key.clone(), b"first".to_vec()).await;
    issued.store(true, Ordering::SeqCst);
    let got = second.await.ok().flatten();
    if second_is_read {
        if got.as_deref() != Some(&b"first"[..]) {
            out.push(("C16:read-lost-write".into(), format!("backlog of {} commands: a read issued by another handle after write(k, first) had returned saw {:?}", fill, got.map(|v| String::from_utf8_lossy(&v).to_string()))));
        }
    } else {
        let fin = store.read(key.clone()).await.ok().flatten();
        if fin.as_deref() != Some(&b"second"[..]) {
            out.push(("C16:write-order".into(), format!("backlog of {} commands: write(k, second) was issued by another handle after write(k, first) had returned, but the key reads {:?}", fill, fin.map(|v| String::from_utf8_lossy(&v).to_string()))));
        }
    }
    drop(store);
    barrier().await;
    let _ = std::fs::remove_dir_all(path);
    out
}

// ------------------------------------------------------------------ generators

fn key_pool(rng: &mut SmallRng) -> Vec<String> {
    // overlapping key space: the empty key, prefixes of each other, digest-sized keys, short random keys
    let mut ks = vec![String::new(), "00".into(), "0000".into(), "01".into(), "ff".into(), hex(&[7u8; 32]), hex(&[7u8; 31])];
    let mut long = vec![0u8; 32];
    for b in long.iter_mut() {
        *b = rng.gen();
    }
    ks.push(hex(&long));
    while ks.len() < 40 {
        let n = rng.gen_range(1, 4);
        let k = hex(&(0..n).map(|_| rng.gen_range(0u8, 3)).collect::<Vec<_>>());
        if !ks.contains(&k) {
            ks.push(k);
        }
    }
    ks
}

fn active_keys(rng: &mut SmallRng, pool: &[String]) -> Vec<String> {
    let n = rng.gen_range(1, 6);
    (0..n).map(|_| pool[rng.gen_range(0, pool.len())].clone()).collect()
}

fn value(rng: &mut SmallRng) -> String {
    let n = match rng.gen_range(0, 10) {
        0 => 0,
        1 => 1,
        2 => 300,
        _ => rng.gen_range(1, 12),
    };
    hex(&(0..n).map(|_| rng.gen::<u8>()).collect::<Vec<_>>())
}

fn gen_random(rng: &mut SmallRng, len: usize) -> Vec<Op> {
    let pool = key_pool(rng);
    let mut keys = active_keys(rng, &pool);
    let single_step = rng.gen_range(0, 2) == 0;
    let max_burst = if single_step { 1 } else { rng.gen_range(2, 25) };
    let reopens = rng.gen_range(0, 3); // expected number of reopens in this case
    let notify_bias = rng.gen_range(2, 7);
    let cancels = rng.gen_range(0, 2) == 0;
    let mut ops = Vec::new();
    let mut w = 0u64;
    let mut in_burst = 0;
    for i in 0..len {
        if i % 24 == 23 {
            keys = active_keys(rng, &pool); // next phase: mostly fresh keys, so waiters park again
        }
        let k = keys[rng.gen_range(0, keys.len())].clone();
        let h = rng.gen_range(0, HANDLES);
        if reopens > 0 && rng.gen_range(0, len) < reopens {
            ops.push(Op::Reopen);
            in_burst = 0;
            continue;
        }
        if cancels && w > 0 && rng.gen_range(0, 8) == 0 {
            ops.push(Op::Cancel { w: rng.gen_range(w.saturating_sub(6), w) + 1 });
            continue;
        }
        match rng.gen_range(0, 12) {
            0..=2 => ops.push(Op::Write { h, k, v: value(rng) }),
            3..=4 => ops.push(Op::Read { h, k }),
            x if x < 5 + notify_bias => {
                w += 1;
                ops.push(Op::Notify { h, k, w })
            }
            _ => ops.push(Op::Read { h, k }),
        }
        in_burst += 1;
        if in_burst >= max_burst || rng.gen_range(0, max_burst) == 0 {
            ops.push(Op::Barrier);
            in_burst = 0;
        }
    }
    ops
}

/// Directed scenarios: n waiters (0..=8) on a key from several handles, other keys in between.
fn gen_directed(n_waiters: usize, variant: usize) -> Vec<Op> {
    let k = "00".to_string();
    let other = "0000".to_string();
    let step = variant % 2 == 0; // barrier after every op, or one big burst
    let mut ops = Vec::new();
    let mut push = |ops: &mut Vec<Op>, op: Op| {
        ops.push(op);
        if step {
            ops.push(Op::Barrier);
        }
    };
    push(&mut ops, Op::Read { h: 0, k: k.clone() });
    for i in 0..n_waiters {
        push(&mut ops, Op::Notify { h: i % HANDLES, k: k.clone(), w: i as u64 + 1 });
        if i % 3 == 1 {
            push(&mut ops, Op::Notify { h: (i + 1) % HANDLES, k: other.clone(), w: 100 + i as u64 });
        }
    }
    match variant / 2 {
        0 => {
            // plain: write wakes them all, overwrite wakes nobody, late waiter gets the new value
            push(&mut ops, Op::Write { h: 1, k: other.clone(), v: "aa".into() });
            push(&mut ops, Op::Write { h: 2, k: k.clone(), v: "01".into() });
            push(&mut ops, Op::Write { h: 3, k: k.clone(), v: "02".into() });
            push(&mut ops, Op::Notify { h: 0, k: k.clone(), w: 50 });
            push(&mut ops, Op::Read { h: 1, k: k.clone() });
        }
        1 => {
            // reopen cancels the parked waiters; new waiters after the reopen are served; data persists
            push(&mut ops, Op::Write { h: 1, k: other.clone(), v: "".into() });
            ops.push(Op::Reopen);
            push(&mut ops, Op::Read { h: 0, k: other.clone() });
            push(&mut ops, Op::Notify { h: 1, k: k.clone(), w: 60 });
            push(&mut ops, Op::Notify { h: 2, k: k.clone(), w: 61 });
            push(&mut ops, Op::Write { h: 3, k: k.clone(), v: "03".into() });
            ops.push(Op::Reopen);
            push(&mut ops, Op::Read { h: 2, k: k.clone() });
            push(&mut ops, Op::Notify { h: 2, k: k.clone(), w: 62 });
        }
        3 => {
            // abandoned waiters at the head / in the middle of the queue: everyone else is still served
            if n_waiters >= 1 {
                push(&mut ops, Op::Cancel { w: 1 });
            }
            if n_waiters >= 4 {
                push(&mut ops, Op::Cancel { w: 3 });
            }
            push(&mut ops, Op::Read { h: 1, k: other.clone() });
            push(&mut ops, Op::Write { h: 2, k: k.clone(), v: "04".into() });
            push(&mut ops, Op::Write { h: 2, k: other.clone(), v: "05".into() });
            push(&mut ops, Op::Read { h: 1, k: k.clone() });
        }
        _ => {
            // write, waiter and overwrite enqueued back to back: the waiter must get the FIRST value
            ops.push(Op::Barrier);
            ops.push(Op::Write { h: 0, k: k.clone(), v: "0a".into() });
            ops.push(Op::Notify { h: 1, k: k.clone(), w: 70 });
            ops.push(Op::Write { h: 2, k: k.clone(), v: "0b".into() });
            ops.push(Op::Read { h: 3, k: k.clone() });
            ops.push(Op::Notify { h: 0, k: k.clone(), w: 71 });
            ops.push(Op::Barrier);
        }
    }
    ops
}

fn canonical(ops: &[Op]) -> String {
    serde_json::to_string(ops).unwrap()
}

fn run_case(rt: &tokio::runtime::Runtime, model: Option<&mut Model>, rep: &mut Report, path: &str, ops: &[Op], distinct: &mut BTreeSet<String>) {
    let real = rt.block_on(exec_real(path, ops));
    rep.evaluations += 1;
    let replay = json!({"engine": "store", "ops": ops});
    for (kind, detail) in monitor(ops, &real) {
        rep.finding("impl_vs_property", &kind, detail, replay.clone());
    }
    // statistics
    let mut parked_woken = false;
    let mut special = false;
    for op in ops {
        match op {
            Op::Write { .. } => rep.hit("op.write"),
            Op::Read { .. } => rep.hit("op.read"),
            Op::Notify { .. } => rep.hit("op.notify"),
            Op::Cancel { .. } => rep.hit("op.cancel"),
            Op::Reopen => {
                rep.hit("op.reopen");
                special = true
            }
            Op::Barrier => rep.hit("op.barrier"),
        }
    }
    for b in &real {
        rep.hit(&format!("wakes_per_burst.{}", b.wakes.len().min(9)));
        for r in &b.reads {
            rep.hit(if r == "none" { "read.none" } else { "read.some" });
        }
    }
    // which waiters were answered in a later burst than the one they were issued in
    {
        let mut issue_burst: HashMap<u64, usize> = HashMap::new();
        let mut b = 0;
        for op in ops {
            match op {
                Op::Notify { w, .. } => {
                    issue_burst.insert(*w, b);
                }
                Op::Barrier | Op::Reopen => b += 1,
                _ => {}
            }
        }
        let mut answered = BTreeSet::new();
        for (i, bu) in real.iter().enumerate() {
            for w in bu.wakes.keys() {
                answered.insert(*w);
                if issue_burst.get(w).map_or(false, |x| *x < i) {
                    rep.hit("notify.deferred");
                    parked_woken = true;
                } else {
                    rep.hit("notify.same-burst");
                }
            }
        }
        for w in issue_burst.keys() {
            if !answered.contains(w) {
                rep.hit("notify.never-answered");
            }
        }
    }
    if parked_woken && (special || ops.iter().filter(|o| matches!(o, Op::Write { .. })).count() >= 2) {
        distinct.insert(canonical(ops));
    }
    if let Some(model) = model {
        let m = exec_model(model, ops);
        if m != real {
            let idx = m.iter().zip(real.iter()).position(|(a, b)| a != b).unwrap_or(m.len().min(real.len()));
            rep.finding(
                "impl_vs_model",
                "C16:store-trace",
                format!("first differing burst {}: model {:?} impl {:?}", idx, m.get(idx), real.get(idx)),
                replay.clone(),
            );
        }
        if rep.evaluations % 37 == 1 {
            rep.sample(json!({"ops": ops.len(), "bursts": real.len(),
                "first_ops": ops.iter().take(8).collect::<Vec<_>>(),
                "wakes": real.iter().map(|b| b.wakes.len()).collect::<Vec<_>>()}));
        }
    }
}

pub fn run(o: &Opts) -> Report {
    crate::world::install_panic_hook();
    let mut rep = Report::new("store", "C16", &o.tier, o.seed);
    rep.rule = "op lists (write/read/notify_read/reopen from 4 cloned handles, 1-5 overlapping keys incl. the empty key and prefix-related keys, values of 0..300 bytes, 0..8+ waiters per key) executed on the real Store in bursts of forced enqueue order (burst size 1 = exact wake-up step); distinct by the op list; non-trivial when a parked waiter is woken by a later write and the list also has an overwrite or a reopen".into();
    let rt = tokio::runtime::Builder::new_current_thread().enable_all().start_paused(true).build().unwrap();
    let _ = std::fs::create_dir_all(work_dir());
    let path = format!("{}/db_store_{}_{}", work_dir(), std::process::id(), o.seed);
    let mut distinct = BTreeSet::new();

    if let Some(file) = &o.replay {
        let v: serde_json::Value = serde_json::from_str(&std::fs::read_to_string(file).expect("replay file")).expect("replay json");
        if let Some(b) = v.get("backlog") {
            let fill = b["fill"].as_u64().unwrap_or(100) as usize;
            let sr = b["second_is_read"].as_bool().unwrap_or(false);
            let rt2 = tokio::runtime::Builder::new_current_thread().enable_all().build().unwrap();
            let vs = rt2.block_on(exec_backlog(&format!("{}_bl", path), fill, sr));
            rep.evaluations += 1;
            for (k, d) in vs {
                rep.finding("impl_vs_property", &k, d, json!({"engine": "store", "backlog": {"fill": fill, "second_is_read": sr}}));
            }
            return rep;
        }
        let ops: Vec<Op> = serde_json::from_value(v["ops"].clone()).expect("replay ops");
        run_case(&rt, None, &mut rep, &path, &ops, &mut distinct);
        rep.distinct_nontrivial = distinct.len() as u64;
        return rep;
    }

    // concurrent callers with more pending commands than the command channel holds
    for (fill, second_is_read) in [(99usize, false), (100, false), (101, false), (140, false), (100, true), (130, true)] {
        let rt2 = tokio::runtime::Builder::new_current_thread().enable_all().build().unwrap();
        let v = rt2.block_on(exec_backlog(&format!("{}_bl", path), fill, second_is_read));
        drop(rt2);
        rep.evaluations += 1;
        rep.hit("case.backlog");
        for (k, d) in v {
            rep.finding("impl_vs_property", &k, d, json!({"engine": "store", "backlog": {"fill": fill, "second_is_read": second_is_read}}));
        }
    }
    let mut model = Model::spawn();
    let mut rng = SmallRng::seed_from_u64(o.seed);
    for n in 0..=8usize {
        for variant in 0..8usize {
            if !(n <= 1 || n == 8 || variant % 2 == n % 2) {
                continue;
            }
            let ops = gen_directed(n, variant);
            rep.hit("case.directed");
            run_case(&rt, Some(&mut model), &mut rep, &path, &ops, &mut distinct);
        }
    }
    let (cases, len) = if o.thorough() { (1300, 260) } else { (60, 200) };
    for i in 0..cases {
        let l = if i % 10 == 0 { len * 2 } else { rng.gen_range(40, len) };
        let ops = gen_random(&mut rng, l);
        rep.hit("case.random");
        run_case(&rt, Some(&mut model), &mut rep, &path, &ops, &mut distinct);
    }
    let _ = std::fs::remove_dir_all(&path);
    rep.distinct_nontrivial = distinct.len() as u64;
    rep.model_requests = model.requests;
    rep
}
