//! E4 `netsim` — n real nodes (the real `node.rs` wiring: Mempool + Consensus + Store) on simnet under
//! virtual time.  Each node sees its peers behind harness proxy ports, so the harness controls every
//! directed link (up / down / delay) and can crash or isolate nodes.  Global monitors on the real
//! commit channels and stores: agreement (C01), per-node delivery order (C02), liveness after the
//! network stabilises with up to f crashed nodes (C06), catch-up of an isolated node (C07),
//! end-to-end inclusion and batch availability of client transactions (C13).
use crate::config::{Committee as NodeCommittee, Export as _, Parameters as NodeParameters, Secret};
use crate::node::Node;
use crate::report::Report;
use crate::world;
use crate::Opts;
use bytes::Bytes;
use consensus::{Block, Committee as CCommittee, Parameters as CParameters};
use crypto::{generate_keypair, Digest, Hash as _, PublicKey, SecretKey};
use futures::sink::SinkExt as _;
use futures::stream::StreamExt as _;
use mempool::verif::MempoolMessage;
use mempool::{Committee as MCommittee, Parameters as MParameters};
use network::simnet::{TcpListener, TcpStream};
use rand::rngs::{SmallRng, StdRng};
use rand::{Rng, SeedableRng};
use serde_json::json;
use std::collections::HashSet;
use std::sync::{Arc, Mutex};
use std::time::Duration;
use store::Store;
use tokio_util::codec::{Framed, LengthDelimitedCodec};

const TIMEOUT_MS: u64 = 1_000;
/// Every link has a positive latency: with zero latency the nodes would run rounds forever without
/// virtual time ever advancing.
const BASE_DELAY_MS: u64 = 5;

#[derive(Clone, Copy)]
struct Link {
    up: bool,
    delay_ms: u64,
    /// only the mempool connections (kind 2) of this directed link are cut; consensus traffic flows
    mp_cut: bool,
    /// while the link is down, frames WAIT (arbitrary delay, no loss: "delayed but not lost") instead
    /// of the connection being torn down (loss of whatever was in flight, as in a partition)
    hold: bool,
}

type Links = Arc<Mutex<Vec<Vec<Link>>>>;
type Held = Arc<Mutex<std::collections::HashMap<(usize, usize), Vec<TcpStream>>>>;

fn real_port(base: u16, j: usize, kind: u16) -> u16 {
    base + 10 * j as u16 + kind // kind 0 consensus, 1 transactions, 2 mempool
}
fn proxy_port(base: u16, i: usize, j: usize, kind: u16) -> u16 {
    base + 200 + 100 * i as u16 + 10 * j as u16 + kind
}

/// Forward frames one way, obeying the link policy: while the link is down the connection is torn
/// down (the senders see a broken connection, like a partition), otherwise frames are delayed.
async fn pump(
    mut from: futures::stream::SplitStream<Framed<TcpStream, LengthDelimitedCodec>>,
    mut to: futures::stream::SplitSink<Framed<TcpStream, LengthDelimitedCodec>, Bytes>,
    links: Links,
    a: usize,
    b: usize,
    kind: u16,
) {
    let down = |l: Link| !l.up || (kind == 2 && l.mp_cut);
    while let Some(Ok(frame)) = from.next().await {
        let mut l = links.lock().unwrap()[a][b];
        while down(l) && l.hold {
            // lossless outage: the frame is delivered once the link is back
            tokio::time::sleep(Duration::from_millis(50)).await;
            l = links.lock().unwrap()[a][b];
        }
        if down(l) {
            return;
        }
        if l.delay_ms > 0 {
            tokio::time::sleep(Duration::from_millis(l.delay_ms)).await;
            if down(links.lock().unwrap()[a][b]) {
                return;
            }
        }
        if to.send(frame.freeze()).await.is_err() {
            return;
        }
    }
}

async fn spawn_proxy(base: u16, i: usize, j: usize, kind: u16, links: Links, held: Held) {
    let addr = format!("127.0.0.1:{}", proxy_port(base, i, j, kind)).parse().unwrap();
    let listener = TcpListener::bind(&addr).await.expect("proxy bind");
    tokio::spawn(async move {
        loop {
            let (inbound, _) = match listener.accept().await {
                Ok(x) => x,
                Err(_) => return,
            };
            let l = links.lock().unwrap()[i][j];
            if (!l.up || (kind == 2 && l.mp_cut)) && !l.hold {
                // partition: the connection hangs (no answer, no reset) until the link heals; closing
                // it at once would make the reliable sender reconnect in a zero-delay loop
                held.lock().unwrap().entry((i, j)).or_default().push(inbound);
                continue;
            }
            let target = format!("127.0.0.1:{}", real_port(base, j, kind)).parse().unwrap();
            let outbound = match TcpStream::connect(target).await {
                Ok(s) => s,
                Err(_) => continue,
            };
            let (in_w, in_r) = Framed::new(inbound, LengthDelimitedCodec::new()).split();
            let (out_w, out_r) = Framed::new(outbound, LengthDelimitedCodec::new()).split();
            let l1 = links.clone();
            let l2 = links.clone();
            // when either direction stops (link cut or peer closed) both halves are dropped
            tokio::spawn(async move {
                tokio::select! {
                    _ = pump(in_r, out_w, l1, i, j, kind) => (),
                    _ = pump(out_r, in_w, l2, i, j, kind) => (),
                }
            });
        }
    });
}

pub struct Net {
    pub n: usize,
    pub base: u16,
    pub keys: Vec<(PublicKey, SecretKey)>,
    pub links: Links,
    held: Held,
    pub commits: Vec<Arc<Mutex<Vec<Block>>>>,
    pub stores: Vec<String>,
    pub dir: String,
}

fn clone_secret(s: &SecretKey) -> SecretKey {
    SecretKey::decode_base64(&s.encode_base64()).unwrap()
}

impl Net {
    pub async fn boot(seed: u64, n: usize, stakes: &[u32], base: u16, batch_size: usize) -> Net {
        network::simnet::reset();
        let mut sb = [0u8; 32];
        sb[..8].copy_from_slice(&seed.to_le_bytes());
        let mut rng = StdRng::from_seed(sb);
        let mut keys: Vec<_> = (0..n).map(|_| generate_keypair(&mut rng)).collect();
        keys.sort_by(|a, b| a.0.cmp(&b.0));
        let links: Links = Arc::new(Mutex::new(vec![vec![Link { up: true, delay_ms: BASE_DELAY_MS, mp_cut: false, hold: false }; n]; n]));
        let held: Held = Arc::new(Mutex::new(std::collections::HashMap::new()));
        let dir = format!("/verif/work/net_{}_{}", std::process::id(), seed);
        let _ = std::fs::remove_dir_all(&dir);
        std::fs::create_dir_all(&dir).unwrap();
        for i in 0..n {
            for j in 0..n {
                if i != j {
                    spawn_proxy(base, i, j, 0, links.clone(), held.clone()).await;
                    spawn_proxy(base, i, j, 2, links.clone(), held.clone()).await;
                }
            }
        }
        let mut commits = Vec::new();
        let mut stores = Vec::new();
        for i in 0..n {
            let cons = CCommittee::new(
                (0..n)
                    .map(|j| {
                        let port = if i == j { real_port(base, j, 0) } else { proxy_port(base, i, j, 0) };
                        (keys[j].0, stakes[j], format!("127.0.0.1:{}", port).parse().unwrap())
                    })
                    .collect(),
                1,
            );
            let memp = MCommittee::new(
                (0..n)
                    .map(|j| {
                        let mp = if i == j { real_port(base, j, 2) } else { proxy_port(base, i, j, 2) };
                        (keys[j].0, stakes[j], format!("127.0.0.1:{}", real_port(base, j, 1)).parse().unwrap(), format!("127.0.0.1:{}", mp).parse().unwrap())
                    })
                    .collect(),
                1,
            );
            let committee_file = format!("{}/committee-{}.json", dir, i);
            NodeCommittee { consensus: cons, mempool: memp }.write(&committee_file).unwrap();
            let key_file = format!("{}/key-{}.json", dir, i);
            Secret { name: keys[i].0, secret: clone_secret(&keys[i].1) }.write(&key_file).unwrap();
            let params_file = format!("{}/params.json", dir);
            NodeParameters {
                consensus: CParameters { timeout_delay: TIMEOUT_MS, sync_retry_delay: 0 },
                mempool: MParameters { gc_depth: 50, sync_retry_delay: 0, sync_retry_nodes: 3, batch_size, max_batch_delay: 50 },
            }
            .write(&params_file)
            .unwrap();
            let store_path = format!("{}/db-{}", dir, i);
            let mut node = Node::new(&committee_file, &key_file, &store_path, Some(params_file)).await.expect("node boot");
            let log = Arc::new(Mutex::new(Vec::new()));
            let log2 = log.clone();
            tokio::spawn(async move {
                while let Some(b) = node.commit.recv().await {
                    log2.lock().unwrap().push(b);
                }
            });
            commits.push(log);
            stores.push(store_path);
        }
        Net { n, base, keys, links, held, commits, stores, dir }
    }

    pub fn set_link(&self, a: usize, b: usize, up: bool, delay_ms: u64) {
        {
            let mut g = self.links.lock().unwrap();
            let mp_cut = g[a][b].mp_cut;
            g[a][b] = Link { up, delay_ms, mp_cut, hold: false };
        }
        if up {
            // reset the connections that hung during the partition: the senders reconnect
            self.held.lock().unwrap().remove(&(a, b));
        }
    }
    /// An outage WITHOUT loss: while `up` is false every frame on the link waits and is delivered when
    /// the link comes back (C06: "messages may be delayed arbitrarily but are not lost").
    pub fn set_link_lossless(&self, a: usize, b: usize, up: bool, delay_ms: u64) {
        let mut g = self.links.lock().unwrap();
        let mp_cut = g[a][b].mp_cut;
        g[a][b] = Link { up, delay_ms, mp_cut, hold: true };
    }
    /// Cut / heal only the mempool connections from `a` to `b` (batch broadcasts, batch requests);
    /// consensus messages keep flowing, so no view change is provoked.
    pub fn cut_mempool(&self, a: usize, b: usize, cut: bool) {
        self.links.lock().unwrap()[a][b].mp_cut = cut;
        if !cut {
            self.held.lock().unwrap().remove(&(a, b));
        }
    }
    pub fn isolate(&self, k: usize, isolated: bool) {
        for j in 0..self.n {
            if j != k {
                self.set_link(k, j, !isolated, BASE_DELAY_MS);
                self.set_link(j, k, !isolated, BASE_DELAY_MS);
            }
        }
    }
    pub async fn run_for(&self, ms: u64) {
        // in slices, so that a trace shows where virtual time stops advancing
        let mut left = ms;
        while left > 0 {
            let step = left.min(500);
            tokio::time::sleep(Duration::from_millis(step)).await;
            left -= step;
            if std::env::var("HS_TRACE").is_ok() {
                eprintln!("  t+{}ms committed rounds {:?}", ms - left, (0..self.n).map(|i| self.committed_round(i)).collect::<Vec<_>>());
            }
        }
    }
    pub fn committed_round(&self, i: usize) -> u64 {
        self.commits[i].lock().unwrap().last().map(|b| b.round).unwrap_or(0)
    }
    pub fn log(&self, i: usize) -> Vec<Block> {
        self.commits[i].lock().unwrap().clone()
    }
    /// One raw frame to one of node `to`'s real ports (kind 0 consensus, 1 transactions, 2 mempool),
    /// on a fresh connection.
    pub async fn send_frame(&self, to: usize, kind: u16, bytes: Vec<u8>) {
        let addr = format!("127.0.0.1:{}", real_port(self.base, to, kind)).parse().unwrap();
        if let Ok(s) = TcpStream::connect(addr).await {
            let mut f = Framed::new(s, LengthDelimitedCodec::new());
            let _ = f.send(Bytes::from(bytes)).await;
            tokio::time::sleep(Duration::from_millis(1)).await;
        }
    }
    pub async fn send_tx(&self, to: usize, tx: Vec<u8>) {
        let addr = format!("127.0.0.1:{}", real_port(self.base, to, 1)).parse().unwrap();
        if let Ok(s) = TcpStream::connect(addr).await {
            let mut f = Framed::new(s, LengthDelimitedCodec::new());
            let _ = f.send(Bytes::from(tx)).await;
            // keep the connection open a little so that the frame is read
            tokio::time::sleep(Duration::from_millis(1)).await;
        }
    }
}

/// C01 / C02 on the real commit logs: every log is parent-linked from genesis, and any two logs are
/// prefix-comparable.
fn check_logs(net: &Net, live: &[usize], rep: &mut Report, replay: &serde_json::Value) {
    let logs: Vec<Vec<Block>> = (0..net.n).map(|i| net.log(i)).collect();
    for i in 0..net.n {
        let mut prev: Option<&Block> = None;
        for b in &logs[i] {
            let ok = match prev {
                None => b.qc.hash == Digest::default() && b.qc.round == 0,
                Some(p) => b.qc.hash == p.digest() && b.round > p.round,
            };
            if !ok || b.round == 0 {
                rep.finding("impl_vs_property", "C02:delivery-order-broken", format!("node {} delivered round {} out of chain order (rounds {:?})", i, b.round, logs[i].iter().map(|x| x.round).collect::<Vec<_>>()), replay.clone());
                break;
            }
            prev = Some(b);
        }
    }
    for &i in live {
        for &j in live {
            if i < j {
                let k = logs[i].len().min(logs[j].len());
                for t in 0..k {
                    if logs[i][t].digest() != logs[j][t].digest() {
                        rep.finding("impl_vs_property", "C01:conflicting-commits", format!("nodes {} and {} delivered different blocks at position {} (rounds {} vs {})", i, j, t, logs[i][t].round, logs[j][t].round), replay.clone());
                        break;
                    }
                }
            }
        }
    }
}

fn stakes_for(rng: &mut SmallRng, n: usize) -> Vec<u32> {
    if rng.gen_bool(0.7) {
        vec![1; n]
    } else {
        let mut v = vec![1u32; n];
        v[rng.gen_range(0, n)] = 2;
        v
    }
}

fn max_faulty(stakes: &[u32]) -> Vec<usize> {
    // a set of nodes whose stake is at most f = (total-1)/3
    let total: u32 = stakes.iter().sum();
    let f = (total - 1) / 3;
    let mut acc = 0;
    let mut out = vec![];
    for (i, s) in stakes.iter().enumerate().rev() {
        if acc + s <= f {
            acc += s;
            out.push(i);
        }
    }
    out
}

/// C06: up to f nodes crash at random times, links are delayed/blocked arbitrarily before GST and
/// stable afterwards; every live node's committed round must keep growing.
fn scenario_liveness(seed: u64, rep: &mut Report) {
    let mut rng = SmallRng::seed_from_u64(seed);
    let n = rng.gen_range(4, 8usize);
    let stakes = stakes_for(&mut rng, n);
    let mut crashed = max_faulty(&stakes);
    let keep = rng.gen_range(0, crashed.len() + 1);
    crashed.truncate(keep);
    let pre = rng.gen_range(0, 6u64) * TIMEOUT_MS;
    let replay = json!({"engine": "netsim", "scenario": "liveness", "seed": seed});
    let rt = world::runtime();
    let dir = rt.block_on(async {
        let net = Net::boot(seed, n, &stakes, 10_000, 500_000).await;
        // pre-GST chaos: random delays and temporary cuts between random pairs
        let mut t = 0;
        let crash_at: Vec<u64> = crashed.iter().map(|_| rng.gen_range(0, pre + 1)).collect();
        while t < pre {
            for _ in 0..n {
                let a = rng.gen_range(0, n);
                let b = rng.gen_range(0, n);
                if a != b {
                    let up = rng.gen_bool(0.7);
                    // before the network stabilises messages are delayed at will but never lost (the
                    // property's premise; a TC broadcast, for one, is sent exactly once, best-effort)
                    net.set_link_lossless(a, b, up, rng.gen_range(1, 3 * TIMEOUT_MS / 2));
                }
            }
            for (k, c) in crashed.iter().enumerate() {
                if crash_at[k] <= t {
                    net.isolate(*c, true);
                }
            }
            net.run_for(TIMEOUT_MS / 2).await;
            t += TIMEOUT_MS / 2;
        }
        // GST: all links between live nodes up and fast; crashed nodes stay isolated
        for a in 0..n {
            for b in 0..n {
                if a != b {
                    net.set_link(a, b, true, rng.gen_range(1, 20));
                }
            }
        }
        for c in &crashed {
            net.isolate(*c, true);
        }
        let live: Vec<usize> = (0..n).filter(|i| !crashed.contains(i)).collect();
        let f = crashed.len() as u64;
        let window = (4 * (f + 1) + 6) * TIMEOUT_MS;
        let mut last: Vec<u64> = live.iter().map(|i| net.committed_round(*i)).collect();
        for w in 0..2 {
            net.run_for(window).await;
            for (k, i) in live.iter().enumerate() {
                let now = net.committed_round(*i);
                if now <= last[k] {
                    rep.finding("impl_vs_property", "C06:no-progress-after-gst", format!("n={} stakes={:?} crashed={:?}: live node {} stayed at committed round {} during window {} of {} ms after the network stabilised", n, stakes, crashed, i, now, w, window), replay.clone());
                }
                last[k] = now;
            }
        }
        check_logs(&net, &live, rep, &replay);
        rep.hit(&format!("liveness.n{}.crashed{}", n, crashed.len()));
        rep.sample(json!({"scenario": "liveness", "n": n, "stakes": stakes, "crashed": crashed, "pre_gst_ms": pre, "committed_rounds": live.iter().map(|i| net.committed_round(*i)).collect::<Vec<_>>()}));
        net.dir.clone()
    });
    drop(rt);
    network::simnet::reset();
    let _ = std::fs::remove_dir_all(&dir);
}

/// C06, directed: a leader whose messages reach only ONE other node for a while (its proposals are
/// a partial broadcast: that node moves ahead, the rest stay a round behind and time out), then the
/// leader crashes for good.  One crash, timely links between the live nodes afterwards: they must
/// resynchronise through the QCs carried in each other's timeouts and keep committing.
fn scenario_partial_broadcast(seed: u64, rep: &mut Report) {
    let mut rng = SmallRng::seed_from_u64(seed);
    let n = rng.gen_range(4, 7usize);
    let stakes = vec![1u32; n];
    let leader = rng.gen_range(0, n);
    let others: Vec<usize> = (0..n).filter(|i| *i != leader).collect();
    let reached = others[rng.gen_range(0, others.len())];
    let replay = json!({"engine": "netsim", "scenario": "partial-broadcast", "seed": seed});
    let rt = world::runtime();
    let dir = rt.block_on(async {
        let net = Net::boot(seed, n, &stakes, 10_000, 500_000).await;
        net.run_for(rng.gen_range(0, 300)).await;
        for a in &others {
            if *a != reached {
                net.set_link(leader, *a, false, 1);
            }
        }
        // long enough for the leader to lead at least once more (every round it leads costs the
        // nodes it does not reach a timeout)
        net.run_for((n as u64 + 2) * TIMEOUT_MS + rng.gen_range(0, TIMEOUT_MS)).await;
        net.isolate(leader, true);
        for a in 0..n {
            for b in 0..n {
                if a != b && a != leader && b != leader {
                    net.set_link(a, b, true, rng.gen_range(1, 20));
                }
            }
        }
        let live = others.clone();
        let window = (4 * 2 + 6) * TIMEOUT_MS;
        let mut last: Vec<u64> = live.iter().map(|i| net.committed_round(*i)).collect();
        for w in 0..2 {
            net.run_for(window).await;
            for (k, i) in live.iter().enumerate() {
                let now = net.committed_round(*i);
                if now <= last[k] {
                    rep.finding(
                        "impl_vs_property",
                        "C06:no-progress-after-partial-broadcast",
                        format!("n={}: node {} reached only node {} for a while and then crashed; live node {} stayed at committed round {} during window {} of {} ms although all links between live nodes are up and fast", n, leader, reached, i, now, w, window),
                        replay.clone(),
                    );
                }
                last[k] = now;
            }
        }
        check_logs(&net, &live, rep, &replay);
        rep.hit(&format!("partial-broadcast.n{}", n));
        rep.sample(json!({"scenario": "partial-broadcast", "n": n, "leader": leader, "reached": reached, "committed_rounds": live.iter().map(|i| net.committed_round(*i)).collect::<Vec<_>>()}));
        net.dir.clone()
    });
    drop(rt);
    network::simnet::reset();
    let _ = std::fs::remove_dir_all(&dir);
}

/// C07: one node is cut off while the others keep committing (with or without a view change in the
/// gap), then reconnected: it must end up delivering the same sequence.
fn scenario_catchup(seed: u64, rep: &mut Report) {
    let mut rng = SmallRng::seed_from_u64(seed);
    let n = rng.gen_range(4, 7usize);
    let stakes = vec![1u32; n];
    let victim = rng.gen_range(0, n);
    let start = rng.gen_range(0, 4u64) * 300;
    let len = rng.gen_range(2, 12u64) * 500;
    let replay = json!({"engine": "netsim", "scenario": "catchup", "seed": seed});
    let rt = world::runtime();
    let dir = rt.block_on(async {
        let net = Net::boot(seed, n, &stakes, 10_000, 500_000).await;
        net.run_for(start).await;
        net.isolate(victim, true);
        // while the victim is away the others also commit client transactions: the blocks it has to
        // fetch reference batches it does not have either (it misses consensus AND mempool traffic)
        let with_payload = rng.gen_bool(0.7);
        if with_payload {
            let slices = 4;
            for k in 0..slices {
                let to = (victim + 1 + rng.gen_range(0, n - 1)) % n;
                let mut tx: Vec<u8> = (0..rng.gen_range(20, 150)).map(|_| rng.gen()).collect();
                tx[0] = 1;
                tx[1..9].copy_from_slice(&(seed * 100 + k as u64).to_be_bytes());
                net.send_tx(to, tx).await;
                net.run_for(len / slices as u64).await;
            }
            rep.hit("catchup.with-payload");
        } else {
            net.run_for(len).await;
        }
        let others: Vec<usize> = (0..n).filter(|i| *i != victim).collect();
        let ahead = others.iter().map(|i| net.committed_round(*i)).max().unwrap_or(0);
        net.isolate(victim, false);
        if rng.gen_bool(0.5) {
            // the first peer it will ask (the author of the next proposal) answers late
            let slow = others[rng.gen_range(0, others.len())];
            net.set_link(slow, victim, true, 700);
        }
        // Recovery has no deadline in the property; what bounds it in the code is the synchronizers'
        // retry tick (5 s): a best-effort message sent on a connection that died during the partition
        // is lost and only re-sent at the next tick, once per peer and per layer (blocks, batches).
        // So: wait tick by tick, up to 30 ticks, until the victim has delivered what the others had
        // delivered when it was reconnected.
        let mut v = net.committed_round(victim);
        let mut waited = 0;
        while v < ahead && waited < 30 {
            net.run_for(5_000).await;
            waited += 1;
            v = net.committed_round(victim);
        }
        rep.hit(&format!("catchup.ticks-needed.{}", waited.min(9)));
        if v < ahead {
            rep.finding("impl_vs_property", "C07:no-catch-up", format!("n={} node {} was isolated for {} ms (others reached committed round {}), and {} retry ticks (5 s each) after reconnection it is still at committed round {}", n, victim, len, ahead, waited, v), replay.clone());
        }
        let live: Vec<usize> = (0..n).collect();
        check_logs(&net, &live, rep, &replay);
        // same sequence: the victim's log is a prefix-compatible copy (checked by check_logs) and not shorter than `ahead`
        rep.hit(&format!("catchup.n{}", n));
        rep.sample(json!({"scenario": "catchup", "n": n, "victim": victim, "isolated_ms": len, "others_round_at_heal": ahead, "victim_round_at_end": v}));
        net.dir.clone()
    });
    drop(rt);
    network::simnet::reset();
    let _ = std::fs::remove_dir_all(&dir);
}

/// C13: clients submit transactions to several nodes (one node misses the batch broadcasts of
/// another for a while); every transaction must end up in a batch referenced by a block committed by
/// all nodes, with the batch bytes readable from every store.
fn scenario_e2e(seed: u64, rep: &mut Report) {
    let mut rng = SmallRng::seed_from_u64(seed);
    let n = rng.gen_range(4, 6usize);
    let stakes = vec![1u32; n];
    let replay = json!({"engine": "netsim", "scenario": "e2e", "seed": seed});
    let rt = world::runtime();
    let out = rt.block_on(async {
        let net = Net::boot(seed, n, &stakes, 10_000, 200).await;
        net.run_for(200).await;
        // one node misses the mempool broadcasts of another for a while (it must fetch the batches)
        let deaf = rng.gen_range(0, n);
        let src = (deaf + 1 + rng.gen_range(0, n - 1)) % n;
        let cut = rng.gen_bool(0.6);
        let mut txs: Vec<Vec<u8>> = Vec::new();
        let count = rng.gen_range(3, 12);
        for k in 0..count {
            let to = if cut && rng.gen_bool(0.6) { src } else { rng.gen_range(0, n) };
            let len = rng.gen_range(9, 120);
            let mut tx: Vec<u8> = (0..len).map(|_| rng.gen()).collect();
            tx[0] = 1; // not a benchmark sample transaction
            tx[1..9].copy_from_slice(&(seed * 1000 + k as u64).to_be_bytes());
            if cut {
                // only the mempool link src -> deaf is cut: the property speaks about a period without
                // faults or view changes, so consensus traffic must not be disturbed (a proposal that is
                // orphaned by a view change takes its payload with it: `cleanup_proposer` runs when a
                // block is processed, not when it commits — see DESIGN 0.7)
                net.cut_mempool(src, deaf, true);
            }
            if std::env::var("HS_LOG").is_ok() {
                eprintln!("[HARNESS] tx {} ({} bytes) -> node {} (deaf={} src={} cut={})", k, tx.len(), to, deaf, src, cut);
            }
            net.send_tx(to, tx.clone()).await;
            net.run_for(120).await;
            if cut {
                net.cut_mempool(src, deaf, false);
            }
            txs.push(tx);
            net.run_for(rng.gen_range(0, 200)).await;
        }
        net.run_for(12 * TIMEOUT_MS).await;
        let live: Vec<usize> = (0..n).collect();
        check_logs(&net, &live, rep, &replay);
        let logs: Vec<Vec<Block>> = (0..n).map(|i| net.log(i)).collect();
        rep.hit(&format!("e2e.n{}.cut{}", n, cut));
        (net.dir.clone(), net.stores.clone(), logs, txs, deaf, src, cut)
    });
    drop(rt);
    network::simnet::reset();
    let (dir, stores, logs, txs, deaf, src, cut) = out;
    // second phase: the nodes are stopped; open each node's store and check that every transaction
    // is in a batch referenced by a block that node committed, readable under its digest
    let rt = world::runtime();
    rt.block_on(async {
        for i in 0..n {
            let mut store = Store::new(&stores[i]).expect("reopen store");
            let committed: HashSet<[u8; 32]> = logs[i].iter().flat_map(|b| b.payload.iter().map(|d| d.0)).collect();
            let mut found: HashSet<usize> = HashSet::new();
            for d in &committed {
                match store.read(d.to_vec()).await {
                    Ok(Some(bytes)) => {
                        if crate::sym::sha(&bytes).0 != *d {
                            rep.finding("impl_vs_property", "C11:batch-not-content-addressed", format!("node {} stores bytes whose hash is not their key", i), replay.clone());
                        }
                        if let Ok(MempoolMessage::Batch(b)) = bincode::deserialize::<MempoolMessage>(&bytes) {
                            for (k, tx) in txs.iter().enumerate() {
                                if b.contains(tx) {
                                    found.insert(k);
                                }
                            }
                        }
                    }
                    _ => rep.finding("impl_vs_property", "C13:committed-batch-not-readable", format!("node {} committed a block referencing a batch that is not in its store", i), replay.clone()),
                }
            }
            // the clause is about a period without faults or view changes: a round missing from the
            // commit sequence means a view change happened; then only the safety clauses above apply
            let rounds: Vec<u64> = logs[i].iter().map(|b| b.round).collect();
            let view_change = rounds.windows(2).any(|w| w[1] != w[0] + 1);
            if view_change {
                rep.hit("e2e.view-change-in-period");
            }
            for k in 0..txs.len() {
                if view_change {
                    break;
                }
                if !found.contains(&k) {
                    rep.finding("impl_vs_property", "C13:transaction-not-committed", format!("n={} transaction {} (of {}) is not in any batch referenced by node {}'s committed blocks 12 timeouts after submission (deaf={} src={} cut={}; committed rounds {:?})", n, k, txs.len(), i, deaf, src, cut, logs[i].iter().map(|b| b.round).collect::<Vec<_>>()), replay.clone());
                    break;
                }
            }
        }
        rep.sample(json!({"scenario": "e2e", "n": n, "txs": txs.len(), "deaf": deaf, "src": src, "cut": cut, "committed_blocks": logs.iter().map(|l| l.len()).collect::<Vec<_>>()}));
    });
    drop(rt);
    let _ = std::fs::remove_dir_all(&dir);
}

#[allow(dead_code)]
fn unused(_: Store) {}

pub fn run(o: &Opts) -> Report {
    world::install_panic_hook();
    let mut rep = Report::new("netsim", &o.prop, &o.tier, o.seed);
    rep.rule = "seeded whole-system runs: 4-7 real nodes (real node.rs wiring) on simnet under virtual time with harness-controlled directed links; liveness: <= f crashes at random times, random pre-GST delays and lossless outages (frames wait on a held link and are delivered when it comes back: delayed, never lost), then stable links, progress checked per window of (4(f+1)+6) timeouts; partial broadcast: a node reaches only one other node for a while, then crashes; catch-up: one node isolated for a random interval then healed (optionally a slow first sync target); e2e: client transactions to several nodes with one node missing another's batch broadcasts; distinct by seed, all non-trivial".into();
    let which = match o.prop.as_str() {
        "C06" => vec!["liveness"],
        "C07" => vec!["catchup"],
        "C13" => vec!["e2e"],
        _ => vec!["liveness", "catchup", "e2e"],
    };
    if let Some(path) = &o.replay {
        // a recorded scenario is identified by its kind and seed (everything else derives from the seed)
        let v: serde_json::Value = serde_json::from_str(&std::fs::read_to_string(path).expect("replay file")).expect("replay json");
        let v = if v.get("scenario").is_some() { v } else { v.get("replay").cloned().unwrap_or(v) };
        let seed = v["seed"].as_u64().unwrap_or(1);
        match v["scenario"].as_str().unwrap_or("liveness") {
            "liveness" => scenario_liveness(seed, &mut rep),
            "partial-broadcast" => scenario_partial_broadcast(seed, &mut rep),
            "catchup" => scenario_catchup(seed, &mut rep),
            _ => scenario_e2e(seed, &mut rep),
        }
        rep.evaluations += 1;
        for p in world::take_panics() {
            rep.finding("impl_vs_property", "C15:panic", p, json!({"engine": "netsim", "seed": seed}));
        }
        return rep;
    }
    let per = if o.thorough() { 40 } else { 6 };
    for w in which {
        for k in 0..per {
            let seed = o.seed.wrapping_mul(7919).wrapping_add(k);
            match w {
                "liveness" => {
                    // every third case is the directed partial-broadcast crash
                    if k % 3 == 2 {
                        scenario_partial_broadcast(seed, &mut rep)
                    } else {
                        scenario_liveness(seed, &mut rep)
                    }
                }
                "catchup" => scenario_catchup(seed, &mut rep),
                _ => scenario_e2e(seed, &mut rep),
            }
            rep.evaluations += 1;
            rep.distinct_nontrivial += 1;
        }
    }
    for p in world::take_panics() {
        rep.finding("impl_vs_property", "C15:panic", p, json!({"engine": "netsim", "seed": o.seed}));
    }
    rep
}
