//! E4 `fuzz` — C15 on whole real nodes: arbitrary and mutated frames on the consensus, mempool and
//! transaction ports of one node of a running 4-node system (real node.rs wiring), then functional
//! probes: no task panicked, the node keeps committing, and a client transaction sent to it still
//! ends up in a batch of a block committed everywhere.
use crate::e4_netsim::Net;
use crate::report::Report;
use crate::sym::{sha, Content, Universe};
use crate::world;
use crate::Opts;
use consensus::verif::ConsensusMessage;
use consensus::QC;
use crypto::{Digest, Hash as _};
use mempool::verif::MempoolMessage;
use rand::rngs::SmallRng;
use rand::{Rng, SeedableRng};
use serde_json::json;
use store::Store;

fn mutate(rng: &mut SmallRng, mut b: Vec<u8>) -> Vec<u8> {
    match rng.gen_range(0, 7) {
        0 => {
            if !b.is_empty() {
                let i = rng.gen_range(0, b.len());
                b[i] ^= 1 << rng.gen_range(0, 8);
            }
        }
        1 => {
            let k = rng.gen_range(0, b.len() + 1);
            b.truncate(k);
        }
        2 => {
            for _ in 0..rng.gen_range(1, 9) {
                b.push(rng.gen());
            }
        }
        3 => {
            // overwrite a length / tag field near the front
            if b.len() >= 12 {
                let i = rng.gen_range(0, 12);
                b[i] = rng.gen();
            }
        }
        4 => {
            // splice: first half of this, second half random
            let k = b.len() / 2;
            for x in b[k..].iter_mut() {
                *x = rng.gen();
            }
        }
        5 => {
            // huge length prefix where a vector length sits
            if b.len() >= 12 {
                b[4..12].copy_from_slice(&u64::MAX.to_le_bytes());
            }
        }
        _ => {}
    }
    b
}

fn scenario(seed: u64, frames: usize, rep: &mut Report) {
    let mut rng = SmallRng::seed_from_u64(seed);
    let n = 4usize;
    let replay = json!({"engine": "fuzz", "seed": seed, "frames": frames});
    let rt = world::runtime();
    let out = rt.block_on(async {
        let net = Net::boot(seed, n, &[1, 1, 1, 1], 12_000, 200).await;
        net.run_for(300).await;
        // a universe with the same keys, to build valid messages to mutate
        let mut u = Universe::new(seed, vec![1, 1, 1, 1], 12_000);
        // NOTE: Universe::new and Net::boot derive the committee keys from the same seed in the same way
        let target = rng.gen_range(0, n);
        let committed: Vec<Digest> = net.log((target + 1) % n).iter().map(|b| b.digest()).collect();
        let batch_digests: Vec<Digest> = net.log((target + 1) % n).iter().flat_map(|b| b.payload.clone()).collect();
        for k in 0..frames {
            let kind = [0u16, 1, 2][rng.gen_range(0, 3)];
            let bytes: Vec<u8> = match rng.gen_range(0, 10) {
                0 | 1 => (0..rng.gen_range(0, 300)).map(|_| rng.gen()).collect(),
                2 => vec![],
                3 => {
                    // cross-component: a block sync request naming a batch digest / random digest, from a member
                    let d = if !batch_digests.is_empty() && rng.gen_bool(0.6) { batch_digests[rng.gen_range(0, batch_digests.len())].clone() } else { sha(&rng.gen::<u64>().to_le_bytes()) };
                    bincode::serialize(&ConsensusMessage::SyncRequest(d, u.pk(rng.gen_range(1, 5)))).unwrap()
                }
                4 => {
                    // cross-component: a batch request naming block digests
                    let ds: Vec<Digest> = committed.iter().take(rng.gen_range(0, 4)).cloned().collect();
                    bincode::serialize(&MempoolMessage::BatchRequest(ds, u.pk(rng.gen_range(1, 5)))).unwrap()
                }
                5 => {
                    // a key field that is not a valid key (short base64), as raw bincode
                    let mut v = bincode::serialize(&ConsensusMessage::SyncRequest(Digest::default(), u.pk(1))).unwrap();
                    // the key is the trailing string: u64 length + text; shorten it
                    let l = v.len();
                    v.truncate(l - 44);
                    let l2 = v.len();
                    v[l2 - 8..].copy_from_slice(&4u64.to_le_bytes());
                    v.extend_from_slice(b"AAAA");
                    v
                }
                6 => {
                    let b = u.mk_block(rng.gen_range(1, 5), rng.gen_range(0, 1 << 40), QC::genesis(), None, vec![]);
                    mutate(&mut rng, bincode::serialize(&ConsensusMessage::Propose(b)).unwrap())
                }
                7 => {
                    let v = u.mk_vote(sha(b"x"), rng.gen::<u64>(), rng.gen_range(1, 5));
                    mutate(&mut rng, bincode::serialize(&ConsensusMessage::Vote(v)).unwrap())
                }
                8 => {
                    // Threat model: the sender controls at most f = 1 of the 4 keys, so an absurd
                    // certificate carries at most one valid signature (a quorum-signed TC of round
                    // 2^64-1 would overflow `round + 1`, but needs > f colluding signers: DESIGN 0.9).
                    let byz = rng.gen_range(1, 5u64);
                    let mut entries: Vec<(u64, u64)> = vec![(byz, rng.gen::<u64>() >> 1)];
                    for _ in 0..rng.gen_range(0, 4) {
                        entries.push((byz, rng.gen::<u64>() >> 1)); // repeated signer
                    }
                    let t = u.mk_tc(u64::MAX - rng.gen_range(0, 3), &entries);
                    mutate(&mut rng, bincode::serialize(&ConsensusMessage::TC(t)).unwrap())
                }
                _ => {
                    let txs: Vec<Vec<u8>> = (0..rng.gen_range(0, 4)).map(|_| (0..rng.gen_range(0, 40)).map(|_| rng.gen()).collect()).collect();
                    mutate(&mut rng, bincode::serialize(&MempoolMessage::Batch(txs)).unwrap())
                }
            };
            rep.hit(&format!("port{}", kind));
            net.send_frame(target, kind, bytes).await;
            if k % 8 == 0 {
                net.run_for(20).await;
            }
            let _ = Content::Timeout(0, 0);
        }
        net.run_for(500).await;
        // probes
        let before: Vec<u64> = (0..n).map(|i| net.committed_round(i)).collect();
        let mut tx: Vec<u8> = (0..40).map(|_| rng.gen()).collect();
        tx[0] = 1;
        tx[1..9].copy_from_slice(&seed.to_be_bytes());
        net.send_tx(target, tx.clone()).await;
        net.run_for(8_000).await;
        let after: Vec<u64> = (0..n).map(|i| net.committed_round(i)).collect();
        for i in 0..n {
            if after[i] <= before[i] {
                rep.finding("impl_vs_property", "C15:service-down-after-fuzz", format!("node {} stopped committing after {} fuzz frames to node {} (round {} -> {})", i, frames, target, before[i], after[i]), replay.clone());
            }
        }
        (net.dir.clone(), net.stores.clone(), (0..n).map(|i| net.log(i)).collect::<Vec<_>>(), tx, target)
    });
    drop(rt);
    network::simnet::reset();
    let (dir, stores, logs, tx, target) = out;
    for p in world::take_panics() {
        rep.finding("impl_vs_property", "C15:panic", p, replay.clone());
    }
    // the probe transaction must be in a committed batch at every node
    let rt = world::runtime();
    rt.block_on(async {
        for i in 0..n {
            let mut store = Store::new(&stores[i]).expect("reopen store");
            let mut found = false;
            for b in &logs[i] {
                for d in &b.payload {
                    if let Ok(Some(bytes)) = store.read(d.to_vec()).await {
                        if let Ok(MempoolMessage::Batch(batch)) = bincode::deserialize::<MempoolMessage>(&bytes) {
                            if batch.contains(&tx) {
                                found = true;
                            }
                        }
                    }
                }
            }
            if !found {
                rep.finding("impl_vs_property", "C15:transactions-no-longer-batched", format!("a client transaction sent to node {} after the fuzz frames is not in any batch committed by node {}", target, i), replay.clone());
            }
        }
    });
    drop(rt);
    let _ = std::fs::remove_dir_all(&dir);
    rep.sample(json!({"seed": seed, "frames": frames, "target": target, "committed_blocks": logs.iter().map(|l| l.len()).collect::<Vec<_>>()}));
}

pub fn run(o: &Opts) -> Report {
    world::install_panic_hook();
    let mut rep = Report::new("fuzz", &o.prop, &o.tier, o.seed);
    rep.rule = "per scenario a running 4-node system (real node.rs) receives N frames on random ports (consensus / transactions / mempool) of one node: random bytes, empty frames, cross-component sync and batch requests, keys too short, and mutated (bit flip, truncation, extension, overwritten length/tag, splice, huge length) proposals, votes, TCs and batches; then probes: no panic anywhere, every node keeps committing, a fresh client transaction to the fuzzed node is committed everywhere; distinct by seed".into();
    if let Some(p) = &o.replay {
        let v: serde_json::Value = serde_json::from_str(&std::fs::read_to_string(p).unwrap_or_default()).unwrap_or(json!({}));
        scenario(v["seed"].as_u64().unwrap_or(1), v["frames"].as_u64().unwrap_or(100) as usize, &mut rep);
        rep.evaluations = 1;
        return rep;
    }
    let (scen, frames) = if o.thorough() { (30, 600) } else { (3, 200) };
    for k in 0..scen {
        scenario(o.seed.wrapping_mul(104_729).wrapping_add(k), frames, &mut rep);
        rep.evaluations += frames as u64;
        rep.distinct_nontrivial += 1;
    }
    rep
}
