//! E3 `cons` — one real `Consensus::spawn` node against the Lean node model, in lock-step, plus the
//! property monitors on the real node's own outputs (C02 C03 C04 C05 C08 C09 C10 C15 C19).
use crate::driver::Model;
use crate::monitor::Monitor;
use crate::report::Report;
use crate::sexp;
use crate::sym::Universe;
use crate::world::{self, Reaction, World};
use crate::Opts;
use consensus::verif::{ConsensusMessage, Vote};
use consensus::{Block, QC, TC};
use crypto::{Digest, Hash as _};
use mempool::ConsensusMempoolMessage;
use rand::rngs::SmallRng;
use rand::seq::SliceRandom;
use rand::{Rng, SeedableRng};
use serde_json::json;
use std::collections::{BTreeSet, HashMap};

/// One external stimulus for the node.
pub enum Stim {
    Msg(ConsensusMessage),
    Raw(Vec<u8>),
    Timer,
    Digest(Digest),
    Batch(Digest),
}

fn clone_msg(m: &ConsensusMessage) -> ConsensusMessage {
    bincode::deserialize(&bincode::serialize(m).unwrap()).unwrap()
}

impl Clone for Stim {
    fn clone(&self) -> Stim {
        match self {
            Stim::Msg(m) => Stim::Msg(clone_msg(m)),
            Stim::Raw(b) => Stim::Raw(b.clone()),
            Stim::Timer => Stim::Timer,
            Stim::Digest(d) => Stim::Digest(d.clone()),
            Stim::Batch(d) => Stim::Batch(d.clone()),
        }
    }
}

impl Stim {
    pub fn to_json(&self) -> serde_json::Value {
        match self {
            Stim::Msg(m) => json!({"k": "msg", "hex": hex(&bincode::serialize(m).unwrap())}),
            Stim::Raw(b) => json!({"k": "raw", "hex": hex(b)}),
            Stim::Timer => json!({"k": "timer"}),
            Stim::Digest(d) => json!({"k": "digest", "hex": hex(&d.0)}),
            Stim::Batch(d) => json!({"k": "batch", "hex": hex(&d.0)}),
        }
    }
    pub fn from_json(v: &serde_json::Value) -> Option<Stim> {
        let k = v["k"].as_str()?;
        let bytes = unhex(v["hex"].as_str().unwrap_or(""));
        Some(match k {
            "msg" => Stim::Msg(bincode::deserialize(&bytes).ok()?),
            "raw" => Stim::Raw(bytes),
            "timer" => Stim::Timer,
            "digest" => Stim::Digest(Digest(bytes.as_slice().try_into().ok()?)),
            "batch" => Stim::Batch(Digest(bytes.as_slice().try_into().ok()?)),
            _ => return None,
        })
    }
    pub fn kind(&self) -> &'static str {
        match self {
            Stim::Msg(ConsensusMessage::Propose(_)) => "propose",
            Stim::Msg(ConsensusMessage::Vote(_)) => "vote",
            Stim::Msg(ConsensusMessage::Timeout(_)) => "timeout",
            Stim::Msg(ConsensusMessage::TC(_)) => "tc",
            Stim::Msg(ConsensusMessage::SyncRequest(..)) => "syncRequest",
            Stim::Raw(_) => "raw",
            Stim::Timer => "timer",
            Stim::Digest(_) => "digest",
            Stim::Batch(_) => "batch",
        }
    }
}

pub fn hex(b: &[u8]) -> String {
    b.iter().map(|x| format!("{:02x}", x)).collect()
}
pub fn unhex(s: &str) -> Vec<u8> {
    (0..s.len() / 2).filter_map(|i| u8::from_str_radix(&s[2 * i..2 * i + 2], 16).ok()).collect()
}

/// The event line for the model (None: the model has nothing to do, e.g. an undecodable frame).
fn stim_to_model(u: &mut Universe, s: &Stim) -> Option<String> {
    Some(match s {
        Stim::Msg(ConsensusMessage::Propose(b)) => format!("(ev (msg (propose {})))", u.block_sym(b)),
        Stim::Msg(ConsensusMessage::Vote(v)) => format!("(ev (msg (vote {})))", u.vote_sym(v)),
        Stim::Msg(ConsensusMessage::Timeout(t)) => format!("(ev (msg (timeout {})))", u.timeout_sym(t)),
        Stim::Msg(ConsensusMessage::TC(t)) => format!("(ev (msg (tc {})))", u.tc_sym(t)),
        Stim::Msg(ConsensusMessage::SyncRequest(d, o)) => format!("(ev (helper {} {}))", u.digest_sym(d), u.key_id(o)),
        Stim::Raw(_) => return None,
        Stim::Timer => "(ev (timer))".to_string(),
        Stim::Digest(d) => format!("(ev (digest {}))", u.raw_id(d)),
        Stim::Batch(d) => format!("(ev (batch {}))", u.raw_id(d)),
    })
}

/// Canonical observation lines of the real node's reaction.
fn canon_real(u: &mut Universe, r: &Reaction) -> (Vec<String>, Vec<String>, Vec<String>) {
    let mut frames = Vec::new();
    for (j, m) in &r.frames {
        let ms = match m {
            ConsensusMessage::Propose(b) => format!("(propose {})", u.block_sym(b)),
            ConsensusMessage::Vote(v) => format!("(vote {})", u.vote_sym(v)),
            ConsensusMessage::Timeout(t) => format!("(timeout {})", u.timeout_sym(t)),
            ConsensusMessage::TC(t) => format!("(tc {})", u.tc_sym(t)),
            ConsensusMessage::SyncRequest(d, o) => format!("(syncRequest {} {})", u.digest_sym(d), u.key_id(o)),
        };
        frames.push(format!("(frame {} {})", j, ms));
    }
    for (j, b) in &r.undecodable {
        frames.push(format!("(frame {} (undecodable {}))", j, hex(b)));
    }
    frames.sort();
    let commits = r.commits.iter().map(|b| format!("(commit {})", u.block_sym(b))).collect();
    let mempool = r
        .mempool
        .iter()
        .map(|m| match m {
            ConsensusMempoolMessage::Synchronize(ds, target) => format!("(mempoolSync {} {})", u.payload_sym(ds), u.key_id(target)),
            ConsensusMempoolMessage::Cleanup(r) => format!("(mempoolCleanup {})", r),
        })
        .collect();
    (frames, commits, mempool)
}

/// Canonical observation lines of the model's answer `(outs o1 … (st …))`.
fn canon_model(u: &Universe, node: u64, answer: &str) -> (Vec<String>, Vec<String>, Vec<String>, String) {
    let mut frames = Vec::new();
    let mut commits = Vec::new();
    let mut mempool = Vec::new();
    let mut st = String::new();
    let peers: Vec<u64> = (1..=u.n() as u64).filter(|j| *j != node).collect();
    for it in sexp::items(answer).into_iter().skip(1) {
        let parts = sexp::items(&it);
        match parts[0].as_str() {
            "vote" => frames.push(format!("(frame {} (vote {}))", parts[1], parts[2])),
            "timeout" | "tc" | "propose" => {
                for j in &peers {
                    frames.push(format!("(frame {} {})", j, it));
                }
            }
            "syncRequest" => {
                if parts[1] == "all" {
                    for j in &peers {
                        frames.push(format!("(frame {} (syncRequest {} {}))", j, parts[2], node));
                    }
                } else {
                    frames.push(format!("(frame {} (syncRequest {} {}))", parts[1], parts[2], node));
                }
            }
            "helperReply" => frames.push(format!("(frame {} (propose {}))", parts[1], parts[2])),
            "commit" => commits.push(it.clone()),
            "mempoolSync" | "mempoolCleanup" => mempool.push(it.clone()),
            "st" => st = it.clone(),
            _ => {}
        }
    }
    // a frame addressed to the node itself (e.g. a sync request to the author of its own block)
    // goes to its own port and is not observable at the peers
    let own = format!("(frame {} ", node);
    frames.retain(|f| !f.starts_with(&own));
    frames.sort();
    (frames, commits, mempool, st)
}

/// A scenario under construction / execution: the real node, the model, the monitor, the log.
pub struct Run<'a> {
    pub w: World,
    pub model: Option<Model>,
    pub mon: Monitor,
    pub rep: &'a mut Report,
    pub log: Vec<Stim>,
    pub meta: serde_json::Value,
    pub last: Reaction,
    pub diverged: bool,
    /// the round the MODEL of the node is in after the last compared step (gates directed oracles)
    pub model_round: Option<u64>,
}

impl<'a> Run<'a> {
    pub fn replay_json(&self) -> serde_json::Value {
        let mut m = self.meta.clone();
        m["engine"] = json!("cons");
        m["stimuli"] = json!(self.log.iter().map(|s| s.to_json()).collect::<Vec<_>>());
        m
    }

    /// Compare the boot reaction (the node may propose at once if it leads round 1).
    pub async fn boot_check(&mut self) {
        let r = self.w.reaction();
        let node = self.w.node;
        if let Some(model) = self.model.as_mut() {
            let ans = model.ask(&format!("(node-init {} {})", self.w.u.committee_sym(), node));
            self.compare(&r, &ans, "boot");
        }
        self.mon.observe(&mut self.w.u, None, &r, self.rep, &json!({}));
        self.last = r;
    }

    fn compare(&mut self, r: &Reaction, ans: &str, what: &str) {
        let node = self.w.node;
        let (rf, rc, rm) = canon_real(&mut self.w.u, r);
        let (mf, mc, mm, st) = canon_model(&self.w.u, node, ans);
        self.model_round = sexp::items(&st).get(1).and_then(|x| x.parse().ok());
        if std::env::var("HS_TRACE").is_ok() {
            let cut = |v: &Vec<String>| v.iter().map(|x| x.chars().take(90).collect::<String>()).collect::<Vec<_>>();
            eprintln!("#{} {} real: f={:?} c={:?} m={:?}\n      model: f={:?} c={:?} m={:?} {}", self.log.len(), what, cut(&rf), cut(&rc), cut(&rm), cut(&mf), cut(&mc), cut(&mm), st);
        }
        if (rf != mf || rc != mc || rm != mm) && !self.diverged {
            self.diverged = true;
            let detail = format!(
                "after stimulus #{} ({}): real frames={:?} commits={:?} mempool={:?} || model frames={:?} commits={:?} mempool={:?} state={}",
                self.log.len(), what, rf, rc, rm, mf, mc, mm, st
            );
            let replay = self.replay_json();
            let only_real: Vec<&String> = rf.iter().filter(|x| !mf.contains(x)).chain(rc.iter().filter(|x| !mc.contains(x))).chain(rm.iter().filter(|x| !mm.contains(x))).collect();
            let only_model: Vec<&String> = mf.iter().filter(|x| !rf.contains(x)).chain(mc.iter().filter(|x| !rc.contains(x))).chain(mm.iter().filter(|x| !rm.contains(x))).collect();
            let short = format!("after stimulus #{} ({}): only-real={:?} only-model={:?} real-commits={} model-commits={} state={}", self.log.len(), what, only_real, only_model, rc.len(), mc.len(), st);
            let _ = detail;
            self.rep.finding("impl_vs_model", "cons:lockstep-divergence", short, replay);
        }
    }

    /// Apply one stimulus to the real node and to the model, compare, run the monitors.
    pub async fn apply(&mut self, s: Stim) -> &Reaction {
        self.rep.hit(&format!("stim.{}", s.kind()));
        self.log.push(s.clone());
        match &s {
            Stim::Msg(m) => self.w.send(&clone_msg(m)).await,
            Stim::Raw(b) => self.w.send_raw(b.clone()).await,
            Stim::Timer => self.w.fire_timer().await,
            Stim::Digest(d) => {
                // the node's own mempool: `Processor` stores the batch, then hands the digest over
                self.w.write_batch(d, d.0.to_vec()).await;
                self.w.give_digest(d.clone()).await
            }
            Stim::Batch(d) => self.w.write_batch(d, d.0.to_vec()).await,
        }
        let r = self.w.reaction();
        if !self.diverged {
            if let Some(line) = stim_to_model(&mut self.w.u, &s) {
                if let Some(model) = self.model.as_mut() {
                    let ans = model.ask(&line);
                    self.compare(&r, &ans, s.kind());
                }
            } else if self.model.is_some() {
                // undecodable frame: the model does nothing, so the real node must be silent
                let (rf, rc, rm) = canon_real(&mut self.w.u, &r);
                if !(rf.is_empty() && rc.is_empty() && rm.is_empty()) {
                    self.diverged = true;
                    let replay = self.replay_json();
                    self.rep.finding("impl_vs_model", "cons:reaction-to-garbage", format!("{:?} {:?} {:?}", rf, rc, rm), replay);
                }
            }
        }
        let replay = self.replay_json();
        self.mon.observe(&mut self.w.u, Some(&s), &r, self.rep, &replay);
        for f in &r.frames {
            self.rep.hit(&format!(
                "out.{}",
                match f.1 {
                    ConsensusMessage::Propose(_) => "propose",
                    ConsensusMessage::Vote(_) => "vote",
                    ConsensusMessage::Timeout(_) => "timeout",
                    ConsensusMessage::TC(_) => "tc",
                    ConsensusMessage::SyncRequest(..) => "syncRequest",
                }
            ));
        }
        if !r.commits.is_empty() {
            self.rep.hit("out.commit");
        }
        self.last = r;
        &self.last
    }
}

// ------------------------------------------------------------------------------------------------
// The director: drives a plausible (and partly adversarial) protocol run around the node.

struct Director {
    rng: SmallRng,
    /// every block the harness knows (its own and the node's)
    blocks: HashMap<[u8; 32], Block>,
    /// highest certificate the (virtual) rest of the network holds
    tip: QC,
    /// a TC that justifies entering `round` (when the previous round timed out)
    tc: Option<TC>,
    /// next round to be proposed in
    round: u64,
    /// votes by the node seen on the wire, by (hash, round)
    node_votes: Vec<Vote>,
    /// proposals by the node, by round
    node_blocks: HashMap<u64, Block>,
    /// blocks the node has not been shown (withheld), available for later sync replies
    withheld: Vec<Block>,
    /// requests by the node that were not answered yet
    sync_reqs: Vec<Digest>,
    batch_reqs: Vec<Digest>,
    /// old messages for replay
    old: Vec<Stim>,
    /// all valid QCs ever formed (for stale timeouts etc.)
    qcs: Vec<QC>,
    batches_known: Vec<Digest>,
}

fn others(u: &Universe, node: u64) -> Vec<u64> {
    (1..=u.n() as u64).filter(|j| *j != node).collect()
}

/// A random set of signers (subset of `pool`) whose stake reaches the quorum; `None` if impossible.
fn quorum_subset(u: &Universe, rng: &mut SmallRng, pool: &[u64]) -> Option<Vec<u64>> {
    let mut p: Vec<u64> = pool.to_vec();
    p.shuffle(rng);
    let mut acc = 0;
    let mut out = Vec::new();
    for j in p {
        if u.stake(j) == 0 {
            continue;
        }
        out.push(j);
        acc += u.stake(j);
        if acc >= u.quorum() {
            return Some(out);
        }
    }
    None
}

impl Director {
    fn absorb(&mut self, run: &mut Run<'_>) {
        // learn from the node's reaction: its votes, proposals, requests
        let node = run.w.node;
        let frames: Vec<(u64, ConsensusMessage)> = run.last.frames.iter().map(|(j, m)| (*j, clone_msg(m))).collect();
        for (_, m) in frames {
            match m {
                ConsensusMessage::Vote(v) => {
                    if !self.node_votes.iter().any(|x| x.hash == v.hash && x.round == v.round) {
                        self.node_votes.push(v);
                    }
                }
                ConsensusMessage::Propose(b) => {
                    if run.w.u.key_id(&b.author) == node {
                        run.w.u.register_block(&b);
                        self.blocks.insert(b.digest().0, b.clone());
                        self.node_blocks.entry(b.round).or_insert(b);
                    }
                }
                ConsensusMessage::SyncRequest(d, _) => {
                    if !self.sync_reqs.contains(&d) {
                        self.sync_reqs.push(d);
                    }
                }
                _ => {}
            }
        }
        let mp: Vec<Digest> = run
            .last
            .mempool
            .iter()
            .flat_map(|m| match m {
                ConsensusMempoolMessage::Synchronize(ds, _) => ds.clone(),
                _ => vec![],
            })
            .collect();
        for d in mp {
            if !self.batch_reqs.contains(&d) {
                self.batch_reqs.push(d);
            }
        }
    }

    /// (C15, service liveness) Ask the node's helper for a block it has certainly stored (its newest
    /// delivery): the reply must come, whatever was sent before.  A helper that no longer answers —
    /// because it panicked OR because it is stuck on an earlier request — is a dead service.
    async fn probe_helper(&mut self, run: &mut Run<'_>) {
        let b = match run.mon.last_commit() {
            Some(b) => b,
            None => return,
        };
        if run.diverged {
            // the lock-step comparison stopped; the probe still judges the real node alone
        }
        let node = run.w.node;
        let origin = *others(&run.w.u, node).choose(&mut self.rng).unwrap();
        if run.w.u.stake(origin) == 0 {
            return;
        }
        let pk = run.w.u.pk(origin);
        let d = b.digest();
        run.rep.hit("probe.helper");
        self.give(run, Stim::Msg(ConsensusMessage::SyncRequest(d.clone(), pk))).await;
        let answered = run.last.frames.iter().any(|(to, m)| *to == origin && matches!(m, ConsensusMessage::Propose(x) if x.digest() == d));
        if !answered {
            let replay = run.replay_json();
            run.rep.finding(
                "impl_vs_property",
                "C15:service-dead:helper",
                format!("the node delivered block {} (round {}) but no longer answers a sync request for it from member {}: its helper task is dead or stuck after the inputs before", hex(&d.0[..6]), b.round, origin),
                replay,
            );
        }
    }

    async fn give(&mut self, run: &mut Run<'_>, s: Stim) {
        if matches!(s, Stim::Msg(_)) && self.old.len() < 200 {
            self.old.push(s.clone());
        }
        run.apply(s).await;
        self.absorb(run);
    }

    /// The block of `round` by its leader extending `self.tip` (made by the harness, or the node's own).
    fn make_block(&mut self, run: &mut Run<'_>, round: u64, payload: Vec<Digest>) -> Option<Block> {
        let leader = run.w.u.leader(round);
        if leader == run.w.node {
            return self.node_blocks.get(&round).cloned();
        }
        let tc = if self.tip.round + 1 == round { None } else { self.tc.clone() };
        let b = run.w.u.mk_block(leader, round, self.tip.clone(), tc, payload);
        self.blocks.insert(b.digest().0, b.clone());
        Some(b)
    }

    /// One protocol round seen from the rest of the network, with perturbations.
    async fn play_round(&mut self, run: &mut Run<'_>, adversarial: bool) {
        let node = run.w.node;
        let round = self.round;
        let n_payload = if self.rng.gen_bool(0.3) { self.rng.gen_range(1, 3) } else { 0 };
        let mut payload = Vec::new();
        for _ in 0..n_payload {
            let d = crate::sym::sha(&self.rng.gen::<u64>().to_le_bytes());
            self.batches_known.push(d.clone());
            // most batches are already available at the node
            if self.rng.gen_bool(0.6) {
                self.give(run, Stim::Batch(d.clone())).await;
            }
            payload.push(d);
        }
        let timeout_round = self.rng.gen_bool(if adversarial { 0.3 } else { 0.15 });
        if timeout_round {
            // the round times out: a quorum (incl. maybe the node itself) sends timeouts
            let mut entries: Vec<(u64, QC)> = Vec::new();
            let mut pool = others(&run.w.u, node);
            pool.shuffle(&mut self.rng);
            let node_participates = self.rng.gen_bool(0.5);
            if node_participates {
                self.give(run, Stim::Timer).await;
            }
            let mut acc = if node_participates { run.w.u.stake(node) } else { 0 };
            let mut senders = Vec::new();
            for j in pool {
                if acc >= run.w.u.quorum() && self.rng.gen_bool(0.7) {
                    break;
                }
                if run.w.u.stake(j) == 0 {
                    continue;
                }
                let hq = if self.rng.gen_bool(0.7) || self.qcs.is_empty() { self.tip.clone() } else { self.qcs.choose(&mut self.rng).unwrap().clone() };
                let hq = if hq.round < round { hq } else { self.tip.clone() };
                entries.push((j, hq));
                senders.push(j);
                acc += run.w.u.stake(j);
            }
            let as_tc = self.rng.gen_bool(0.3);
            let mut tc_entries: Vec<(u64, u64)> = entries.iter().map(|(j, q)| (*j, q.round)).collect();
            if as_tc && acc >= run.w.u.quorum() && !node_participates {
                let tc = run.w.u.mk_tc(round, &tc_entries);
                self.give(run, Stim::Msg(ConsensusMessage::TC(tc.clone()))).await;
                self.tc = Some(tc);
            } else {
                for (j, hq) in &entries {
                    let t = run.w.u.mk_timeout(round, hq.clone(), *j);
                    self.give(run, Stim::Msg(ConsensusMessage::Timeout(t))).await;
                }
                if node_participates {
                    tc_entries.push((node, 0)); // placeholder; the harness-side TC is built from others only
                    tc_entries.pop();
                }
                // the rest of the network forms its own TC from the harness-owned signers if they suffice
                let own: u64 = senders.iter().map(|j| run.w.u.stake(*j)).sum();
                if own >= run.w.u.quorum() {
                    self.tc = Some(run.w.u.mk_tc(round, &tc_entries));
                } else {
                    // look for the TC the node broadcast
                    let found = run.last.frames.iter().find_map(|(_, m)| match m {
                        ConsensusMessage::TC(t) if t.round == round => Some(t.clone()),
                        _ => None,
                    });
                    if let Some(t) = found {
                        self.tc = Some(t);
                    } else {
                        return; // round not over
                    }
                }
            }
            self.round = round + 1;
            return;
        }

        // normal round: the leader proposes
        let block = match self.make_block(run, round, payload) {
            Some(b) => b,
            None => {
                // the node leads but has not proposed (it lacks the certificate): show it one
                if self.tip.round + 1 == round && self.tip.round > 0 {
                    // hand it the votes / a block carrying the QC is impossible here; send the tip inside a timeout of a peer
                    let j = *others(&run.w.u, node).choose(&mut self.rng).unwrap();
                    let t = run.w.u.mk_timeout(self.tip.round + 1, self.tip.clone(), j);
                    self.give(run, Stim::Msg(ConsensusMessage::Timeout(t))).await;
                }
                if let Some(tc) = self.tc.clone() {
                    if tc.round + 1 == round {
                        self.give(run, Stim::Msg(ConsensusMessage::TC(tc))).await;
                    }
                }
                match self.node_blocks.get(&round).cloned() {
                    Some(b) => b,
                    None => {
                        // give up on this round: let it time out next
                        self.give(run, Stim::Timer).await;
                        return;
                    }
                }
            }
        };
        let leader = run.w.u.leader(round);
        let deliver = leader == node || self.rng.gen_bool(if adversarial { 0.7 } else { 0.85 });
        if leader != node {
            if deliver {
                if adversarial && self.rng.gen_bool(0.15) {
                    // equivocation: a second block of the same leader and round, first
                    let d = crate::sym::sha(&self.rng.gen::<u64>().to_le_bytes());
                    self.give(run, Stim::Batch(d.clone())).await;
                    let tc = if self.tip.round + 1 == round { None } else { self.tc.clone() };
                    let b2 = run.w.u.mk_block(leader, round, self.tip.clone(), tc, vec![d]);
                    self.blocks.insert(b2.digest().0, b2.clone());
                    self.give(run, Stim::Msg(ConsensusMessage::Propose(b2))).await;
                }
                self.give(run, Stim::Msg(ConsensusMessage::Propose(block.clone()))).await;
            } else {
                self.withheld.push(block.clone());
            }
        }
        // votes: a quorum of the others (plus the node's vote if it voted) certifies the block
        let next = run.w.u.leader(round + 1);
        let voters = match quorum_subset(&run.w.u, &mut self.rng, &others(&run.w.u, node)) {
            Some(v) => v,
            None => {
                // the others alone cannot reach the quorum: need the node's vote
                let mut v = others(&run.w.u, node);
                v.retain(|j| run.w.u.stake(*j) > 0);
                v
            }
        };
        let hash = block.digest();
        if next == node {
            // the node collects the votes itself
            let mut vs = voters.clone();
            vs.shuffle(&mut self.rng);
            for j in vs {
                let v = run.w.u.mk_vote(hash.clone(), round, j);
                self.give(run, Stim::Msg(ConsensusMessage::Vote(v.clone()))).await;
                if adversarial && self.rng.gen_bool(0.2) {
                    self.give(run, Stim::Msg(ConsensusMessage::Vote(v))).await; // duplicate
                }
            }
        }
        let mut signers = voters.clone();
        let own: u64 = signers.iter().map(|j| run.w.u.stake(*j)).sum();
        let mut qc = run.w.u.mk_qc(hash.clone(), round, &signers);
        if own < run.w.u.quorum() {
            // add the node's real vote if we saw it
            if let Some(v) = self.node_votes.iter().find(|v| v.hash == hash && v.round == round) {
                qc.votes.push((v.author, v.signature.clone()));
                signers.push(node);
            } else if let Some(b) = self.node_blocks.get(&(round + 1)) {
                qc = b.qc.clone();
            } else {
                // not certifiable: the round will time out
                return;
            }
        }
        self.qcs.push(qc.clone());
        self.tip = qc;
        self.tc = None;
        self.round = round + 1;
    }

    async fn answer_requests(&mut self, run: &mut Run<'_>) {
        // answer block sync requests (as a peer's helper would) and batch requests
        let reqs = std::mem::take(&mut self.sync_reqs);
        for d in reqs {
            if let Some(b) = self.blocks.get(&d.0).cloned() {
                if self.rng.gen_bool(0.8) {
                    self.give(run, Stim::Msg(ConsensusMessage::Propose(b))).await;
                } else {
                    self.sync_reqs.push(d);
                }
            }
        }
        let reqs = std::mem::take(&mut self.batch_reqs);
        for d in reqs {
            if self.rng.gen_bool(0.7) {
                self.give(run, Stim::Batch(d)).await;
            } else {
                self.batch_reqs.push(d);
            }
        }
    }

    /// Directed interleavings around the loop-back paths: a block is parked (missing payload or
    /// missing parent), the node's voting state moves on (own timeout, a vote for an equivocating
    /// block, a certificate for a later round), and then the parked block is released.
    async fn directed(&mut self, run: &mut Run<'_>, template: u32) {
        let node = run.w.node;
        // templates 7/8 need the node to lead the NEXT round, template 9 a block that extends the tip directly
        let tries = 2 * run.w.u.n() + 2;
        for _ in 0..tries {
            let ready = match template {
                7 | 8 | 13 => run.w.u.leader(self.round + 1) == node && run.w.u.leader(self.round) != node,
                9 => self.tip.round + 1 == self.round && run.w.u.leader(self.round) != node,
                12 => self.tip.round + 1 == self.round && run.w.u.leader(self.round + 2) == node,
                14 => self.tip.round + 1 == self.round && run.w.u.leader(self.round) != node && run.w.u.leader(self.round + 1) != node,
                15 => self.tip.round + 1 == self.round && run.w.u.leader(self.round + 1) == node,
                _ => true,
            };
            if ready || run.diverged {
                break;
            }
            self.play_round(run, false).await;
        }
        let round = self.round;
        let leader = run.w.u.leader(round);
        run.rep.hit(&format!("template.{}", template));
        if leader == node {
            return;
        }
        let tc = if self.tip.round + 1 == round { None } else { self.tc.clone() };
        let fresh = |rng: &mut SmallRng| crate::sym::sha(&rng.gen::<u64>().to_le_bytes());
        match template {
            0 => {
                // parked on payload, own timeout, then the batch arrives
                let d = fresh(&mut self.rng);
                let a = run.w.u.mk_block(leader, round, self.tip.clone(), tc, vec![d.clone()]);
                self.blocks.insert(a.digest().0, a.clone());
                self.give(run, Stim::Msg(ConsensusMessage::Propose(a))).await;
                self.give(run, Stim::Timer).await;
                self.give(run, Stim::Batch(d)).await;
            }
            1 => {
                // parked on payload, an equivocating block of the same round is voted, then the batch arrives
                let d = fresh(&mut self.rng);
                let a = run.w.u.mk_block(leader, round, self.tip.clone(), tc.clone(), vec![d.clone()]);
                let b = run.w.u.mk_block(leader, round, self.tip.clone(), tc, vec![]);
                self.blocks.insert(a.digest().0, a.clone());
                self.blocks.insert(b.digest().0, b.clone());
                self.give(run, Stim::Msg(ConsensusMessage::Propose(a))).await;
                self.give(run, Stim::Msg(ConsensusMessage::Propose(b))).await;
                self.give(run, Stim::Batch(d)).await;
            }
            2 | 3 => {
                // parked on a missing parent; own timeout (2) or an equivocating sibling (3); then the parent arrives
                let next = run.w.u.leader(round + 1);
                if next == node {
                    return;
                }
                let p = run.w.u.mk_block(leader, round, self.tip.clone(), tc, vec![]);
                self.blocks.insert(p.digest().0, p.clone());
                let signers = match quorum_subset(&run.w.u, &mut self.rng, &others(&run.w.u, node)) {
                    Some(s) => s,
                    None => return,
                };
                let qc = run.w.u.mk_qc(p.digest(), round, &signers);
                let c = run.w.u.mk_block(next, round + 1, qc.clone(), None, vec![]);
                self.blocks.insert(c.digest().0, c.clone());
                self.give(run, Stim::Msg(ConsensusMessage::Propose(c))).await;
                if template == 2 {
                    self.give(run, Stim::Timer).await;
                } else {
                    let d = fresh(&mut self.rng);
                    self.give(run, Stim::Batch(d.clone())).await;
                    let c2 = run.w.u.mk_block(next, round + 1, qc.clone(), None, vec![d]);
                    self.blocks.insert(c2.digest().0, c2.clone());
                    self.give(run, Stim::Msg(ConsensusMessage::Propose(c2))).await;
                }
                self.give(run, Stim::Msg(ConsensusMessage::Propose(p))).await;
                self.qcs.push(qc.clone());
                self.tip = qc;
                self.tc = None;
                self.round = round + 1;
            }
            4 => {
                // parked on payload while a TC for its round arrives, then the batch
                let d = fresh(&mut self.rng);
                let a = run.w.u.mk_block(leader, round, self.tip.clone(), tc, vec![d.clone()]);
                self.blocks.insert(a.digest().0, a.clone());
                self.give(run, Stim::Msg(ConsensusMessage::Propose(a))).await;
                if let Some(s) = quorum_subset(&run.w.u, &mut self.rng, &others(&run.w.u, node)) {
                    let entries: Vec<(u64, u64)> = s.iter().map(|j| (*j, self.tip.round)).collect();
                    let t = run.w.u.mk_tc(round, &entries);
                    self.give(run, Stim::Msg(ConsensusMessage::TC(t.clone()))).await;
                    self.tc = Some(t);
                    self.round = round + 1;
                }
                self.give(run, Stim::Batch(d)).await;
            }
            16 => {
                // the SAME missing batch in two different proposals: A (round r) is parked on batch d, a
                // TC ends the round, and the next leader proposes d again on top of the TC; the second
                // block must be parked too (and not be voted) until d is stored
                let next = run.w.u.leader(round + 1);
                if next == node {
                    return;
                }
                let d = fresh(&mut self.rng);
                let a = run.w.u.mk_block(leader, round, self.tip.clone(), tc, vec![d.clone()]);
                self.blocks.insert(a.digest().0, a.clone());
                self.give(run, Stim::Msg(ConsensusMessage::Propose(a))).await;
                if let Some(s) = quorum_subset(&run.w.u, &mut self.rng, &others(&run.w.u, node)) {
                    let entries: Vec<(u64, u64)> = s.iter().map(|j| (*j, self.tip.round)).collect();
                    let t = run.w.u.mk_tc(round, &entries);
                    self.give(run, Stim::Msg(ConsensusMessage::TC(t.clone()))).await;
                    let b = run.w.u.mk_block(next, round + 1, self.tip.clone(), Some(t.clone()), vec![d.clone()]);
                    self.blocks.insert(b.digest().0, b.clone());
                    self.give(run, Stim::Msg(ConsensusMessage::Propose(b))).await;
                    self.tc = Some(t);
                    self.round = round + 1;
                }
                self.give(run, Stim::Batch(d)).await;
            }
            17 => {
                // two view changes in a row without a new QC (TC(r), TC(r+1): the node is in r+2 with its
                // old high QC), the node times out in r+2, and then a peer's timeout of r+2 carries a QC of
                // the INTERMEDIATE round r: the high QC moves up, the round must not move back
                let signers = match quorum_subset(&run.w.u, &mut self.rng, &others(&run.w.u, node)) {
                    Some(s) => s,
                    None => return,
                };
                let p = run.w.u.mk_block(leader, round, self.tip.clone(), tc, vec![]);
                self.blocks.insert(p.digest().0, p.clone());
                let qc_mid = run.w.u.mk_qc(p.digest(), round, &signers);
                let entries: Vec<(u64, u64)> = signers.iter().map(|j| (*j, self.tip.round)).collect();
                let t1 = run.w.u.mk_tc(round, &entries);
                let t2 = run.w.u.mk_tc(round + 1, &entries);
                self.give(run, Stim::Msg(ConsensusMessage::TC(t1))).await;
                self.give(run, Stim::Msg(ConsensusMessage::TC(t2.clone()))).await;
                self.give(run, Stim::Timer).await;
                let j = signers[0];
                let t = run.w.u.mk_timeout(round + 2, qc_mid, j);
                self.give(run, Stim::Msg(ConsensusMessage::Timeout(t))).await;
                self.give(run, Stim::Timer).await;
                self.tc = Some(t2);
                self.round = round + 2;
            }
            5 => {
                // a view change that leaves the node one QC behind: it learns TC(round) reporting the
                // tip, then the next leader's block carrying the tip's QC and that TC, then times out
                let next = run.w.u.leader(round + 1);
                if next == node {
                    return;
                }
                if let Some(s) = quorum_subset(&run.w.u, &mut self.rng, &others(&run.w.u, node)) {
                    let entries: Vec<(u64, u64)> = s.iter().map(|j| (*j, self.tip.round)).collect();
                    let t = run.w.u.mk_tc(round, &entries);
                    self.give(run, Stim::Msg(ConsensusMessage::TC(t.clone()))).await;
                    let b = run.w.u.mk_block(next, round + 1, self.tip.clone(), Some(t.clone()), vec![]);
                    self.blocks.insert(b.digest().0, b.clone());
                    self.give(run, Stim::Msg(ConsensusMessage::Propose(b))).await;
                    self.give(run, Stim::Timer).await;
                    self.tc = Some(t);
                    self.round = round + 1;
                }
            }
            6 => {
                // Attack on agreement (a Byzantine leader plus slow honest nodes): the node votes B_r,
                // times out of rounds r and r+1, and only then sees B_{r+1} (which carries QC_r).  If it
                // still votes for it, its vote completes QC_{r+1}, B_r gets committed, and a conflicting
                // branch justified by TC_{r+1} (all reporting the old high QC) gets committed as well.
                let r = round;
                let n = run.w.u.n() as u64;
                if (r..=r + 4).any(|x| run.w.u.leader(x) == node) || run.w.u.leader(r + 1 + n) == node {
                    return;
                }
                let oth = others(&run.w.u, node);
                // a minority of the others that reaches the quorum only together with the node
                let mut minority: Vec<u64> = vec![];
                let mut acc = 0;
                for j in &oth {
                    if acc + run.w.u.stake(*j) + run.w.u.stake(node) <= run.w.u.quorum() + 0 && acc + run.w.u.stake(*j) < run.w.u.quorum() {
                        minority.push(*j);
                        acc += run.w.u.stake(*j);
                    }
                }
                if acc + run.w.u.stake(node) < run.w.u.quorum() || acc >= run.w.u.quorum() {
                    return;
                }
                let base_qc = self.tip.clone();
                let b_r = run.w.u.mk_block(run.w.u.leader(r), r, base_qc.clone(), tc.clone(), vec![]);
                self.blocks.insert(b_r.digest().0, b_r.clone());
                self.give(run, Stim::Msg(ConsensusMessage::Propose(b_r.clone()))).await;
                let all_others_q = match quorum_subset(&run.w.u, &mut self.rng, &oth) {
                    Some(s) => s,
                    None => return,
                };
                let qc_r = run.w.u.mk_qc(b_r.digest(), r, &all_others_q);
                let b_r1 = run.w.u.mk_block(run.w.u.leader(r + 1), r + 1, qc_r.clone(), None, vec![]);
                self.blocks.insert(b_r1.digest().0, b_r1.clone());
                // the node times out of round r (with the others) and of round r+1 (alone so far)
                self.give(run, Stim::Timer).await;
                for j in &all_others_q {
                    let t = run.w.u.mk_timeout(r, base_qc.clone(), *j);
                    self.give(run, Stim::Msg(ConsensusMessage::Timeout(t))).await;
                }
                self.give(run, Stim::Timer).await;
                let own_timeout = run.last.frames.iter().find_map(|(_, m)| match m {
                    ConsensusMessage::Timeout(t) if t.round == r + 1 => Some((t.author, t.signature.clone(), t.high_qc.round)),
                    _ => None,
                });
                // the delayed block arrives
                self.give(run, Stim::Msg(ConsensusMessage::Propose(b_r1.clone()))).await;
                let late_vote = run.last.frames.iter().find_map(|(_, m)| match m {
                    ConsensusMessage::Vote(v) if v.round == r + 1 && v.hash == b_r1.digest() => Some(v.clone()),
                    _ => None,
                });
                if let (Some(v), Some(own_to)) = (late_vote, own_timeout) {
                    // QC_{r+1} = the minority + the node's late vote; shown inside a far-future block
                    let mut qc_r1 = run.w.u.mk_qc(b_r1.digest(), r + 1, &minority);
                    qc_r1.votes.push((v.author, v.signature.clone()));
                    let far = r + 1 + n;
                    let b_far = run.w.u.mk_block(run.w.u.leader(far), far, qc_r1, None, vec![]);
                    self.blocks.insert(b_far.digest().0, b_far.clone());
                    self.give(run, Stim::Msg(ConsensusMessage::Propose(b_far))).await;
                    // the conflicting branch on top of the old tip, justified by TC_{r+1}
                    let mut tc_r1 = run.w.u.mk_tc(r + 1, &minority.iter().map(|j| (*j, base_qc.round)).collect::<Vec<_>>());
                    tc_r1.votes.push(own_to);
                    let c2 = run.w.u.mk_block(run.w.u.leader(r + 2), r + 2, base_qc.clone(), Some(tc_r1), vec![]);
                    self.blocks.insert(c2.digest().0, c2.clone());
                    self.give(run, Stim::Msg(ConsensusMessage::Propose(c2.clone()))).await;
                    let mut s3 = all_others_q.clone();
                    s3.truncate(all_others_q.len());
                    let qc_c2 = run.w.u.mk_qc(c2.digest(), r + 2, &all_others_q);
                    let c3 = run.w.u.mk_block(run.w.u.leader(r + 3), r + 3, qc_c2, None, vec![]);
                    self.blocks.insert(c3.digest().0, c3.clone());
                    self.give(run, Stim::Msg(ConsensusMessage::Propose(c3.clone()))).await;
                    let qc_c3 = run.w.u.mk_qc(c3.digest(), r + 3, &all_others_q);
                    let c4 = run.w.u.mk_block(run.w.u.leader(r + 4), r + 4, qc_c3.clone(), None, vec![]);
                    self.blocks.insert(c4.digest().0, c4.clone());
                    self.give(run, Stim::Msg(ConsensusMessage::Propose(c4))).await;
                    self.qcs.push(qc_c3.clone());
                    self.tip = qc_c3;
                    self.tc = None;
                    self.round = r + 4;
                } else {
                    // the honest outcome: no late vote; the network goes on from TC_{r+1} if it can
                    self.round = r + 1;
                    self.tc = None;
                }
            }
            7 => {
                // (C09) a QC and a TC of the same round race towards the node, leader of the next round:
                // it assembles QC(r) from votes, proposes B(r+1), its mempool delivers another digest,
                // and then a valid but stale TC(r) arrives.  It must not propose for round r+1 again.
                let next = run.w.u.leader(round + 1);
                if next != node {
                    return;
                }
                let b = run.w.u.mk_block(leader, round, self.tip.clone(), tc, vec![]);
                self.blocks.insert(b.digest().0, b.clone());
                self.give(run, Stim::Msg(ConsensusMessage::Propose(b.clone()))).await;
                let voters = match quorum_subset(&run.w.u, &mut self.rng, &others(&run.w.u, node)) {
                    Some(v) => v,
                    None => return,
                };
                for j in &voters {
                    let v = run.w.u.mk_vote(b.digest(), round, *j);
                    self.give(run, Stim::Msg(ConsensusMessage::Vote(v))).await;
                }
                let d = fresh(&mut self.rng);
                self.give(run, Stim::Digest(d)).await;
                let entries: Vec<(u64, u64)> = voters.iter().map(|j| (*j, self.tip.round)).collect();
                let t = run.w.u.mk_tc(round, &entries);
                self.give(run, Stim::Msg(ConsensusMessage::TC(t))).await;
                // … and so do a whole quorum of (re-sent) votes and of timeouts for the finished round
                let d2 = fresh(&mut self.rng);
                self.give(run, Stim::Digest(d2)).await;
                for j in &voters {
                    let v = run.w.u.mk_vote(b.digest(), round, *j);
                    self.give(run, Stim::Msg(ConsensusMessage::Vote(v))).await;
                }
                for j in &voters {
                    let to = run.w.u.mk_timeout(round, self.tip.clone(), *j);
                    self.give(run, Stim::Msg(ConsensusMessage::Timeout(to))).await;
                }
                if let Some(nb) = self.node_blocks.get(&(round + 1)).cloned() {
                    self.qcs.push(nb.qc.clone());
                    self.tip = nb.qc;
                    self.tc = None;
                    self.round = round + 1;
                }
            }
            8 => {
                // (C19/C04) the node collects the votes of this round; before it has voted itself, a
                // minority of genuine votes arrives and then a vote that merely NAMES the node as author
                // (signed by someone else, or junk).  No QC may come out of that.
                let next = run.w.u.leader(round + 1);
                if next != node {
                    return;
                }
                let b = run.w.u.mk_block(leader, round, self.tip.clone(), tc, vec![]);
                self.blocks.insert(b.digest().0, b.clone());
                let mut minority: Vec<u64> = vec![];
                let mut acc = 0;
                for j in others(&run.w.u, node) {
                    if run.w.u.stake(j) > 0 && acc + run.w.u.stake(j) < run.w.u.quorum() {
                        minority.push(j);
                        acc += run.w.u.stake(j);
                    }
                }
                if minority.is_empty() || acc + run.w.u.stake(node) < run.w.u.quorum() {
                    return;
                }
                for j in &minority {
                    let v = run.w.u.mk_vote(b.digest(), round, *j);
                    self.give(run, Stim::Msg(ConsensusMessage::Vote(v))).await;
                }
                // a correctly signed vote of a key that is not in the committee: no stake, must not be counted
                let outsider = run.w.u.mk_vote(b.digest(), round, 100);
                self.give(run, Stim::Msg(ConsensusMessage::Vote(outsider))).await;
                let mut forged = run.w.u.mk_vote(b.digest(), round, minority[0]);
                forged.author = run.w.u.pk(node);
                if self.rng.gen_bool(0.5) {
                    forged.signature = run.w.u.junk_sig();
                }
                self.give(run, Stim::Msg(ConsensusMessage::Vote(forged))).await;
                // the round then goes on normally: block, remaining votes
                self.give(run, Stim::Msg(ConsensusMessage::Propose(b.clone()))).await;
                for j in others(&run.w.u, node) {
                    if !minority.contains(&j) && run.w.u.stake(j) > 0 {
                        let v = run.w.u.mk_vote(b.digest(), round, j);
                        self.give(run, Stim::Msg(ConsensusMessage::Vote(v))).await;
                    }
                }
                if let Some(nb) = self.node_blocks.get(&(round + 1)).cloned() {
                    self.qcs.push(nb.qc.clone());
                    self.tip = nb.qc;
                    self.tc = None;
                    self.round = round + 1;
                }
            }
            9 => {
                // (C04) the honest block of this round, directly extending its QC, with a TC that does
                // not verify spliced on (the TC is not covered by the block digest): the copy must have
                // no effect, and the honest block that follows is handled as if nothing had happened.
                if self.tip.round + 1 != round {
                    return;
                }
                let j = *others(&run.w.u, node).choose(&mut self.rng).unwrap();
                let far = round + self.rng.gen_range(0, 6);
                let bogus = match self.rng.gen_range(0, 3) {
                    0 => run.w.u.mk_tc(far, &[(j, 0)]),
                    1 => run.w.u.mk_tc(far, &[(j, 0), (j, 0), (j, 0), (j, 0)]),
                    _ => {
                        let mut t = run.w.u.mk_tc(far, &others(&run.w.u, node).iter().map(|x| (*x, 0)).collect::<Vec<_>>());
                        for v in t.votes.iter_mut() {
                            v.1 = run.w.u.junk_sig();
                        }
                        t
                    }
                };
                let spliced = run.w.u.mk_block(leader, round, self.tip.clone(), Some(bogus), vec![]);
                self.give(run, Stim::Msg(ConsensusMessage::Propose(spliced))).await;
                self.give(run, Stim::Timer).await;
            }
            13 => {
                // (C04 last clause / C19 "exactly when") A vote that NAMES member `a` but does not verify
                // reaches the node, which collects the votes of this round, before a's genuine vote.
                // It must be rejected without a trace: the genuine votes of a minimal quorum of the
                // others (which contains `a`) must still produce the QC, and the node proposes.
                let next = run.w.u.leader(round + 1);
                if next != node || run.diverged || run.model.is_none() || run.model_round.map_or(true, |r| r > round) {
                    return;
                }
                let b = run.w.u.mk_block(leader, round, self.tip.clone(), tc, vec![]);
                self.blocks.insert(b.digest().0, b.clone());
                let mut quorum_set: Vec<u64> = vec![];
                let mut acc = 0;
                for j in others(&run.w.u, node) {
                    if run.w.u.stake(j) > 0 && acc < run.w.u.quorum() {
                        quorum_set.push(j);
                        acc += run.w.u.stake(j);
                    }
                }
                if acc < run.w.u.quorum() {
                    return;
                }
                let a = quorum_set[0];
                let mut forged = run.w.u.mk_vote(b.digest(), round, a);
                forged.signature = if self.rng.gen_bool(0.5) {
                    run.w.u.junk_sig()
                } else {
                    // a's genuine signature, but over a vote for another block of the round
                    let other = crate::sym::sha(&self.rng.gen::<u64>().to_le_bytes());
                    run.w.u.mk_vote(other, round, a).signature
                };
                self.give(run, Stim::Msg(ConsensusMessage::Vote(forged))).await;
                for j in &quorum_set {
                    let v = run.w.u.mk_vote(b.digest(), round, *j);
                    self.give(run, Stim::Msg(ConsensusMessage::Vote(v))).await;
                }
                // (the monitor judges this: a quorum of valid votes must yield the QC and the proposal)
                // let the round go on normally
                self.give(run, Stim::Msg(ConsensusMessage::Propose(b.clone()))).await;
                if let Some(nb) = self.node_blocks.get(&(round + 1)).cloned() {
                    self.qcs.push(nb.qc.clone());
                    self.tip = nb.qc;
                    self.tc = None;
                    self.round = round + 1;
                }
            }
            14 => {
                // (C01, third attack / C04) A "QC" of round 0 with no votes that names a STORED block instead
                // of genesis.  Byzantine X (leader of R0+1 and of R0+1+n) holds the only QC for B_a, shows
                // its B_x to the node alone, and later proposes a far-future block whose QC field is
                // {hash: B_x, round: 0, votes: []}.  If that passes for genesis-like, the node commits B_a
                // on an uncertified B_x, while everybody else builds (and commits) a branch on the old tip.
                let r0 = round;
                let n = run.w.u.n() as u64;
                let x = run.w.u.leader(r0 + 1);
                if x == node || run.w.u.leader(r0) == node || (r0 + 2..=r0 + 5).any(|k| run.w.u.leader(k) == node) || self.tip.round + 1 != r0 {
                    return;
                }
                let oth = others(&run.w.u, node);
                let base = self.tip.clone();
                let b_a = run.w.u.mk_block(run.w.u.leader(r0), r0, base.clone(), None, vec![]);
                self.blocks.insert(b_a.digest().0, b_a.clone());
                self.give(run, Stim::Msg(ConsensusMessage::Propose(b_a.clone()))).await;
                let signers = match quorum_subset(&run.w.u, &mut self.rng, &oth) {
                    Some(s) => s,
                    None => return,
                };
                let qc_a = run.w.u.mk_qc(b_a.digest(), r0, &signers);
                let b_x = run.w.u.mk_block(x, r0 + 1, qc_a.clone(), None, vec![]);
                self.blocks.insert(b_x.digest().0, b_x.clone());
                self.give(run, Stim::Msg(ConsensusMessage::Propose(b_x.clone()))).await;
                // the far-future block of X with the fake round-0 certificate
                let fake = QC { hash: b_x.digest(), round: 0, votes: vec![] };
                let far = r0 + 1 + n;
                let b_far = run.w.u.mk_block(x, far, fake, None, vec![]);
                self.give(run, Stim::Msg(ConsensusMessage::Propose(b_far))).await;
                // everybody else: rounds R0+1 (they never saw B_x) times out, the next leaders build on `base`
                let entries: Vec<(u64, u64)> = signers.iter().map(|j| (*j, base.round)).collect();
                let tc1 = run.w.u.mk_tc(r0 + 1, &entries);
                let c1 = run.w.u.mk_block(run.w.u.leader(r0 + 2), r0 + 2, base.clone(), Some(tc1), vec![]);
                self.blocks.insert(c1.digest().0, c1.clone());
                self.give(run, Stim::Msg(ConsensusMessage::Propose(c1.clone()))).await;
                let qc1 = run.w.u.mk_qc(c1.digest(), r0 + 2, &signers);
                let c2 = run.w.u.mk_block(run.w.u.leader(r0 + 3), r0 + 3, qc1, None, vec![]);
                self.blocks.insert(c2.digest().0, c2.clone());
                self.give(run, Stim::Msg(ConsensusMessage::Propose(c2.clone()))).await;
                let qc2 = run.w.u.mk_qc(c2.digest(), r0 + 3, &signers);
                let c3 = run.w.u.mk_block(run.w.u.leader(r0 + 4), r0 + 4, qc2.clone(), None, vec![]);
                self.blocks.insert(c3.digest().0, c3.clone());
                self.give(run, Stim::Msg(ConsensusMessage::Propose(c3.clone()))).await;
                let qc3 = run.w.u.mk_qc(c3.digest(), r0 + 4, &signers);
                self.qcs.push(qc2);
                self.qcs.push(qc3.clone());
                self.tip = qc3;
                self.tc = None;
                self.round = r0 + 5;
            }
            15 => {
                // (C05, "nothing else causes a commit") The leader equivocates: the node votes b_alt and can
                // no longer vote b; b gets genuine votes worth quorum − stake(node) only, and then a vote
                // that merely NAMES the node as author.  No QC for b exists, so b's parent must not commit.
                let next = run.w.u.leader(round + 1);
                if next != node || self.tip.round + 1 != round {
                    return;
                }
                let d = fresh(&mut self.rng);
                self.give(run, Stim::Batch(d.clone())).await;
                let b_alt = run.w.u.mk_block(leader, round, self.tip.clone(), None, vec![d]);
                let b = run.w.u.mk_block(leader, round, self.tip.clone(), None, vec![]);
                self.blocks.insert(b_alt.digest().0, b_alt.clone());
                self.blocks.insert(b.digest().0, b.clone());
                self.give(run, Stim::Msg(ConsensusMessage::Propose(b_alt))).await;
                self.give(run, Stim::Msg(ConsensusMessage::Propose(b.clone()))).await;
                let (sv, q) = (run.w.u.stake(node), run.w.u.quorum());
                let mut part: Vec<u64> = vec![];
                let mut acc = 0;
                for j in others(&run.w.u, node) {
                    if run.w.u.stake(j) > 0 && acc + run.w.u.stake(j) + sv <= q && acc + run.w.u.stake(j) < q {
                        part.push(j);
                        acc += run.w.u.stake(j);
                    }
                }
                if part.is_empty() || acc + sv < q {
                    return;
                }
                for j in &part {
                    let v = run.w.u.mk_vote(b.digest(), round, *j);
                    self.give(run, Stim::Msg(ConsensusMessage::Vote(v))).await;
                }
                let mut forged = run.w.u.mk_vote(b.digest(), round, part[0]);
                forged.author = run.w.u.pk(node);
                self.give(run, Stim::Msg(ConsensusMessage::Vote(forged))).await;
                // the round ends in a timeout for everybody (no QC for either block)
                self.give(run, Stim::Timer).await;
            }
            12 => {
                // (C01, second attack) A Byzantine leader X of round R+1 holds the only QC for B_R and
                // shows its block B_{R+1} to the node V alone (V leads R+2), together with its own vote
                // for B_{R+1} SEVERAL times.  If V counts a signer twice it "certifies" B_{R+1} with a
                // sub-quorum, proposes on top and commits B_R — while everybody else, who never saw a
                // QC for B_R, times out and builds a branch on B_{R-1} that gets committed as well.
                let r0 = round;
                let x = run.w.u.leader(r0 + 1);
                if run.w.u.leader(r0 + 2) != node || x == node || run.w.u.leader(r0) == node || (r0 + 3..=r0 + 5).any(|k| run.w.u.leader(k) == node) {
                    return;
                }
                if self.tip.round + 1 != r0 {
                    return;
                }
                let oth = others(&run.w.u, node);
                let base = self.tip.clone();
                // round R0: everybody sees and votes B_a; only X learns the QC
                let b_a = run.w.u.mk_block(run.w.u.leader(r0), r0, base.clone(), None, vec![]);
                self.blocks.insert(b_a.digest().0, b_a.clone());
                self.give(run, Stim::Msg(ConsensusMessage::Propose(b_a.clone()))).await;
                let signers = match quorum_subset(&run.w.u, &mut self.rng, &oth) {
                    Some(s) => s,
                    None => return,
                };
                let qc_a = run.w.u.mk_qc(b_a.digest(), r0, &signers);
                // round R0+1: X's block, shown to V only, preceded by X's vote as often as needed to
                // reach the threshold together with V's own vote (never with distinct signers)
                let b_x = run.w.u.mk_block(x, r0 + 1, qc_a.clone(), None, vec![]);
                self.blocks.insert(b_x.digest().0, b_x.clone());
                let (sx, sv, q) = (run.w.u.stake(x), run.w.u.stake(node), run.w.u.quorum());
                if sx == 0 || sx + sv >= q {
                    return;
                }
                let copies = (q - sv + sx - 1) / sx;
                for _ in 0..copies {
                    let v = run.w.u.mk_vote(b_x.digest(), r0 + 1, x);
                    self.give(run, Stim::Msg(ConsensusMessage::Vote(v))).await;
                }
                self.give(run, Stim::Msg(ConsensusMessage::Propose(b_x.clone()))).await;
                // everybody else never saw B_x nor a QC for B_a: rounds R0+1 and R0+2 time out with the
                // old high QC, and the leaders of R0+3.. build on `base`
                let entries: Vec<(u64, u64)> = signers.iter().map(|j| (*j, base.round)).collect();
                let tc2 = run.w.u.mk_tc(r0 + 2, &entries);
                let c1 = run.w.u.mk_block(run.w.u.leader(r0 + 3), r0 + 3, base.clone(), Some(tc2.clone()), vec![]);
                self.blocks.insert(c1.digest().0, c1.clone());
                self.give(run, Stim::Msg(ConsensusMessage::Propose(c1.clone()))).await;
                let qc1 = run.w.u.mk_qc(c1.digest(), r0 + 3, &signers);
                let c2 = run.w.u.mk_block(run.w.u.leader(r0 + 4), r0 + 4, qc1, None, vec![]);
                self.blocks.insert(c2.digest().0, c2.clone());
                self.give(run, Stim::Msg(ConsensusMessage::Propose(c2.clone()))).await;
                let qc2 = run.w.u.mk_qc(c2.digest(), r0 + 4, &signers);
                let c3 = run.w.u.mk_block(run.w.u.leader(r0 + 5), r0 + 5, qc2.clone(), None, vec![]);
                self.blocks.insert(c3.digest().0, c3.clone());
                self.give(run, Stim::Msg(ConsensusMessage::Propose(c3.clone()))).await;
                let qc3 = run.w.u.mk_qc(c3.digest(), r0 + 5, &signers);
                self.qcs.push(qc2);
                self.qcs.push(qc3.clone());
                self.tip = qc3;
                self.tc = None;
                self.round = r0 + 6;
            }
            10 => {
                // (C03 rule 2, second clause) a view change whose TC reports the tip, and a leader that
                // proposes on top of an OLDER QC with that TC: the block's QC is below the highest QC
                // the TC reports, so it must not be voted; the proper block (on the tip) then is.
                let next = run.w.u.leader(round + 1);
                if next == node || self.qcs.len() < 2 {
                    return;
                }
                let old = self.qcs[self.qcs.len() - 2].clone();
                if old.round >= self.tip.round {
                    return;
                }
                if let Some(s) = quorum_subset(&run.w.u, &mut self.rng, &others(&run.w.u, node)) {
                    let entries: Vec<(u64, u64)> = s.iter().map(|j| (*j, self.tip.round)).collect();
                    let t = run.w.u.mk_tc(round, &entries);
                    self.give(run, Stim::Msg(ConsensusMessage::TC(t.clone()))).await;
                    let bad = run.w.u.mk_block(next, round + 1, old, Some(t.clone()), vec![]);
                    self.blocks.insert(bad.digest().0, bad.clone());
                    self.give(run, Stim::Msg(ConsensusMessage::Propose(bad))).await;
                    self.tc = Some(t);
                    self.round = round + 1;
                }
            }
            _ => {}
        }
    }

    async fn mischief(&mut self, run: &mut Run<'_>) {
        let node = run.w.node;
        let u_n = run.w.u.n() as u64;
        match self.rng.gen_range(0, 15) {
            0 => {
                // replay an old message
                if let Some(s) = self.old.choose(&mut self.rng).cloned() {
                    self.give(run, s).await;
                }
            }
            1 => {
                // a block by the wrong leader
                let round = self.round;
                let wrong = (run.w.u.leader(round) % u_n) + 1;
                if wrong != node {
                    // half of the time the block names a batch the node does not hold, and the batch
                    // arrives afterwards: the rejection must not depend on the payload check (a block
                    // parked for its payload comes back through the loop-back, past `handle_proposal`)
                    let late = if self.rng.gen_bool(0.5) { Some(crate::sym::sha(&self.rng.gen::<u64>().to_le_bytes())) } else { None };
                    let tc = if self.tip.round + 1 == round { None } else { self.tc.clone() };
                    let b = run.w.u.mk_block(wrong, round, self.tip.clone(), tc, late.iter().cloned().collect());
                    self.blocks.insert(b.digest().0, b.clone());
                    self.give(run, Stim::Msg(ConsensusMessage::Propose(b))).await;
                    if let Some(d) = late {
                        self.give(run, Stim::Batch(d)).await;
                    }
                }
            }
            2 => {
                // a block with a sub-quorum QC
                let round = self.round;
                let leader = run.w.u.leader(round);
                if leader != node && self.tip.votes.len() > 1 {
                    let mut qc = self.tip.clone();
                    qc.votes.pop();
                    let mut b = Block { qc, tc: None, author: run.w.u.pk(leader), round, payload: vec![], signature: Default::default() };
                    run.w.u.register_block(&b);
                    b.signature = run.w.u.sign(leader, crate::sym::Content::Block(b.digest()));
                    self.give(run, Stim::Msg(ConsensusMessage::Propose(b))).await;
                }
            }
            3 => {
                // a vote with a bad signature / from an outsider
                let hash = self.tip.hash.clone();
                let mut v = run.w.u.mk_vote(hash, self.round.max(1), *others(&run.w.u, node).choose(&mut self.rng).unwrap());
                if self.rng.gen_bool(0.5) {
                    v.signature = run.w.u.junk_sig();
                } else {
                    v = run.w.u.mk_vote(v.hash.clone(), v.round, 100);
                }
                self.give(run, Stim::Msg(ConsensusMessage::Vote(v))).await;
            }
            4 => {
                // a timeout for a future round carrying the tip
                let j = *others(&run.w.u, node).choose(&mut self.rng).unwrap();
                let t = run.w.u.mk_timeout(self.round + self.rng.gen_range(0, 3), self.tip.clone(), j);
                self.give(run, Stim::Msg(ConsensusMessage::Timeout(t))).await;
            }
            5 => {
                // a sync request to the node's helper: known block, unknown digest
                let origin = *others(&run.w.u, node).choose(&mut self.rng).unwrap();
                let d = if self.rng.gen_bool(0.7) && !self.blocks.is_empty() {
                    let keys: Vec<_> = self.blocks.keys().cloned().collect();
                    Digest(*keys.choose(&mut self.rng).unwrap())
                } else if self.rng.gen_bool(0.5) {
                    // the store is shared with the mempool: ask for an entry that is a batch
                    let d = crate::sym::sha(&self.rng.gen::<u64>().to_le_bytes());
                    self.give(run, Stim::Batch(d.clone())).await;
                    d
                } else {
                    crate::sym::sha(&self.rng.gen::<u64>().to_le_bytes())
                };
                let pk = run.w.u.pk(origin);
                self.give(run, Stim::Msg(ConsensusMessage::SyncRequest(d, pk))).await;
                if self.rng.gen_bool(0.5) {
                    self.probe_helper(run).await;
                }
            }
            6 => {
                // garbage frame
                let len = self.rng.gen_range(0, 40);
                let bytes: Vec<u8> = (0..len).map(|_| self.rng.gen()).collect();
                self.give(run, Stim::Raw(bytes)).await;
            }
            7 => {
                // a digest from the mempool for the proposer
                let d = crate::sym::sha(&self.rng.gen::<u64>().to_le_bytes());
                self.give(run, Stim::Batch(d.clone())).await;
                self.give(run, Stim::Digest(d)).await;
            }
            8 => {
                // the node's timer fires
                self.give(run, Stim::Timer).await;
            }
            9 => {
                // a stale-round timeout with an old QC
                if let Some(q) = self.qcs.choose(&mut self.rng).cloned() {
                    let j = *others(&run.w.u, node).choose(&mut self.rng).unwrap();
                    let r = q.round + 1;
                    let t = run.w.u.mk_timeout(r, q, j);
                    self.give(run, Stim::Msg(ConsensusMessage::Timeout(t))).await;
                }
            }
            10 => {
                // a TC with a repeated signer or below quorum
                let j = *others(&run.w.u, node).choose(&mut self.rng).unwrap();
                let tc = if self.rng.gen_bool(0.5) { run.w.u.mk_tc(self.round, &[(j, 0), (j, 0), (j, 0)]) } else { run.w.u.mk_tc(self.round, &[(j, 0)]) };
                self.give(run, Stim::Msg(ConsensusMessage::TC(tc))).await;
            }
            12 => {
                // a block of the right leader whose "QC" is {hash: a stored block, round: 0, no votes}: only
                // the all-zero genesis QC may go unverified
                let round = self.round;
                let leader = run.w.u.leader(round);
                if leader != node && self.tip.round > 0 {
                    let fake = QC { hash: self.tip.hash.clone(), round: 0, votes: vec![] };
                    let b = run.w.u.mk_block(leader, round, fake, None, vec![]);
                    self.give(run, Stim::Msg(ConsensusMessage::Propose(b))).await;
                }
            }
            13 => {
                // a burst of digests from the node's own mempool (more than any cap a proposer might
                // have): all of them must go into its next proposal
                let k = self.rng.gen_range(130, 170);
                for _ in 0..k {
                    let d = crate::sym::sha(&self.rng.gen::<u64>().to_le_bytes());
                    self.give(run, Stim::Digest(d)).await;
                }
            }
            11 => {
                // a correctly signed timeout of a member that carries a high QC which does not verify
                // (one signer, for a future round): rejected as a whole; then the node's own timer,
                // so that the round it acts in afterwards is visible
                let j = *others(&run.w.u, node).choose(&mut self.rng).unwrap();
                let bogus = run.w.u.mk_qc(self.tip.hash.clone(), self.round + self.rng.gen_range(1, 4), &[j]);
                let t = run.w.u.mk_timeout(self.round, bogus, j);
                self.give(run, Stim::Msg(ConsensusMessage::Timeout(t))).await;
                self.give(run, Stim::Timer).await;
            }
            _ => {
                // a withheld block finally arrives unsolicited
                if !self.withheld.is_empty() {
                    let i = self.rng.gen_range(0, self.withheld.len());
                    let b = self.withheld.remove(i);
                    self.give(run, Stim::Msg(ConsensusMessage::Propose(b))).await;
                }
            }
        }
    }
}

fn stake_styles(rng: &mut SmallRng) -> Vec<u32> {
    match rng.gen_range(0, 6) {
        0 | 1 | 2 => vec![1; rng.gen_range(4, 8)],
        3 => vec![2, 1, 1, 1, 1],
        4 => vec![3, 2, 2, 1, 1, 0],
        _ => vec![1, 1, 1, 1, 0],
    }
}

pub fn run_scenario(seed: u64, steps: usize, rep: &mut Report, use_model: bool) {
    run_scenario_with(seed, steps, rep, use_model, None)
}

/// `forced`: the directed template to play (otherwise drawn from the seed).
pub fn run_scenario_with(seed: u64, steps: usize, rep: &mut Report, use_model: bool, forced: Option<u32>) {
    let mut rng = SmallRng::seed_from_u64(seed);
    let mut stakes = stake_styles(&mut rng);
    // the directed template of this scenario; the two multi-round attacks need five or six consecutive
    // rounds not led by the node, i.e. a committee of at least six or seven
    let template = forced.unwrap_or_else(|| SmallRng::seed_from_u64(seed ^ 0x7e3a).gen_range(0, 16u32));
    if template == 6 || template == 12 || template == 14 {
        stakes = vec![1; 7];
    }
    let n = stakes.len() as u64;
    let mut node = rng.gen_range(1, n + 1);
    if stakes[(node - 1) as usize] == 0 {
        node = 1;
    }
    let adversarial = rng.gen_bool(0.5);
    let rt = world::runtime();
    let db = rt.block_on(async {
        let u = Universe::new(seed, stakes.clone(), 3000);
        let w = World::boot(u, node).await;
        let db = w.db_path();
        let mon = Monitor::new(&w.u, node);
        let meta = json!({"seed": seed, "stakes": stakes, "node": node});
        let mut run = Run { w, model: if use_model { Some(Model::spawn()) } else { None }, mon, rep, log: vec![], meta, last: Reaction::default(), diverged: false, model_round: None };
        run.boot_check().await;
        let mut d = Director {
            rng: SmallRng::seed_from_u64(seed ^ 0x5eed),
            blocks: HashMap::new(),
            tip: QC::genesis(),
            tc: None,
            round: 1,
            node_votes: vec![],
            node_blocks: HashMap::new(),
            withheld: vec![],
            sync_reqs: vec![],
            batch_reqs: vec![],
            old: vec![],
            qcs: vec![],
            batches_known: vec![],
        };
        d.absorb(&mut run);
        let template_at = d.rng.gen_range(0, steps.max(1) / 2 + 1);
        for step in 0..steps {
            if run.diverged {
                break;
            }
            if step == template_at {
                d.directed(&mut run, template).await;
            }
            let x = d.rng.gen_range(0, 10);
            if x < 6 {
                d.play_round(&mut run, adversarial).await;
            } else if x < 8 {
                d.answer_requests(&mut run).await;
            } else if adversarial || x == 9 {
                d.mischief(&mut run).await;
            }
        }
        // drain: answer everything outstanding so parked blocks get processed
        for _ in 0..3 {
            d.answer_requests(&mut run).await;
        }
        // service liveness after everything that was thrown at the node
        d.probe_helper(&mut run).await;
        let replay = run.replay_json();
        run.mon.finish(&mut run.w.u, run.rep, &replay);
        for p in world::take_panics() {
            run.rep.finding("impl_vs_property", "C15:panic", p, replay.clone());
        }
        if let Some(m) = run.model.as_ref() {
            run.rep.model_requests += m.requests;
        }
        run.rep.evaluations += 1;
        if run.log.len() >= 5 {
            run.rep.distinct_nontrivial += 1;
        }
        let kinds: BTreeSet<&str> = run.log.iter().map(|s| s.kind()).collect();
        run.rep.sample(json!({"seed": seed, "stakes": stakes, "node": node, "stimuli": run.log.len(), "kinds": kinds, "commits": run.mon.commits_len(), "votes": run.mon.votes_len()}));
        db
    });
    drop(rt);
    network::simnet::reset();
    let _ = std::fs::remove_dir_all(&db);
}

/// Re-execute a recorded stimulus list on the real node only and report the monitors' verdict.
pub fn replay(path: &str, rep: &mut Report) {
    let v: serde_json::Value = serde_json::from_str(&std::fs::read_to_string(path).expect("replay file")).expect("json");
    let seed = v["seed"].as_u64().unwrap_or(1);
    let stakes: Vec<u32> = v["stakes"].as_array().map(|a| a.iter().map(|x| x.as_u64().unwrap_or(1) as u32).collect()).unwrap_or(vec![1, 1, 1, 1]);
    let node = v["node"].as_u64().unwrap_or(1);
    let stimuli: Vec<Stim> = v["stimuli"].as_array().map(|a| a.iter().filter_map(Stim::from_json).collect()).unwrap_or_default();
    let rt = world::runtime();
    let db = rt.block_on(async {
        let u = Universe::new(seed, stakes.clone(), 3000);
        let w = World::boot(u, node).await;
        let db = w.db_path();
        let mon = Monitor::new(&w.u, node);
        let meta = json!({"seed": seed, "stakes": stakes, "node": node});
        let model = if std::env::var("HS_REPLAY_MODEL").is_ok() { Some(Model::spawn()) } else { None };
        let mut run = Run { w, model, mon, rep, log: vec![], meta, last: Reaction::default(), diverged: false, model_round: None };
        run.boot_check().await;
        for s in stimuli {
            run.apply(s).await;
        }
        let replay = run.replay_json();
        run.mon.finish(&mut run.w.u, run.rep, &replay);
        for p in world::take_panics() {
            run.rep.finding("impl_vs_property", "C15:panic", p, replay.clone());
        }
        run.rep.evaluations += 1;
        db
    });
    drop(rt);
    let _ = std::fs::remove_dir_all(&db);
}

pub fn run(o: &Opts) -> Report {
    world::install_panic_hook();
    let mut rep = Report::new("cons", &o.prop, &o.tier, o.seed);
    rep.rule = "seeded protocol runs around one real Consensus node (committees of 4-7 with equal/skewed/zero stakes; normal rounds, view changes via timeouts or TCs, withheld blocks fetched by sync, missing batches, equivocation, replays, wrong leaders, sub-quorum certificates, bad signatures, garbage frames, own timer); every stimulus is applied to the real node and to the Lean model and all observable outputs are compared; a scenario is non-trivial when it has >= 5 stimuli; scenarios are distinct by seed".into();
    if let Some(p) = &o.replay {
        replay(p, &mut rep);
        return rep;
    }
    let (scenarios, steps) = if o.thorough() { (1500, 40) } else { (120, 25) };
    for i in 0..scenarios {
        run_scenario(o.seed.wrapping_mul(1_000_003).wrapping_add(i), steps, &mut rep, true);
    }
    // templates added after the seed -> template table was fixed get scenarios of their own, so that the
    // scenarios above stay what they were
    let extra = if o.thorough() { 60 } else { 6 };
    for (k, t) in [16u32, 17].iter().enumerate() {
        for i in 0..extra {
            run_scenario_with(o.seed.wrapping_mul(1_000_003).wrapping_add(500_000 * (k as u64 + 1) + i), steps, &mut rep, true, Some(*t));
        }
    }
    rep
}
