//! E2/syncretry — the real consensus `Synchronizer` (request / retry / resume) with the DEFAULT
//! retry delay, every peer played on simnet, under virtual time (C07).
//!
//! The synchronizer stamps each request with `SystemTime::now()`; in verification builds that
//! clock follows tokio's (hook H4), so the retry path runs deterministically at its real cadence:
//! a tick every TIMER_ACCURACY = 5 s, a request retried once it is older than `sync_retry_delay`
//! (10 s by default) — a delay LONGER than the tick period, which is exactly the configuration in
//! which a retry depends on the timestamp surviving several ticks.
//!
//! A case: the node is handed `k` blocks whose parents it does not have (some share a parent), the
//! first target never answers, the clock advances tick by tick, at some tick a peer "answers" (the
//! parent is written to the store, as `Core::store_block` does), then more ticks.
//!
//! Oracle, independent of any model (C07: "an unanswered request is retried with other peers"):
//!  * the request for a missing parent goes once, to the author of the child, at once;
//!  * a second child of the same parent sends no second request;
//!  * no retry while the request is younger than the delay;
//!  * at the first tick at which the request is older than the delay — and at every later tick while
//!    it stays unanswered — the request is re-broadcast to ALL other members;
//!  * once the parent is stored the child comes back on the loop-back channel exactly once and the
//!    retries stop.
use crate::report::Report;
use crate::sym::Universe;
use crate::Opts;
use consensus::verif::{ConsensusMessage, Synchronizer};
use consensus::{Block, QC};
use crypto::{Digest, Hash as _};
use futures::StreamExt as _;
use network::simnet::{self, TcpListener};
use rand::rngs::SmallRng;
use rand::{Rng, SeedableRng};
use serde::{Deserialize, Serialize};
use serde_json::json;
use std::collections::{BTreeMap, BTreeSet};
use std::sync::{Arc, Mutex};
use std::time::Duration;
use store::Store;
use tokio::sync::mpsc::channel;
use tokio_util::codec::{Framed, LengthDelimitedCodec};

const TICK_MS: u64 = 5_000;

#[derive(Clone, Debug, Serialize, Deserialize)]
pub struct Case {
    pub seed: u64,
    pub n: usize,
    /// `sync_retry_delay` in ms (10_000 is `Parameters::default()`)
    pub delay: u64,
    /// children per missing parent (>= 1); parent i is authored by anyone, children by `authors[i]`
    pub children: Vec<usize>,
    /// tick (1-based) after which parent i is answered; 0 = never
    pub answer_at: Vec<usize>,
    pub ticks: usize,
    /// virtual ms that pass between the hand-over of the children and the first tick advance (< 4800:
    /// the first timer deadline is at 5 s); moves the age of the requests at each tick off the
    /// multiples of the tick period
    #[serde(default)]
    pub gap: u64,
}

/// The same step as an event of the Lean model `HS.Sync` (Model/Synchronizer.lean).
#[derive(Clone, Debug)]
pub enum ModelEv {
    Suspend { block: u64, parent: u64, author: u64, now: u64 },
    Stored { parent: u64 },
    Tick { now: u64 },
    /// time passes, no event: the task must stay silent
    Quiet,
}

fn clock_ms() -> u64 {
    (simnet::SystemTime::now().duration_since(simnet::UNIX_EPOCH).unwrap().as_millis() % 1_000_000_000_000) as u64
}

async fn barrier() {
    for _ in 0..3 {
        tokio::time::sleep(Duration::from_micros(1)).await;
        for _ in 0..8 {
            tokio::task::yield_now().await;
        }
    }
}

fn now_ms(base: tokio::time::Instant) -> u64 {
    (tokio::time::Instant::now() - base).as_millis() as u64
}

/// What was observed: per step a list of (peer, requested digest) and the blocks looped back.
pub struct Obs {
    pub at_ms: u64,
    pub what: String,
    pub requests: Vec<(u64, [u8; 32])>,
    pub looped: Vec<[u8; 32]>,
    pub ev: ModelEv,
}

pub async fn exec(case: &Case) -> (Vec<Obs>, Vec<(Block, usize)>, Vec<Block>, Vec<(u64, u64)>) {
    simnet::reset();
    let mut u = Universe::new(case.seed, vec![1; case.n], 9400);
    let node = 1u64;
    let base = tokio::time::Instant::now();
    let frames: Arc<Mutex<Vec<(u64, Vec<u8>)>>> = Arc::new(Mutex::new(Vec::new()));
    for j in 2..=case.n as u64 {
        let addr = format!("127.0.0.1:{}", u.port(j)).parse().unwrap();
        let listener = TcpListener::bind(&addr).await.expect("simnet bind");
        let frames = frames.clone();
        tokio::spawn(async move {
            loop {
                let (socket, _) = match listener.accept().await {
                    Ok(x) => x,
                    Err(_) => return,
                };
                let frames = frames.clone();
                tokio::spawn(async move {
                    let mut r = Framed::new(socket, LengthDelimitedCodec::new());
                    while let Some(Ok(f)) = r.next().await {
                        frames.lock().unwrap().push((j, f.to_vec()));
                    }
                });
            }
        });
    }
    let path = format!("{}/db_syncretry_{}_{}", std::env::var("VERIF_WORK").unwrap_or_else(|_| "/verif/work".into()), std::process::id(), case.seed);
    let _ = std::fs::remove_dir_all(&path);
    let mut store = Store::new(&path).expect("store");
    let (tx_loopback, mut rx_loopback) = channel::<Block>(1000);
    let mut sync = Synchronizer::new(u.pk(node), u.committee(), store.clone(), tx_loopback, case.delay);
    barrier().await;

    // parents (never given to the node) and their children
    let mut parents: Vec<Block> = Vec::new();
    let mut kids: Vec<(Block, usize)> = Vec::new();
    for (i, k) in case.children.iter().enumerate() {
        let pa = 2 + (i as u64 % (case.n as u64 - 1));
        let p = u.mk_block(pa, 10 + 2 * i as u64, QC::genesis(), None, vec![crate::sym::sha(&[i as u8, 7])]);
        let signers: Vec<u64> = (1..=case.n as u64).collect();
        let qc = u.mk_qc(p.digest(), p.round, &signers);
        for c in 0..*k {
            let ca = 2 + ((i + c + 1) as u64 % (case.n as u64 - 1));
            let b = u.mk_block(ca, p.round + 1, qc.clone(), None, vec![crate::sym::sha(&[i as u8, c as u8, 9])]);
            kids.push((b, i));
        }
        parents.push(p);
    }
    let mut obs: Vec<Obs> = Vec::new();
    let mut requested_at: Vec<(u64, u64)> = Vec::new(); // (parent index, ms of the first request)
    macro_rules! observe {
        ($what:expr, $ev:expr) => {{
            barrier().await;
            let mut o = Obs { at_ms: now_ms(base), what: $what, requests: vec![], looped: vec![], ev: $ev };
            for (j, bytes) in std::mem::take(&mut *frames.lock().unwrap()) {
                match bincode::deserialize::<ConsensusMessage>(&bytes) {
                    Ok(ConsensusMessage::SyncRequest(d, origin)) if origin == u.pk(node) => o.requests.push((j, d.0)),
                    _ => o.requests.push((j, [0xee; 32])),
                }
            }
            while let Ok(b) = rx_loopback.try_recv() {
                o.looped.push(b.digest().0);
            }
            obs.push(o);
        }};
    }
    for (ki, (b, pi)) in kids.iter().enumerate() {
        // the task stamps the request at this very instant: virtual time only moves when every task is idle
        let stamp = clock_ms();
        let r = sync.get_parent_block(b).await;
        if !matches!(r, Ok(None)) {
            obs.push(Obs { at_ms: now_ms(base), what: "get_parent_block did not return Ok(None) for a missing parent".into(), requests: vec![(0, [0xdd; 32])], looped: vec![], ev: ModelEv::Quiet });
        }
        if !requested_at.iter().any(|(i, _)| *i == *pi as u64) {
            requested_at.push((*pi as u64, now_ms(base)));
        }
        observe!(format!("child of parent {}", pi), ModelEv::Suspend { block: 1 + ki as u64, parent: 1000 + *pi as u64, author: u.key_id(&b.author), now: stamp });
    }
    if case.gap > 0 {
        tokio::time::advance(Duration::from_millis(case.gap.min(4_800))).await;
        observe!("gap".to_string(), ModelEv::Quiet);
    }
    for t in 1..=case.ticks {
        tokio::time::advance(Duration::from_millis(TICK_MS)).await;
        let stamp = clock_ms();
        observe!(format!("tick {}", t), ModelEv::Tick { now: stamp });
        for (i, at) in case.answer_at.iter().enumerate() {
            if *at == t {
                let p = &parents[i];
                store.write(p.digest().to_vec(), bincode::serialize(p).unwrap()).await;
                observe!(format!("answer {}", i), ModelEv::Stored { parent: 1000 + i as u64 });
            }
        }
    }
    drop(sync);
    barrier().await;
    let _ = std::fs::remove_dir_all(&path);
    (obs, kids, parents, requested_at)
}

fn monitor(case: &Case, obs: &[Obs], kids: &[(Block, usize)], parents: &[Block], requested_at: &[(u64, u64)], u_authors: &dyn Fn(&Block) -> u64) -> Vec<(String, String)> {
    let mut out = Vec::new();
    let others: BTreeSet<u64> = (2..=case.n as u64).collect();
    let pidx: BTreeMap<[u8; 32], usize> = parents.iter().enumerate().map(|(i, p)| (p.digest().0, i)).collect();
    let mut first_request_seen: BTreeSet<usize> = BTreeSet::new();
    let mut answered_at_ms: BTreeMap<usize, u64> = BTreeMap::new();
    let mut looped: BTreeMap<[u8; 32], usize> = BTreeMap::new();
    let mut kid_i = 0usize;
    for o in obs {
        for (_, d) in &o.requests {
            if *d == [0xdd; 32] {
                out.push(("C07:parked-block-not-suspended".into(), o.what.clone()));
            } else if !pidx.contains_key(d) {
                out.push(("C07:unexpected-frame".into(), format!("{}: a frame that is not a sync request for a missing parent", o.what)));
            }
        }
        let by_parent = |i: usize| -> Vec<u64> { o.requests.iter().filter(|(_, d)| pidx.get(d) == Some(&i)).map(|(j, _)| *j).collect() };
        if o.what.starts_with("child of parent") {
            let (b, pi) = &kids[kid_i];
            kid_i += 1;
            let got = by_parent(*pi);
            if first_request_seen.insert(*pi) {
                let author = u_authors(b);
                if got != vec![author] {
                    out.push(("C07:first-request-not-to-author".into(), format!("{}: the request for the missing parent went to {:?}, expected exactly the child's author {}", o.what, got, author)));
                }
            } else if !got.is_empty() {
                out.push(("C07:request-repeated-for-second-child".into(), format!("{}: another child of an already requested parent sent a request to {:?}", o.what, got)));
            }
            continue;
        }
        if let Some(rest) = o.what.strip_prefix("answer ") {
            let i: usize = rest.parse().unwrap();
            answered_at_ms.insert(i, o.at_ms);
        }
        for d in &o.looped {
            *looped.entry(*d).or_insert(0) += 1;
        }
        if o.what.starts_with("tick") {
            for (pi, t0) in requested_at {
                let i = *pi as usize;
                let got: BTreeSet<u64> = by_parent(i).into_iter().collect();
                let answered = answered_at_ms.contains_key(&i);
                let age = o.at_ms.saturating_sub(*t0);
                // keep clear of the boundary: the harness's stamp is taken a few virtual ms after the real one
                let old = age > case.delay + 50;
                let young = age + 50 < case.delay;
                if answered {
                    if !got.is_empty() {
                        out.push(("C07:retry-after-answer".into(), format!("{}: parent {} is stored but its request was sent again to {:?}", o.what, i, got)));
                    }
                } else if old && got != others {
                    out.push((
                        "C07:no-retry".into(),
                        format!("{}: the request for parent {} is unanswered for {} ms (sync_retry_delay {} ms) and was re-sent to {:?}; it must be retried with all other members {:?}", o.what, i, age, case.delay, got, others),
                    ));
                } else if young && !got.is_empty() {
                    out.push(("C07:retry-before-delay".into(), format!("{}: request for parent {} retried after only {} ms (delay {} ms)", o.what, i, age, case.delay)));
                }
            }
        }
    }
    for (b, pi) in kids {
        let c = looped.get(&b.digest().0).cloned().unwrap_or(0);
        let answered = case.answer_at[*pi] > 0 && case.answer_at[*pi] <= case.ticks;
        if answered && c != 1 {
            out.push(("C07:not-resumed-once".into(), format!("a child of parent {} came back on the loop-back channel {} times after the parent was stored (expected once)", pi, c)));
        }
        if !answered && c != 0 {
            out.push(("C07:resumed-without-parent".into(), format!("a child of parent {} was resumed although its parent was never stored", pi)));
        }
    }
    out
}

fn model_items(ans: &str) -> Option<Vec<String>> {
    let a = ans.trim();
    let body = a.strip_prefix("(outs")?.strip_suffix(")")?.trim();
    if body.is_empty() {
        return Some(vec![]);
    }
    let mut out = Vec::new();
    let mut depth = 0;
    let mut cur = String::new();
    for ch in body.chars() {
        match ch {
            '(' => {
                depth += 1;
                cur.push(ch);
            }
            ')' => {
                depth -= 1;
                cur.push(ch);
                if depth == 0 {
                    out.push(cur.trim().to_string());
                    cur.clear();
                }
            }
            _ => {
                if depth > 0 {
                    cur.push(ch)
                }
            }
        }
    }
    Some(out)
}

/// Lock-step with the Lean model `HS.Sync`: the same events, the same outputs (as sets per step).
/// At a tick, a request whose age is within `SLACK_MS` of the delay is left out of the comparison on
/// both sides (the harness reads the clock next to the task, not inside it).
const SLACK_MS: u64 = 2;
fn compare_model(model: &mut crate::driver::Model, case: &Case, obs: &[Obs], kids: &[(Block, usize)], parents: &[Block]) -> (Vec<(String, String)>, u64, u64) {
    let mut out = Vec::new();
    let (mut compared, mut skipped) = (0u64, 0u64);
    let others: Vec<u64> = (2..=case.n as u64).collect();
    let pidx: BTreeMap<[u8; 32], usize> = parents.iter().enumerate().map(|(i, p)| (p.digest().0, i)).collect();
    let kidx: BTreeMap<[u8; 32], usize> = kids.iter().enumerate().map(|(i, (b, _))| (b.digest().0, i)).collect();
    let a = model.ask(&format!("(sy init {})", case.delay));
    if a != "(ok)" {
        out.push(("model:driver-error".into(), a));
        return (out, 0, 0);
    }
    for o in obs {
        // what the real task did in this step
        let mut real: Vec<String> = Vec::new();
        let mut by_parent: BTreeMap<usize, Vec<u64>> = BTreeMap::new();
        for (j, d) in &o.requests {
            match pidx.get(d) {
                Some(i) => by_parent.entry(*i).or_default().push(*j),
                None => real.push("(unknown-frame)".into()),
            }
        }
        for (i, mut peers) in by_parent {
            peers.sort();
            if peers == others {
                real.push(format!("(broadcast {})", 1000 + i));
            } else {
                for j in peers {
                    real.push(format!("(request {} {})", j, 1000 + i));
                }
            }
        }
        for d in &o.looped {
            match kidx.get(d) {
                Some(k) => real.push(format!("(loopback {})", 1 + k)),
                None => real.push("(unknown-loopback)".into()),
            }
        }
        real.sort();
        let ask = |m: &mut crate::driver::Model, line: String| -> Result<Vec<String>, String> {
            let a = m.ask(&line);
            model_items(&a).map(|mut v| {
                v.sort();
                v
            }).ok_or(a)
        };
        let mut expect: Vec<String> = match &o.ev {
            ModelEv::Quiet => vec![],
            ModelEv::Suspend { block, parent, author, now } => match ask(model, format!("(sy suspend {} {} {} {})", block, parent, author, now)) {
                Ok(v) => v,
                Err(a) => {
                    out.push(("model:driver-error".into(), a));
                    return (out, compared, skipped);
                }
            },
            ModelEv::Stored { parent } => match ask(model, format!("(sy stored {})", parent)) {
                Ok(v) => v,
                Err(a) => {
                    out.push(("model:driver-error".into(), a));
                    return (out, compared, skipped);
                }
            },
            ModelEv::Tick { now } => {
                let lo = ask(model, format!("(sy tick {})", now.saturating_sub(SLACK_MS))).unwrap_or_default();
                let hi = ask(model, format!("(sy tick {})", now + SLACK_MS)).unwrap_or_default();
                let mid = match ask(model, format!("(sy tick {})", now)) {
                    Ok(v) => v,
                    Err(a) => {
                        out.push(("model:driver-error".into(), a));
                        return (out, compared, skipped);
                    }
                };
                // on the boundary: in `hi` but not in `lo`
                let edge: Vec<String> = hi.iter().filter(|x| !lo.contains(x)).cloned().collect();
                if !edge.is_empty() {
                    skipped += edge.len() as u64;
                    real.retain(|x| !edge.contains(x));
                }
                mid.into_iter().filter(|x| !edge.contains(x)).collect()
            }
        };
        expect.sort();
        compared += 1;
        if real != expect {
            out.push((
                "model:synchronizer-output".into(),
                format!("{} (event {:?}): the real task produced {:?}, the model {:?}", o.what, o.ev, real, expect),
            ));
            return (out, compared, skipped);
        }
    }
    (out, compared, skipped)
}

fn gen_case(rng: &mut SmallRng, seed: u64) -> Case {
    let n = rng.gen_range(4, 8);
    let np = rng.gen_range(1, 4);
    let delay = match rng.gen_range(0, 6) {
        0 => 0,
        1 => 3_000,
        2 => 7_000,
        3 => 22_000,
        _ => 10_000, // Parameters::default()
    };
    let ticks = rng.gen_range(3, 9);
    Case {
        seed,
        n,
        delay,
        children: (0..np).map(|_| rng.gen_range(1, 3)).collect(),
        answer_at: (0..np).map(|_| if rng.gen_bool(0.3) { 0 } else { rng.gen_range(1, ticks + 1) }).collect(),
        ticks,
        gap: if rng.gen_bool(0.6) { rng.gen_range(50, 4_800) } else { 0 },
    }
}

fn run_case(rep: &mut Report, model: &mut crate::driver::Model, case: &Case, distinct: &mut BTreeSet<String>) {
    let rt = tokio::runtime::Builder::new_current_thread().enable_all().start_paused(true).build().unwrap();
    let (obs, kids, parents, requested_at) = rt.block_on(exec(case));
    drop(rt);
    rep.evaluations += 1;
    let u = Universe::new(case.seed, vec![1; case.n], 9400);
    let author = |b: &Block| u.key_id(&b.author);
    let replay = json!({"engine": "syncretry", "case": case});
    for (k, d) in monitor(case, &obs, &kids, &parents, &requested_at, &author) {
        rep.finding("impl_vs_property", &k, d, replay.clone());
    }
    let (dis, compared, skipped) = compare_model(model, case, &obs, &kids, &parents);
    for (k, d) in dis {
        rep.finding("impl_vs_model", &k, d, replay.clone());
    }
    for _ in 0..compared {
        rep.hit("model.step-compared");
    }
    for _ in 0..skipped {
        rep.hit("model.request-on-the-delay-boundary-skipped");
    }
    if case.gap > 0 {
        rep.hit("case.gap-before-first-tick");
    }
    rep.hit(&format!("delay.{}", case.delay));
    let retries: usize = obs.iter().filter(|o| o.what.starts_with("tick")).map(|o| o.requests.len()).sum();
    rep.hit(if retries > 0 { "case.with-retries" } else { "case.without-retries" });
    if case.answer_at.iter().any(|a| *a == 0) {
        rep.hit("case.never-answered-parent");
    }
    if retries > 0 && case.answer_at.iter().any(|a| *a > 0) {
        distinct.insert(serde_json::to_string(case).unwrap());
    }
    if rep.evaluations % 23 == 1 {
        rep.sample(json!({"case": case, "steps": obs.iter().map(|o| json!({"ms": o.at_ms, "what": o.what, "requests_to": o.requests.iter().map(|r| r.0).collect::<Vec<_>>(), "looped": o.looped.len()})).collect::<Vec<_>>()}));
    }
}

pub fn run(o: &Opts) -> Report {
    crate::world::install_panic_hook();
    let mut rep = Report::new("syncretry", "C07", &o.tier, o.seed);
    rep.rule = "the real consensus Synchronizer with sync_retry_delay in {0, 3 s, 7 s, 10 s (default, most cases), 22 s}, committees of 4-7, 1-3 missing parents with 1-2 children each, the first target silent, the clock advanced tick by tick (5 s), each parent answered at a random tick or never; distinct by case; non-trivial when at least one retry was observed and at least one parent was answered".into();
    let mut distinct = BTreeSet::new();
    let mut model = crate::driver::Model::spawn();
    if let Some(file) = &o.replay {
        let v: serde_json::Value = serde_json::from_str(&std::fs::read_to_string(file).expect("replay file")).expect("replay json");
        let case: Case = serde_json::from_value(v["case"].clone()).expect("replay case");
        run_case(&mut rep, &mut model, &case, &mut distinct);
        return rep;
    }
    let mut rng = SmallRng::seed_from_u64(o.seed);
    // directed: the default configuration, one parent, never answered / answered late
    for (ticks, at) in [(5usize, 0usize), (6, 4), (4, 2)] {
        run_case(&mut rep, &mut model, &Case { seed: o.seed, n: 4, delay: 10_000, children: vec![2], answer_at: vec![at], ticks, gap: 0 }, &mut distinct);
    }
    let cases = if o.thorough() { 1500 } else { 60 };
    for i in 0..cases {
        let case = gen_case(&mut rng, o.seed.wrapping_mul(1000) + i);
        run_case(&mut rep, &mut model, &case, &mut distinct);
    }
    for p in crate::world::take_panics() {
        rep.finding("impl_vs_property", "C15:panic", p, json!({"engine": "syncretry"}));
    }
    rep.distinct_nontrivial = distinct.len() as u64;
    rep
}
