//! E1/timer — the real `consensus::timer::Timer` under tokio's paused clock against the Lean model
//! `HS.Timer` (Model/Timer.lean; C06 "a bounded number of round timeouts", C10).
//!
//! A case: a `Timer::new(duration)` at virtual time 0, then a list of ops — advance the clock by some
//! ms, or reset the timer (what `Core` does when it enters a round).  After every op the timer is
//! polled once: ready or not, at the current virtual millisecond; a ready timer is reset at once, as
//! `Core::local_timeout_round` does.  The model is asked the same questions; the answers must agree,
//! and independently of the model the timer must never be ready earlier than `duration` after the
//! last reset and must be ready from then on.
use crate::driver::Model;
use crate::report::Report;
use crate::Opts;
use consensus::verif::Timer;
use futures::FutureExt as _;
use rand::rngs::SmallRng;
use rand::{Rng, SeedableRng};
use serde::{Deserialize, Serialize};
use serde_json::json;
use std::collections::BTreeSet;
use std::time::Duration;

#[derive(Clone, Debug, Serialize, Deserialize, PartialEq)]
pub enum Op {
    Advance(u64),
    Reset,
}

#[derive(Clone, Debug, Serialize, Deserialize)]
pub struct Case {
    pub duration: u64,
    pub ops: Vec<Op>,
}

/// per op: (virtual ms after the op, ready?)
fn exec(case: &Case) -> Vec<(u64, bool)> {
    let rt = tokio::runtime::Builder::new_current_thread().enable_all().start_paused(true).build().unwrap();
    let out = rt.block_on(async {
        let base = tokio::time::Instant::now();
        let mut timer = Timer::new(case.duration);
        let mut obs = Vec::new();
        for op in &case.ops {
            match op {
                Op::Advance(ms) => tokio::time::advance(Duration::from_millis(*ms)).await,
                Op::Reset => timer.reset(),
            }
            tokio::task::yield_now().await;
            let now = (tokio::time::Instant::now() - base).as_millis() as u64;
            let ready = (&mut timer).now_or_never().is_some();
            obs.push((now, ready));
            if ready {
                timer.reset();
            }
        }
        obs
    });
    drop(rt);
    out
}

fn run_case(rep: &mut Report, model: &mut Model, case: &Case, distinct: &mut BTreeSet<String>) {
    let obs = exec(case);
    rep.evaluations += 1;
    let replay = json!({"engine": "timer", "case": case});
    let a = model.ask(&format!("(tm new {} 0)", case.duration));
    if a != "(ok)" {
        rep.finding("impl_vs_model", "model:driver-error", a, replay.clone());
        return;
    }
    // independent oracle: the time of the last reset
    let mut last_reset = 0u64;
    let mut fired = 0usize;
    for (i, (op, (now, ready))) in case.ops.iter().zip(obs.iter()).enumerate() {
        if *op == Op::Reset {
            last_reset = *now;
            let a = model.ask(&format!("(tm reset {})", now));
            if a != "(ok)" {
                rep.finding("impl_vs_model", "model:driver-error", a, replay.clone());
                return;
            }
        }
        let due = *now >= last_reset + case.duration;
        if *ready && !due {
            rep.finding("impl_vs_property", "C06:timer-fired-early", format!("op #{} ({:?}): the timer was ready at {} ms, only {} ms after its last reset at {} ms (timeout_delay {} ms)", i, op, now, now - last_reset, last_reset, case.duration), replay.clone());
        }
        if !*ready && due {
            rep.finding("impl_vs_property", "C06:timer-late", format!("op #{} ({:?}): the timer was NOT ready at {} ms, {} ms after its last reset at {} ms (timeout_delay {} ms)", i, op, now, now - last_reset, last_reset, case.duration), replay.clone());
        }
        let m = model.ask(&format!("(tm fired {})", now));
        let want = format!("(fired {})", if *ready { 1 } else { 0 });
        if m != want {
            rep.finding("impl_vs_model", "C06:timer-model", format!("op #{} ({:?}) at {} ms: real timer ready={}, model says {}", i, op, now, ready, m), replay.clone());
            return;
        }
        rep.hit(if *ready { "obs.ready" } else { "obs.pending" });
        if *ready {
            fired += 1;
            // `Core` resets a timer that fired
            last_reset = *now;
            let a = model.ask(&format!("(tm reset {})", now));
            if a != "(ok)" {
                rep.finding("impl_vs_model", "model:driver-error", a, replay.clone());
                return;
            }
        }
    }
    if fired > 0 && case.ops.iter().any(|o| *o == Op::Reset) {
        distinct.insert(serde_json::to_string(case).unwrap());
    }
}

fn gen_case(rng: &mut SmallRng) -> Case {
    let duration: u64 = match rng.gen_range(0, 5) {
        0 => 1,
        1 => 100,
        2 => 5_000,
        _ => 1_000,
    };
    let n = rng.gen_range(3, 25);
    let mut ops = Vec::new();
    for _ in 0..n {
        if rng.gen_bool(0.35) {
            ops.push(Op::Reset);
        } else {
            // around the interesting distances: a fraction, just below, exactly, just above, a multiple
            let ms = match rng.gen_range(0, 7) {
                0 => rng.gen_range(0, 3),
                1 => duration / 2,
                2 => duration.saturating_sub(1),
                3 => duration,
                4 => duration + 1,
                5 => duration * rng.gen_range(2, 4),
                _ => rng.gen_range(0, 2 * duration + 2),
            };
            ops.push(Op::Advance(ms));
        }
    }
    Case { duration, ops }
}

pub fn run(o: &Opts) -> Report {
    crate::world::install_panic_hook();
    let mut rep = Report::new("timer", &o.prop, &o.tier, o.seed);
    rep.rule = "the real consensus Timer under the paused virtual clock: timeout_delay in {1, 100, 1000, 5000} ms, 3-24 ops (advance by a fraction / one less / exactly / one more / a multiple of the delay, or reset), polled once after every op, a ready timer is reset as Core does; compared op by op with the Lean model HS.Timer and with an independent oracle (ready iff delay elapsed since the last reset); non-trivial when the timer fired at least once and was reset by an op at least once; distinct by case".into();
    let mut model = Model::spawn();
    let mut distinct = BTreeSet::new();
    if let Some(file) = &o.replay {
        let v: serde_json::Value = serde_json::from_str(&std::fs::read_to_string(file).expect("replay file")).expect("replay json");
        let inner = v.get("replay").cloned().unwrap_or(v);
        let case: Case = serde_json::from_value(inner["case"].clone()).expect("replay case");
        run_case(&mut rep, &mut model, &case, &mut distinct);
        return rep;
    }
    // directed: the sequence of the property text — reset late in a round, the next expiry is a full delay later
    run_case(&mut rep, &mut model, &Case { duration: 1_000, ops: vec![Op::Advance(900), Op::Reset, Op::Advance(999), Op::Advance(1), Op::Advance(999), Op::Advance(1)] }, &mut distinct);
    run_case(&mut rep, &mut model, &Case { duration: 1_000, ops: vec![Op::Advance(1_000), Op::Advance(400), Op::Reset, Op::Advance(600), Op::Advance(400)] }, &mut distinct);
    let mut rng = SmallRng::seed_from_u64(o.seed ^ 0x71e3);
    let cases = if o.thorough() { 20_000 } else { 1_500 };
    for _ in 0..cases {
        let case = gen_case(&mut rng);
        run_case(&mut rep, &mut model, &case, &mut distinct);
    }
    for p in crate::world::take_panics() {
        rep.finding("impl_vs_property", "C15:panic", p, json!({"engine": "timer"}));
    }
    rep.distinct_nontrivial = distinct.len() as u64;
    rep
}
