//! What an engine run reports back to `/verif/check` (JSON on a file).
use serde::Serialize;
use std::collections::BTreeMap;

#[derive(Serialize, Default, Clone)]
pub struct Finding {
    /// "impl_vs_model" (correspondence broken) or "impl_vs_property" (monitor hit on real code)
    pub class: String,
    /// stable identifier of what failed, e.g. "C02:genesis-delivered"
    pub kind: String,
    pub detail: String,
    /// self-contained replay: engine + the inputs that reproduce it
    pub replay: serde_json::Value,
}

#[derive(Serialize, Default)]
pub struct Report {
    pub engine: String,
    pub property: String,
    pub tier: String,
    pub seed: u64,
    pub evaluations: u64,
    pub distinct_nontrivial: u64,
    pub rule: String,
    pub model_requests: u64,
    pub histogram: BTreeMap<String, u64>,
    pub samples: Vec<serde_json::Value>,
    pub findings: Vec<Finding>,
}

impl Report {
    pub fn new(engine: &str, property: &str, tier: &str, seed: u64) -> Self {
        Report { engine: engine.into(), property: property.into(), tier: tier.into(), seed, ..Default::default() }
    }
    pub fn hit(&mut self, key: &str) {
        *self.histogram.entry(key.to_string()).or_insert(0) += 1;
    }
    pub fn sample(&mut self, v: serde_json::Value) {
        if self.samples.len() < 6 {
            self.samples.push(v);
        }
    }
    pub fn finding(&mut self, class: &str, kind: &str, detail: String, replay: serde_json::Value) {
        // caps per class and per kind, so that one noisy kind cannot crowd out the others
        let same_class = self.findings.iter().filter(|f| f.class == class).count();
        let same_kind = self.findings.iter().filter(|f| f.kind == kind).count();
        *self.histogram.entry(format!("finding.{}", kind)).or_insert(0) += 1;
        if same_class < 24 && same_kind < 4 {
            self.findings.push(Finding { class: class.into(), kind: kind.into(), detail, replay });
        }
    }
    pub fn write(&self, path: &str) {
        std::fs::write(path, serde_json::to_string_pretty(self).unwrap()).expect("cannot write report");
    }
}
