//! E1 unit engines: the real `verify` functions, `LeaderElector::get_leader` and `Aggregator`
//! against the model, one call at a time (C04, C09, C19).
use crate::driver::Model;
use crate::monitor::Monitor;
use crate::report::Report;
use crate::sym::{Content, Universe};
use crate::Opts;
use consensus::verif::{Aggregator, ConsensusError, LeaderElector, Timeout, Vote};
use consensus::{Block, Committee, QC, TC};
use crypto::{Digest, Hash as _, PublicKey};
use rand::rngs::SmallRng;
use rand::seq::SliceRandom;
use rand::{Rng, SeedableRng};
use serde_json::json;
use std::collections::{BTreeSet, HashMap, HashSet};

fn stake_styles(rng: &mut SmallRng) -> Vec<u32> {
    match rng.gen_range(0, 7) {
        0 | 1 => vec![1; rng.gen_range(1, 10)],
        2 => vec![2, 1, 1, 1, 1],
        3 => vec![3, 2, 2, 1, 1, 0],
        4 => vec![1, 1, 1, 1, 0],
        5 => vec![10, 1, 1],
        _ => (0..rng.gen_range(2, 8)).map(|_| rng.gen_range(0, 5)).collect(),
    }
}

fn err_class(e: &ConsensusError) -> &'static str {
    match e {
        ConsensusError::UnknownAuthority(_) => "unknownAuthority",
        ConsensusError::InvalidSignature(_) => "invalidSignature",
        ConsensusError::AuthorityReuse(_) => "authorityReuse",
        ConsensusError::QCRequiresQuorum => "qcRequiresQuorum",
        ConsensusError::TCRequiresQuorum => "tcRequiresQuorum",
        ConsensusError::WrongLeader { .. } => "wrongLeader",
        _ => "other",
    }
}

fn verdict(r: Result<(), ConsensusError>) -> String {
    match r {
        Ok(()) => "ok".into(),
        Err(e) => format!("(err {})", err_class(&e)),
    }
}

fn some_signers(u: &Universe, rng: &mut SmallRng) -> Vec<u64> {
    let mut ids: Vec<u64> = (1..=u.n() as u64).collect();
    ids.shuffle(rng);
    let k = rng.gen_range(0, ids.len() + 1);
    ids.truncate(k);
    ids
}

fn quorum_signers(u: &Universe, rng: &mut SmallRng) -> Vec<u64> {
    let mut ids: Vec<u64> = (1..=u.n() as u64).filter(|i| u.stake(*i) > 0).collect();
    ids.shuffle(rng);
    let mut acc = 0;
    let mut out = vec![];
    for i in ids {
        out.push(i);
        acc += u.stake(i);
        if acc >= u.quorum() && rng.gen_bool(0.7) {
            break;
        }
    }
    out
}

/// Mutate a QC; returns a label.
fn mutate_qc(u: &mut Universe, rng: &mut SmallRng, q: &mut QC) -> &'static str {
    match rng.gen_range(0, 11) {
        0 => "none",
        1 => {
            if !q.votes.is_empty() {
                let i = rng.gen_range(0, q.votes.len());
                q.votes.remove(i);
            }
            "drop-signer"
        }
        2 => {
            if !q.votes.is_empty() {
                let v = q.votes[rng.gen_range(0, q.votes.len())].clone();
                q.votes.push(v);
            }
            "repeat-signer"
        }
        3 => {
            let s = u.sign(100, Content::Vote(q.hash.clone(), q.round));
            q.votes.push((u.pk(100), s));
            "outsider"
        }
        4 => {
            q.round += 1;
            "round-changed"
        }
        5 => {
            q.hash = crate::sym::sha(&rng.gen::<u64>().to_le_bytes());
            "hash-changed"
        }
        6 => {
            if !q.votes.is_empty() {
                let i = rng.gen_range(0, q.votes.len());
                q.votes[i].1 = u.junk_sig();
            }
            "junk-signature"
        }
        7 => {
            if q.votes.len() >= 2 {
                let a = q.votes[0].1.clone();
                q.votes[0].1 = q.votes[1].1.clone();
                q.votes[1].1 = a;
            }
            "swap-signatures"
        }
        8 => {
            if !q.votes.is_empty() {
                let i = rng.gen_range(0, q.votes.len());
                let id = u.key_id(&q.votes[i].0);
                // a timeout signature of the same member in place of a vote signature
                q.votes[i].1 = u.sign(id, Content::Timeout(q.round, 0));
            }
            "wrong-kind-signature"
        }
        9 => {
            if !q.votes.is_empty() {
                let i = rng.gen_range(0, q.votes.len());
                let id = u.key_id(&q.votes[i].0);
                q.votes[i].1 = u.sign(id, Content::Vote(q.hash.clone(), q.round + 7));
            }
            "other-round-signature"
        }
        _ => {
            q.votes.clear();
            "empty"
        }
    }
}

fn mutate_tc(u: &mut Universe, rng: &mut SmallRng, t: &mut TC) -> &'static str {
    match rng.gen_range(0, 8) {
        0 => "none",
        1 => {
            if !t.votes.is_empty() {
                let i = rng.gen_range(0, t.votes.len());
                t.votes.remove(i);
            }
            "drop-signer"
        }
        2 => {
            if !t.votes.is_empty() {
                let v = t.votes[rng.gen_range(0, t.votes.len())].clone();
                t.votes.push(v);
            }
            "repeat-signer"
        }
        3 => {
            t.round += 1;
            "round-changed"
        }
        4 => {
            if !t.votes.is_empty() {
                let i = rng.gen_range(0, t.votes.len());
                t.votes[i].2 += 1;
            }
            "hq-changed"
        }
        5 => {
            if !t.votes.is_empty() {
                let i = rng.gen_range(0, t.votes.len());
                t.votes[i].1 = u.junk_sig();
            }
            "junk-signature"
        }
        6 => {
            let s = u.sign(101, Content::Timeout(t.round, 0));
            t.votes.push((u.pk(101), s, 0));
            "outsider"
        }
        _ => {
            if !t.votes.is_empty() {
                let i = rng.gen_range(0, t.votes.len());
                let id = u.key_id(&t.votes[i].0);
                t.votes[i].1 = u.sign(id, Content::Vote(Digest::default(), t.round));
            }
            "wrong-kind-signature"
        }
    }
}

pub fn run_verify(o: &Opts) -> Report {
    let mut rep = Report::new("verify", &o.prop, &o.tier, o.seed);
    rep.rule = "valid QCs/TCs/blocks/votes/timeouts over committees of 1-9 members with equal, skewed, dominant and zero stakes, each passed through one of ~10 mutation classes (drop/repeat/outsider signer, changed round/hash, junk, swapped, wrong-kind, other-round signatures, empty) and checked with the real verify functions and the model; distinct by (committee, message, mutation); non-trivial when the certificate has >= 1 signature".into();
    let mut rng = SmallRng::seed_from_u64(o.seed);
    let mut model = Model::spawn();
    let cases = if o.thorough() { 40000 } else { 3000 };
    let mut distinct = BTreeSet::new();
    let mut u = Universe::new(o.seed, stake_styles(&mut rng), 4000);
    let mut committee = u.committee();
    for i in 0..cases {
        if i % 50 == 0 {
            u = Universe::new(o.seed.wrapping_add(i as u64), stake_styles(&mut rng), 4000);
            committee = u.committee();
        }
        let csym = u.committee_sym();
        let round = rng.gen_range(1, 50u64);
        let parent = u.mk_block(u.leader(round), round, QC::genesis(), None, vec![]);
        let signers = if rng.gen_bool(0.7) { quorum_signers(&u, &mut rng) } else { some_signers(&u, &mut rng) };
        let replay = json!({"engine": "verify", "seed": o.seed, "case": i});
        match rng.gen_range(0, 5) {
            0 => {
                let mut q = u.mk_qc(parent.digest(), round, &signers);
                let label = mutate_qc(&mut u, &mut rng, &mut q);
                let real = verdict(q.verify(&committee));
                let got = model.ask(&format!("(verify-qc {} {})", csym, u.qc_sym(&q)));
                rep.hit(&format!("qc.{}.{}", label, if real == "ok" { "accept" } else { "reject" }));
                if got != real {
                    rep.finding("impl_vs_model", "C04:verify-qc", format!("mutation {} real {} model {} qc {}", label, real, got, u.qc_sym(&q)), replay.clone());
                }
                if (real == "ok") != Monitor::valid_qc(&u, &q) {
                    rep.finding("impl_vs_property", "C04:qc-verify-wrong", format!("mutation {}: real verify says {} but the certificate is {}", label, real, if Monitor::valid_qc(&u, &q) { "valid" } else { "invalid" }), json!({"engine": "verify", "kind": "qc", "stakes": u.stakes, "seed": o.seed, "qc": crate::e3_cons::hex(&bincode::serialize(&q).unwrap())}));
                }
                if !q.votes.is_empty() {
                    distinct.insert(format!("{}{}", csym, u.qc_sym(&q)));
                }
            }
            1 => {
                let entries: Vec<(u64, u64)> = signers.iter().map(|s| (*s, rng.gen_range(0, round))).collect();
                let mut t = u.mk_tc(round, &entries);
                let label = mutate_tc(&mut u, &mut rng, &mut t);
                let real = verdict(t.verify(&committee));
                let got = model.ask(&format!("(verify-tc {} {})", csym, u.tc_sym(&t)));
                rep.hit(&format!("tc.{}.{}", label, if real == "ok" { "accept" } else { "reject" }));
                if got != real {
                    rep.finding("impl_vs_model", "C04:verify-tc", format!("mutation {} real {} model {} tc {}", label, real, got, u.tc_sym(&t)), replay.clone());
                }
                if (real == "ok") != Monitor::valid_tc(&u, &t) {
                    rep.finding("impl_vs_property", "C04:tc-verify-wrong", format!("mutation {}: real verify says {}", label, real), json!({"engine": "verify", "kind": "tc", "stakes": u.stakes, "seed": o.seed, "tc": crate::e3_cons::hex(&bincode::serialize(&t).unwrap())}));
                }
                if !t.votes.is_empty() {
                    distinct.insert(format!("{}{}", csym, u.tc_sym(&t)));
                }
            }
            2 => {
                // block: valid parent QC (or genesis), optional TC, then tamper with signed fields
                let qc = if rng.gen_bool(0.2) { QC::genesis() } else { u.mk_qc(parent.digest(), round, &signers) };
                // the block either extends its QC directly (round = qc.round + 1: rule 2 does not need the
                // TC) or skips a round; a TC may be attached in both shapes and must be checked in both
                let bround = qc.round + if rng.gen_bool(0.45) { 1 } else { 2 };
                let tc = if rng.gen_bool(0.55) {
                    let entries: Vec<(u64, u64)> = quorum_signers(&u, &mut rng).iter().map(|s| (*s, 0)).collect();
                    Some(u.mk_tc(if rng.gen_bool(0.8) { bround - 1 } else { bround + rng.gen_range(0, 5) }, &entries))
                } else {
                    None
                };
                let author = rng.gen_range(1, u.n() as u64 + 1);
                let mut b = u.mk_block(author, bround, qc, tc, vec![]);
                let label = match rng.gen_range(0, 12) {
                    0 | 1 => "none",
                    9 | 10 | 11 if b.tc.is_some() => {
                        // only the attached TC is at fault (it is not covered by the block digest, so
                        // anyone can splice it onto an honest block)
                        let mut t = b.tc.take().unwrap();
                        let l = mutate_tc(&mut u, &mut rng, &mut t);
                        b.tc = Some(t);
                        if b.round == b.qc.round + 1 { "direct+tc-mutated" } else { l }
                    }
                    9 | 10 | 11 => "none",
                    2 => {
                        b.round += 1;
                        "round-changed"
                    }
                    3 => {
                        b.payload.push(crate::sym::sha(b"x"));
                        "payload-changed"
                    }
                    4 => {
                        b.author = u.pk((author % u.n() as u64) + 1);
                        "author-changed"
                    }
                    5 => {
                        b.qc.hash = crate::sym::sha(b"y");
                        "parent-changed"
                    }
                    6 => {
                        b.signature = u.junk_sig();
                        "junk-signature"
                    }
                    7 => {
                        let l = mutate_qc(&mut u, &mut rng, &mut b.qc);
                        // re-sign so that only the certificate is at fault
                        u.register_block(&b);
                        b.signature = u.sign(author, Content::Block(b.digest()));
                        l
                    }
                    _ => {
                        // the signature of a vote for this very digest instead of a block signature
                        b.signature = u.sign(author, Content::Vote(b.digest(), b.round));
                        "wrong-kind-signature"
                    }
                };
                u.register_block(&b);
                let real = verdict(b.verify(&committee));
                let got = model.ask(&format!("(verify-block {} {})", csym, u.block_sym(&b)));
                rep.hit(&format!("block.{}.{}", label, if real == "ok" { "accept" } else { "reject" }));
                if got != real {
                    rep.finding("impl_vs_model", "C04:verify-block", format!("mutation {} real {} model {} block {}", label, real, got, u.block_sym(&b)), replay.clone());
                }
                let should = u.stake(u.key_id(&b.author)) > 0
                    && b.signature.verify(&b.digest(), &b.author).is_ok()
                    && Monitor::valid_qc(&u, &b.qc)
                    && b.tc.as_ref().map_or(true, |t| Monitor::valid_tc(&u, t));
                if (real == "ok") != should {
                    rep.finding("impl_vs_property", "C04:block-verify-wrong", format!("mutation {}: real verify says {}", label, real), json!({"engine": "verify", "kind": "block", "stakes": u.stakes, "seed": o.seed, "block": crate::e3_cons::hex(&bincode::serialize(&b).unwrap())}));
                }
                distinct.insert(format!("{}{}", csym, u.block_sym(&b)));
            }
            3 => {
                let author = if rng.gen_bool(0.85) { rng.gen_range(1, u.n() as u64 + 1) } else { 100 };
                let mut v = u.mk_vote(parent.digest(), round, author);
                let label = match rng.gen_range(0, 5) {
                    0 | 1 => "none",
                    2 => {
                        v.round += 1;
                        "round-changed"
                    }
                    3 => {
                        v.hash = crate::sym::sha(b"z");
                        "hash-changed"
                    }
                    _ => {
                        v.author = u.pk((author % u.n() as u64) + 1);
                        "author-changed"
                    }
                };
                let real = verdict(v.verify(&committee));
                let got = model.ask(&format!("(verify-vote {} {})", csym, u.vote_sym(&v)));
                rep.hit(&format!("vote.{}.{}", label, if real == "ok" { "accept" } else { "reject" }));
                if got != real {
                    rep.finding("impl_vs_model", "C04:verify-vote", format!("mutation {} real {} model {}", label, real, got), replay.clone());
                }
                let should = u.stake(u.key_id(&v.author)) > 0 && v.signature.verify(&crate::sym::vote_digest(&v.hash, v.round), &v.author).is_ok();
                if (real == "ok") != should {
                    rep.finding("impl_vs_property", "C04:vote-verify-wrong", format!("mutation {}: real verify says {}", label, real), replay.clone());
                }
                distinct.insert(format!("{}{}", csym, u.vote_sym(&v)));
            }
            _ => {
                let author = if rng.gen_bool(0.85) { rng.gen_range(1, u.n() as u64 + 1) } else { 101 };
                let hq = if rng.gen_bool(0.3) { QC::genesis() } else { u.mk_qc(parent.digest(), round, &signers) };
                let mut t = u.mk_timeout(round + 3, hq, author);
                let label = match rng.gen_range(0, 5) {
                    0 | 1 => "none",
                    2 => {
                        t.round += 1;
                        "round-changed"
                    }
                    3 => {
                        t.high_qc.round += 1;
                        "hq-round-changed"
                    }
                    _ => mutate_qc(&mut u, &mut rng, &mut t.high_qc),
                };
                let real = verdict(t.verify(&committee));
                let got = model.ask(&format!("(verify-timeout {} {})", csym, u.timeout_sym(&t)));
                rep.hit(&format!("timeout.{}.{}", label, if real == "ok" { "accept" } else { "reject" }));
                if got != real {
                    rep.finding("impl_vs_model", "C04:verify-timeout", format!("mutation {} real {} model {} timeout {}", label, real, got, u.timeout_sym(&t)), replay.clone());
                }
                let should = u.stake(u.key_id(&t.author)) > 0
                    && t.signature.verify(&crate::sym::timeout_digest(t.round, t.high_qc.round), &t.author).is_ok()
                    && Monitor::valid_qc(&u, &t.high_qc);
                if (real == "ok") != should {
                    rep.finding("impl_vs_property", "C04:timeout-verify-wrong", format!("mutation {}: real verify says {}", label, real), replay.clone());
                }
                distinct.insert(format!("{}{}", csym, u.timeout_sym(&t)));
            }
        }
        rep.evaluations += 1;
        if i % 400 == 0 {
            rep.sample(json!({"committee": csym, "case": i}));
        }
    }
    rep.distinct_nontrivial = distinct.len() as u64;
    rep.model_requests = model.requests;
    rep
}

fn raw_key(rng: &mut SmallRng) -> PublicKey {
    let mut k = [0u8; 32];
    rng.fill(&mut k);
    PublicKey(k)
}

pub fn run_leader(o: &Opts) -> Report {
    let mut rep = Report::new("leader", &o.prop, &o.tier, o.seed);
    rep.rule = "random committees of 1-12 random 32-byte keys (incl. keys sharing long prefixes) built in several insertion orders; rounds 0.., random u64 rounds and rounds near 2^64-1; real get_leader vs the model over the keys' rank order; non-trivial when n >= 2".into();
    let mut rng = SmallRng::seed_from_u64(o.seed);
    let mut model = Model::spawn();
    let cases = if o.thorough() { 4000 } else { 400 };
    let mut distinct = 0;
    for i in 0..cases {
        let n = rng.gen_range(1, 13usize);
        let mut keys: Vec<PublicKey> = (0..n).map(|_| raw_key(&mut rng)).collect();
        if rng.gen_bool(0.3) && n >= 2 {
            // keys that differ only in the last byte / first byte
            let base = keys[0];
            for (j, k) in keys.iter_mut().enumerate() {
                *k = base;
                k.0[if j % 2 == 0 { 31 } else { 0 }] = j as u8;
                k.0[15] = (j / 2) as u8;
            }
        }
        keys.sort();
        keys.dedup();
        let n = keys.len();
        let mk = |order: &Vec<usize>| -> LeaderElector {
            let info = order.iter().map(|i| (keys[*i], 1u32, format!("127.0.0.1:{}", 5000 + i).parse().unwrap())).collect();
            LeaderElector::new(Committee::new(info, 1))
        };
        let id_order: Vec<usize> = (0..n).collect();
        let mut shuffled = id_order.clone();
        shuffled.shuffle(&mut rng);
        let mut rev = id_order.clone();
        rev.reverse();
        let e1 = mk(&id_order);
        let e2 = mk(&shuffled);
        let e3 = mk(&rev);
        let rank: HashMap<[u8; 32], usize> = keys.iter().enumerate().map(|(i, k)| (k.0, i + 1)).collect();
        let mut rounds: Vec<u64> = (0..(2 * n as u64 + 3)).collect();
        for _ in 0..6 {
            rounds.push(rng.gen());
        }
        rounds.extend_from_slice(&[u64::MAX, u64::MAX - 1, u64::MAX - n as u64, 1u64 << 63, (1u64 << 32) - 1, 1u64 << 32]);
        let csym = format!("({})", shuffled.iter().map(|i| format!("({} 1)", i + 1)).collect::<Vec<_>>().join(" "));
        let replay = json!({"engine": "leader", "seed": o.seed, "case": i});
        for r in &rounds {
            let l1 = e1.get_leader(*r);
            let l2 = e2.get_leader(*r);
            let l3 = e3.get_leader(*r);
            if l1 != l2 || l1 != l3 {
                rep.finding("impl_vs_property", "C09:leader-depends-on-insertion-order", format!("round {} n {}", r, n), replay.clone());
            }
            let got = model.ask(&format!("(leader {} {})", csym, r));
            let want = rank[&l1.0].to_string();
            if got != want {
                rep.finding("impl_vs_model", "C09:leader", format!("round {} n {} real rank {} model {}", r, n, want, got), replay.clone());
            }
            rep.evaluations += 1;
        }
        // rotation: any n consecutive rounds hit each authority exactly once
        for start in [0u64, 7, rng.gen::<u64>() >> 1, u64::MAX - 3 * n as u64] {
            let set: HashSet<[u8; 32]> = (0..n as u64).map(|k| e1.get_leader(start + k).0).collect();
            if set.len() != n {
                rep.finding("impl_vs_property", "C09:rotation-not-fair", format!("{} consecutive rounds from {} hit only {} leaders", n, start, set.len()), replay.clone());
            }
        }
        if n >= 2 {
            distinct += 1;
        }
        rep.hit(&format!("n{}", n));
        if i % 100 == 0 {
            rep.sample(json!({"n": n, "rounds": rounds.len(), "committee": csym}));
        }
    }
    rep.distinct_nontrivial = distinct;
    rep.model_requests = model.requests;
    rep
}

pub fn run_aggregator(o: &Opts) -> Report {
    let mut rep = Report::new("aggregator", &o.prop, &o.tier, o.seed);
    rep.rule = "random sequences of add_vote / add_timeout / cleanup on the real Aggregator (duplicates, conflicting votes of one author, several blocks per round, stale and future rounds, unequal stakes) against the model; distinct by seed, non-trivial when >= 1 certificate is formed".into();
    let mut rng = SmallRng::seed_from_u64(o.seed);
    let mut model = Model::spawn();
    let cases = if o.thorough() { 3000 } else { 300 };
    let mut distinct = 0;
    for i in 0..cases {
        let mut u = Universe::new(o.seed.wrapping_add(i), stake_styles(&mut rng), 4000);
        let committee = u.committee();
        let mut agg = Aggregator::new(committee);
        model.ask(&format!("(agg-init {})", u.committee_sym()));
        let blocks: Vec<Digest> = (0..3).map(|k| u.mk_block(1, 1 + k, QC::genesis(), None, vec![]).digest()).collect();
        let mut ops = Vec::new();
        let mut formed = 0;
        // monitor state: distinct verified stake per (hash, round) / per round since the last cleanup
        let mut seen_v: HashMap<([u8; 32], u64), HashSet<u64>> = HashMap::new();
        let mut seen_t: HashMap<u64, HashSet<u64>> = HashMap::new();
        let mut made_q: HashSet<([u8; 32], u64)> = HashSet::new();
        let mut made_t: HashSet<u64> = HashSet::new();
        let staked: Vec<u64> = (1..=u.n() as u64).filter(|a| u.stake(*a) > 0).collect();
        if staked.is_empty() {
            continue;
        }
        let n_ops = rng.gen_range(5, 40);
        for _ in 0..n_ops {
            let replay = json!({"engine": "aggregator", "seed": o.seed, "case": i, "ops": ops});
            match rng.gen_range(0, 10) {
                0..=5 => {
                    // Core only adds votes that passed `verify`, i.e. of authors with stake
                    let author = *staked.choose(&mut rng).unwrap();
                    let round = rng.gen_range(1, 4u64);
                    let h = blocks.choose(&mut rng).unwrap().clone();
                    let v = u.mk_vote(h.clone(), round, author);
                    ops.push(format!("vote {} r{} by {}", u.digest_sym(&h), round, author));
                    let real = agg.add_vote(v.clone());
                    let got = model.ask(&format!("(agg-vote {})", u.vote_sym(&v)));
                    let want = match &real {
                        Ok(None) => "none".to_string(),
                        Ok(Some(q)) => u.qc_sym(q),
                        Err(e) => format!("(err {})", err_class(e)),
                    };
                    if got != want {
                        rep.finding("impl_vs_model", "C19:add_vote", format!("real {} model {}", want, got), replay.clone());
                    }
                    let key = (h.0, round);
                    let fresh = seen_v.entry(key).or_default().insert(author);
                    let w: u64 = seen_v[&key].iter().map(|a| u.stake(*a)).sum();
                    let before: u64 = w - if fresh { u.stake(author) } else { 0 };
                    match &real {
                        Ok(Some(q)) => {
                            formed += 1;
                            if !Monitor::valid_qc(&u, q) || q.hash != h || q.round != round {
                                rep.finding("impl_vs_property", "C19:assembled-qc-invalid", format!("{}", u.qc_sym(q)), replay.clone());
                            }
                            if !(fresh && before < u.quorum() && w >= u.quorum()) {
                                rep.finding("impl_vs_property", "C19:qc-not-at-crossing", format!("QC returned with distinct stake {} -> {} (quorum {})", before, w, u.quorum()), replay.clone());
                            }
                            if !made_q.insert(key) {
                                rep.finding("impl_vs_property", "C19:qc-formed-twice", format!("{}", u.qc_sym(q)), replay.clone());
                            }
                        }
                        Ok(None) => {
                            if fresh && before < u.quorum() && w >= u.quorum() && !made_q.contains(&key) {
                                rep.finding("impl_vs_property", "C19:qc-missed", format!("distinct stake reached {} (quorum {}) but no QC", w, u.quorum()), replay.clone());
                            }
                        }
                        Err(_) => {
                            if fresh {
                                rep.finding("impl_vs_property", "C19:first-vote-refused", "a first vote of an authority was refused".into(), replay.clone());
                            }
                        }
                    }
                    rep.hit("op.vote");
                }
                6..=8 => {
                    let author = *staked.choose(&mut rng).unwrap();
                    let round = rng.gen_range(1, 4u64);
                    let t = u.mk_timeout(round, QC::genesis(), author);
                    ops.push(format!("timeout r{} by {}", round, author));
                    let real = agg.add_timeout(t.clone());
                    let got = model.ask(&format!("(agg-timeout {})", u.timeout_sym(&t)));
                    let want = match &real {
                        Ok(None) => "none".to_string(),
                        Ok(Some(tc)) => u.tc_sym(tc),
                        Err(e) => format!("(err {})", err_class(e)),
                    };
                    if got != want {
                        rep.finding("impl_vs_model", "C19:add_timeout", format!("real {} model {}", want, got), replay.clone());
                    }
                    let fresh = seen_t.entry(round).or_default().insert(author);
                    let w: u64 = seen_t[&round].iter().map(|a| u.stake(*a)).sum();
                    let before: u64 = w - if fresh { u.stake(author) } else { 0 };
                    if let Ok(Some(tc)) = &real {
                        formed += 1;
                        if !Monitor::valid_tc(&u, tc) || tc.round != round {
                            rep.finding("impl_vs_property", "C19:assembled-tc-invalid", format!("{}", u.tc_sym(tc)), replay.clone());
                        }
                        if !(fresh && before < u.quorum() && w >= u.quorum()) {
                            rep.finding("impl_vs_property", "C19:tc-not-at-crossing", format!("TC returned with distinct stake {} -> {} (quorum {})", before, w, u.quorum()), replay.clone());
                        }
                        if !made_t.insert(round) {
                            rep.finding("impl_vs_property", "C19:tc-formed-twice", format!("round {}", round), replay.clone());
                        }
                    } else if let Ok(None) = &real {
                        if fresh && before < u.quorum() && w >= u.quorum() && !made_t.contains(&round) {
                            rep.finding("impl_vs_property", "C19:tc-missed", format!("distinct stake reached {} (quorum {}) but no TC", w, u.quorum()), replay.clone());
                        }
                    }
                    rep.hit("op.timeout");
                }
                _ => {
                    let r = rng.gen_range(1, 4u64);
                    ops.push(format!("cleanup {}", r));
                    agg.cleanup(&r);
                    model.ask(&format!("(agg-cleanup {})", r));
                    seen_v.retain(|k, _| k.1 >= r);
                    seen_t.retain(|k, _| *k >= r);
                    made_q.retain(|k| k.1 >= r);
                    made_t.retain(|k| *k >= r);
                    rep.hit("op.cleanup");
                }
            }
        }
        rep.evaluations += 1;
        if formed > 0 {
            distinct += 1;
        }
        if i % 60 == 0 {
            rep.sample(json!({"stakes": u.stakes, "ops": ops, "certificates_formed": formed}));
        }
    }
    rep.distinct_nontrivial = distinct;
    rep.model_requests = model.requests;
    rep
}

#[allow(dead_code)]
fn unused(_: Vote, _: Timeout, _: Block) {}
