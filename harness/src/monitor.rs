//! Property monitors evaluated on the REAL node's own inputs and outputs, independently of the model.
//! A hit is an `impl_vs_property` finding (kind prefixed with the property id).
use crate::e3_cons::Stim;
use crate::report::Report;
use crate::sym::{timeout_digest, vote_digest, Universe};
use crate::world::Reaction;
use consensus::verif::{ConsensusMessage, Timeout, Vote};
use consensus::{Block, QC, TC};
use crypto::{Digest, Hash as _, PublicKey};
use std::collections::{HashMap, HashSet};

pub struct Monitor {
    node: u64,
    node_pk: PublicKey,
    n: u64,
    /// every block seen in a stimulus or an output (by digest)
    blocks: HashMap<[u8; 32], Block>,
    /// valid QCs shown to the node or assembled by it
    qcs: Vec<QC>,
    /// rounds for which the node has been given (or could assemble) a QC or TC
    evidence: HashSet<u64>,
    /// the same, without what only follows from a tally of delivered votes
    hard_evidence: HashSet<u64>,
    /// rounds for which the node was shown a certificate that does NOT verify (C04)
    invalid_shown: HashSet<u64>,
    /// (hash, round, member) named by a vote that does not verify (C04: must leave no trace)
    invalid_vote_names: HashSet<([u8; 32], u64, u64)>,
    /// a quorum of valid votes of OTHER members for (hash, round) was completed by the last stimulus
    /// while the node could not be past `round`: it must propose round+1 on that QC now (C19/C04)
    expect_qc: Option<([u8; 32], u64)>,
    /// delivered valid votes: (hash, round) -> signer ids
    votes_in: HashMap<([u8; 32], u64), HashSet<u64>>,
    /// delivered valid timeouts: round -> signer ids
    timeouts_in: HashMap<u64, HashSet<u64>>,
    batches: HashSet<[u8; 32]>,
    /// digests the node's own mempool handed to its proposer (C13)
    digests_given: Vec<[u8; 32]>,
    /// every payload digest of a block the node was shown or proposed itself
    payload_seen: HashSet<[u8; 32]>,
    // the node's own emissions, in order
    own_votes: Vec<Vote>,
    own_timeouts: Vec<Timeout>,
    own_proposals: Vec<Block>,
    own_tcs: Vec<TC>,
    /// (hash, round) the node signed a vote for (wire votes and self-votes found in its QCs)
    voted: HashMap<u64, [u8; 32]>,
    commits: Vec<Block>,
    /// highest QC round the node has put on the wire so far
    max_qc_sent: u64,
    max_voted_qc: u64,
    last_act_round: u64,
}

fn leader_of(n: u64, round: u64) -> u64 {
    round % n + 1
}

impl Monitor {
    pub fn new(u: &Universe, node: u64) -> Monitor {
        Monitor {
            node,
            node_pk: u.pk(node),
            n: u.n() as u64,
            blocks: HashMap::new(),
            qcs: vec![],
            evidence: HashSet::new(),
            hard_evidence: HashSet::new(),
            invalid_shown: HashSet::new(),
            invalid_vote_names: HashSet::new(),
            expect_qc: None,
            votes_in: HashMap::new(),
            timeouts_in: HashMap::new(),
            batches: HashSet::new(),
            digests_given: vec![],
            payload_seen: HashSet::new(),
            own_votes: vec![],
            own_timeouts: vec![],
            own_proposals: vec![],
            own_tcs: vec![],
            voted: HashMap::new(),
            commits: vec![],
            max_qc_sent: 0,
            max_voted_qc: 0,
            last_act_round: 0,
        }
    }
    pub fn commits_len(&self) -> usize {
        self.commits.len()
    }
    /// The newest block the node delivered (it is in its store: it was processed before).
    pub fn last_commit(&self) -> Option<Block> {
        self.commits.last().cloned()
    }
    pub fn votes_len(&self) -> usize {
        self.own_votes.len()
    }

    // ---------------------------------------------------------------- independent validity checks
    fn stake_of(u: &Universe, pk: &PublicKey) -> u64 {
        u.stake(u.key_id(pk))
    }

    pub fn valid_qc(u: &Universe, q: &QC) -> bool {
        if q.hash == Digest::default() && q.round == 0 {
            return true;
        }
        let mut seen = HashSet::new();
        let mut w = 0;
        for (k, s) in &q.votes {
            if !seen.insert(k.0) || Self::stake_of(u, k) == 0 {
                return false;
            }
            if s.verify(&vote_digest(&q.hash, q.round), k).is_err() {
                return false;
            }
            w += Self::stake_of(u, k);
        }
        w >= u.quorum()
    }

    pub fn valid_tc(u: &Universe, t: &TC) -> bool {
        let mut seen = HashSet::new();
        let mut w = 0;
        for (k, s, hq) in &t.votes {
            if !seen.insert(k.0) || Self::stake_of(u, k) == 0 {
                return false;
            }
            if s.verify(&timeout_digest(t.round, *hq), k).is_err() {
                return false;
            }
            w += Self::stake_of(u, k);
        }
        w >= u.quorum()
    }

    fn valid_block(u: &Universe, b: &Block) -> bool {
        Self::stake_of(u, &b.author) > 0
            && b.signature.verify(&b.digest(), &b.author).is_ok()
            && Self::valid_qc(u, &b.qc)
            && b.tc.as_ref().map_or(true, |t| Self::valid_tc(u, t))
    }

    fn note_qc(&mut self, q: &QC) {
        if q.round > 0 && !self.qcs.iter().any(|x| x.hash == q.hash && x.round == q.round) {
            self.qcs.push(q.clone());
        }
        self.hard_evidence.insert(q.round);
        self.evidence.insert(q.round);
    }

    fn weight(u: &Universe, ids: &HashSet<u64>) -> u64 {
        ids.iter().map(|i| u.stake(*i)).sum()
    }

    /// What the stimulus shows the node (only what an honest verifier would accept counts).
    fn absorb_stimulus(&mut self, u: &mut Universe, s: &Stim) {
        match s {
            Stim::Batch(d) => {
                self.batches.insert(d.0);
            }
            Stim::Digest(d) => {
                self.batches.insert(d.0);
                if !self.digests_given.contains(&d.0) {
                    self.digests_given.push(d.0);
                }
            }
            Stim::Msg(ConsensusMessage::Propose(b)) => {
                // a block's digest does not cover the body of its QC (only `qc.hash`) nor its TC, so two
                // different messages can carry one digest; a vote names the digest only.  A variant
                // that verifies is never replaced by one that does not: the vote is judged against a
                // block the node could have accepted, if it was shown one.
                let keep_old = match self.blocks.get(&b.digest().0) {
                    Some(old) => Self::valid_block(u, old) && !Self::valid_block(u, b),
                    None => false,
                };
                if !keep_old {
                    self.blocks.insert(b.digest().0, b.clone());
                }
                for d in &b.payload {
                    self.payload_seen.insert(d.0);
                }
                if Self::valid_block(u, b) && u.key_id(&b.author) == leader_of(self.n, b.round) {
                    let q = b.qc.clone();
                    self.note_qc(&q);
                    if let Some(t) = &b.tc {
                        self.hard_evidence.insert(t.round);
        self.evidence.insert(t.round);
                    }
                } else {
                    if !Self::valid_qc(u, &b.qc) {
                        self.invalid_shown.insert(b.qc.round);
                    }
                    if let Some(t) = &b.tc {
                        if !Self::valid_tc(u, t) {
                            self.invalid_shown.insert(t.round);
                        }
                    }
                }
            }
            Stim::Msg(ConsensusMessage::Vote(v)) => {
                if Self::stake_of(u, &v.author) > 0 && v.signature.verify(&vote_digest(&v.hash, v.round), &v.author).is_ok() {
                    let id = u.key_id(&v.author);
                    let e = self.votes_in.entry((v.hash.0, v.round)).or_default();
                    let others_before = Self::weight(u, &e.iter().cloned().filter(|x| *x != self.node).collect());
                    e.insert(id);
                    let others_after = Self::weight(u, &e.iter().cloned().filter(|x| *x != self.node).collect());
                    let mut ids = e.clone();
                    ids.insert(self.node); // the node may add its own vote
                    // "exactly when": the others alone now hold a quorum for this block; if the node
                    // cannot be past the vote's round (no certificate of that round or above was ever
                    // available to it) and it leads the next round, the QC and its proposal are due
                    if others_before < u.quorum()
                        && others_after >= u.quorum()
                        && leader_of(self.n, v.round + 1) == self.node
                        && !self.hard_evidence.iter().any(|r| *r >= v.round)
                        && !self.own_proposals.iter().any(|b| b.round == v.round + 1)
                    {
                        self.expect_qc = Some((v.hash.0, v.round));
                    }
                    if Self::weight(u, &ids) >= u.quorum() {
                        self.evidence.insert(v.round);
                    }
                } else if Self::stake_of(u, &v.author) > 0 {
                    self.invalid_vote_names.insert((v.hash.0, v.round, u.key_id(&v.author)));
                }
            }
            Stim::Msg(ConsensusMessage::Timeout(t)) => {
                if Self::stake_of(u, &t.author) > 0
                    && t.signature.verify(&timeout_digest(t.round, t.high_qc.round), &t.author).is_ok()
                    && Self::valid_qc(u, &t.high_qc)
                {
                    let q = t.high_qc.clone();
                    self.note_qc(&q);
                    let id = u.key_id(&t.author);
                    let e = self.timeouts_in.entry(t.round).or_default();
                    e.insert(id);
                    let mut ids = e.clone();
                    ids.insert(self.node);
                    if Self::weight(u, &ids) >= u.quorum() {
                        self.hard_evidence.insert(t.round);
        self.evidence.insert(t.round);
                    }
                } else if !Self::valid_qc(u, &t.high_qc) {
                    self.invalid_shown.insert(t.high_qc.round);
                }
            }
            Stim::Msg(ConsensusMessage::TC(t)) => {
                if Self::valid_tc(u, t) {
                    self.hard_evidence.insert(t.round);
        self.evidence.insert(t.round);
                } else {
                    self.invalid_shown.insert(t.round);
                }
            }
            _ => {}
        }
    }

    fn is_ancestor_or_self(&self, x: &Digest, of: &Block) -> bool {
        let mut cur = of.clone();
        for _ in 0..10_000 {
            if &cur.digest() == x {
                return true;
            }
            match self.blocks.get(&cur.qc.hash.0) {
                Some(p) => cur = p.clone(),
                None => return false,
            }
        }
        false
    }

    fn act_round(&mut self, rep: &mut Report, replay: &serde_json::Value, round: u64, what: &str) {
        // C10: the round the node acts in never decreases and is backed by a certificate of round-1
        if round < self.last_act_round {
            rep.finding("impl_vs_property", "C10:round-decreased", format!("{} for round {} after acting in round {}", what, round, self.last_act_round), replay.clone());
        }
        if round > 1 && !self.evidence.contains(&(round - 1)) {
            rep.finding("impl_vs_property", "C10:round-without-certificate", format!("{} in round {} but no QC/TC of round {} was ever available to the node", what, round, round - 1), replay.clone());
            if self.invalid_shown.contains(&(round - 1)) {
                rep.finding(
                    "impl_vs_property",
                    "C04:invalid-certificate-took-effect",
                    format!("{} in round {}: the only certificate of round {} the node was ever shown does not verify (sub-quorum / bad or repeated signers), yet the node moved on it", what, round, round - 1),
                    replay.clone(),
                );
            }
        }
        self.last_act_round = self.last_act_round.max(round);
    }

    fn check_vote(&mut self, u: &mut Universe, rep: &mut Report, replay: &serde_json::Value, hash: &Digest, round: u64, wire: bool) {
        // C03 one vote per round (wire votes and self-votes alike)
        if let Some(prev) = self.voted.get(&round) {
            if prev != &hash.0 {
                rep.finding("impl_vs_property", "C03:two-votes-one-round", format!("node signed votes for two different blocks in round {}", round), replay.clone());
            }
            if wire {
                rep.finding("impl_vs_property", "C03:vote-repeated", format!("node sent a second vote in round {}", round), replay.clone());
            }
        } else {
            if wire {
                if let Some(m) = self.voted.keys().max() {
                    if *m >= round {
                        rep.finding("impl_vs_property", "C03:vote-rounds-not-increasing", format!("vote for round {} after a vote for round {}", round, m), replay.clone());
                    }
                }
                if let Some(t) = self.own_timeouts.iter().map(|t| t.round).max() {
                    if t >= round {
                        rep.finding("impl_vs_property", "C03:vote-after-timeout", format!("vote for round {} after a timeout for round {}", round, t), replay.clone());
                    }
                }
            }
            self.voted.insert(round, hash.0);
        }
        let b = match self.blocks.get(&hash.0) {
            Some(b) => b.clone(),
            None => {
                rep.finding("impl_vs_property", "C03:vote-for-unknown-block", format!("vote for a block the node was never given (round {})", round), replay.clone());
                return;
            }
        };
        if b.round != round {
            rep.finding("impl_vs_property", "C03:vote-round-mismatch", format!("vote round {} for a block of round {}", round, b.round), replay.clone());
        }
        let via_qc = b.qc.round + 1 == b.round;
        let via_tc = b.tc.as_ref().map_or(false, |t| t.round + 1 == b.round && t.votes.iter().all(|(_, _, hq)| *hq <= b.qc.round) && !t.votes.is_empty());
        if !(via_qc || via_tc) || b.qc.round >= b.round {
            rep.finding("impl_vs_property", "C03:unsafe-extension", format!("voted block of round {} has qc round {} and tc {:?}", b.round, b.qc.round, b.tc.as_ref().map(|t| (t.round, t.votes.iter().map(|v| v.2).collect::<Vec<_>>()))), replay.clone());
        }
        if !Self::valid_block(u, &b) {
            rep.finding("impl_vs_property", "C04:vote-for-invalid-block", format!("voted block of round {} does not verify", b.round), replay.clone());
        }
        // C09 only the round's leader
        if u.key_id(&b.author) != leader_of(self.n, b.round) {
            rep.finding("impl_vs_property", "C09:vote-for-non-leader", format!("voted for a block of round {} by {} (leader is {})", b.round, u.key_id(&b.author), leader_of(self.n, b.round)), replay.clone());
        }
        // C08 data availability (blocks of other authors)
        if b.author != self.node_pk {
            for d in &b.payload {
                if !self.batches.contains(&d.0) {
                    rep.finding("impl_vs_property", "C08:vote-without-batch", format!("voted for a block of round {} whose batch is not in the store", b.round), replay.clone());
                }
            }
        }
        self.max_voted_qc = self.max_voted_qc.max(b.qc.round);
    }

    fn check_assembled_qc(&mut self, u: &mut Universe, rep: &mut Report, replay: &serde_json::Value, q: &QC) {
        if q.round == 0 && q.hash == Digest::default() {
            return;
        }
        if self.qcs.iter().any(|x| x.hash == q.hash && x.round == q.round && x.votes.len() == q.votes.len()) {
            return; // a certificate it was shown
        }
        // C19: valid, every entry is a vote it received (or its own)
        if !Self::valid_qc(u, q) {
            rep.finding("impl_vs_property", "C19:assembled-qc-invalid", format!("QC of round {} sent by the node does not verify", q.round), replay.clone());
        }
        let got = self.votes_in.get(&(q.hash.0, q.round)).cloned().unwrap_or_default();
        for (k, _) in &q.votes {
            let id = u.key_id(k);
            if id == self.node {
                // self-vote: subject to the voting rules
                let h = q.hash.clone();
                self.check_vote(u, rep, replay, &h, q.round, false);
            } else if !got.contains(&id) {
                rep.finding("impl_vs_property", "C19:qc-entry-without-vote", format!("QC of round {} contains a vote of {} that was never delivered", q.round, id), replay.clone());
            }
        }
        // only a certificate that verifies is evidence for anything (rounds entered, commits)
        if Self::valid_qc(u, q) {
            let q2 = q.clone();
            self.note_qc(&q2);
        }
    }

    /// Feed one stimulus (None = boot) and the node's reaction to it.
    pub fn observe(&mut self, u: &mut Universe, s: Option<&Stim>, r: &Reaction, rep: &mut Report, replay: &serde_json::Value) {
        if let Some(s) = s {
            self.absorb_stimulus(u, s);
        }
        // --- frames, deduplicated per message (a broadcast is one act)
        let mut seen_props: HashSet<[u8; 32]> = HashSet::new();
        let mut seen_to: HashSet<(u64, u64)> = HashSet::new();
        let mut seen_tc: HashSet<u64> = HashSet::new();
        for (to, m) in &r.frames {
            match m {
                ConsensusMessage::Vote(v) => {
                    if v.author != self.node_pk || v.signature.verify(&vote_digest(&v.hash, v.round), &v.author).is_err() {
                        rep.finding("impl_vs_property", "C04:own-vote-bad-signature", format!("vote of round {}", v.round), replay.clone());
                    }
                    if *to != leader_of(self.n, v.round + 1) {
                        rep.finding("impl_vs_property", "C09:vote-sent-to-non-leader", format!("vote of round {} sent to {}", v.round, to), replay.clone());
                    }
                    self.act_round(rep, replay, v.round, "vote");
                    let h = v.hash.clone();
                    self.check_vote(u, rep, replay, &h, v.round, true);
                    self.own_votes.push(v.clone());
                }
                ConsensusMessage::Timeout(t) => {
                    if !seen_to.insert((t.round, t.high_qc.round)) {
                        continue;
                    }
                    self.act_round(rep, replay, t.round, "timeout");
                    if t.author != self.node_pk || t.signature.verify(&timeout_digest(t.round, t.high_qc.round), &t.author).is_err() || !Self::valid_qc(u, &t.high_qc) {
                        rep.finding("impl_vs_property", "C04:own-timeout-invalid", format!("timeout of round {}", t.round), replay.clone());
                    }
                    // C10: carries a QC at least as high as any voted block's QC and any QC sent before
                    if t.high_qc.round < self.max_voted_qc {
                        rep.finding("impl_vs_property", "C10:timeout-qc-below-voted", format!("timeout round {} carries QC round {} < QC round {} of a voted block", t.round, t.high_qc.round, self.max_voted_qc), replay.clone());
                    }
                    if t.high_qc.round < self.max_qc_sent {
                        rep.finding("impl_vs_property", "C10:timeout-qc-below-sent", format!("timeout round {} carries QC round {} < QC round {} sent before", t.round, t.high_qc.round, self.max_qc_sent), replay.clone());
                    }
                    self.max_qc_sent = self.max_qc_sent.max(t.high_qc.round);
                    let q = t.high_qc.clone();
                    self.check_assembled_qc(u, rep, replay, &q);
                    self.own_timeouts.push(t.clone());
                }
                ConsensusMessage::TC(t) => {
                    if !seen_tc.insert(t.round) {
                        continue;
                    }
                    // C19: valid, entries are timeouts it received (or its own), formed once per round
                    if !Self::valid_tc(u, t) {
                        rep.finding("impl_vs_property", "C19:assembled-tc-invalid", format!("TC of round {}", t.round), replay.clone());
                    }
                    let got = self.timeouts_in.get(&t.round).cloned().unwrap_or_default();
                    for (k, _, _) in &t.votes {
                        let id = u.key_id(k);
                        if id != self.node && !got.contains(&id) {
                            rep.finding("impl_vs_property", "C19:tc-entry-without-timeout", format!("TC of round {} contains {} whose timeout was never delivered", t.round, id), replay.clone());
                        }
                        if id == self.node && !self.own_timeouts.iter().any(|x| x.round == t.round) {
                            rep.finding("impl_vs_property", "C19:tc-entry-without-timeout", format!("TC of round {} contains the node itself which never timed out", t.round), replay.clone());
                        }
                    }
                    if self.own_tcs.iter().any(|x| x.round == t.round) {
                        rep.finding("impl_vs_property", "C19:tc-formed-twice", format!("second TC for round {}", t.round), replay.clone());
                    }
                    self.hard_evidence.insert(t.round);
        self.evidence.insert(t.round);
                    self.own_tcs.push(t.clone());
                }
                ConsensusMessage::Propose(b) => {
                    if b.author == self.node_pk {
                        if !seen_props.insert(b.digest().0) {
                            continue;
                        }
                        self.blocks.insert(b.digest().0, b.clone());
                        if self.own_proposals.iter().any(|x| x.digest() == b.digest()) {
                            continue; // a helper reply re-sending our own block
                        }
                        // C09: never two proposals for one round; only as the round's leader
                        if self.own_proposals.iter().any(|x| x.round == b.round) {
                            rep.finding("impl_vs_property", "C09:equivocation", format!("two different proposals for round {}", b.round), replay.clone());
                        }
                        if leader_of(self.n, b.round) != self.node {
                            rep.finding("impl_vs_property", "C09:proposal-by-non-leader", format!("proposed in round {} led by {}", b.round, leader_of(self.n, b.round)), replay.clone());
                        }
                        if !Self::valid_block(u, b) {
                            rep.finding("impl_vs_property", "C19:own-proposal-invalid", format!("own proposal of round {} does not verify at an honest node", b.round), replay.clone());
                        }
                        self.act_round(rep, replay, b.round, "proposal");
                        let q = b.qc.clone();
                        self.check_assembled_qc(u, rep, replay, &q);
                        self.max_qc_sent = self.max_qc_sent.max(b.qc.round);
                        // C13: everything its mempool handed over and no block has carried yet goes into
                        // this proposal (the proposer drains its whole buffer)
                        for d in &b.payload {
                            self.payload_seen.insert(d.0);
                        }
                        let missing = self.digests_given.iter().filter(|d| !self.payload_seen.contains(*d)).count();
                        if missing > 0 {
                            rep.finding("impl_vs_property", "C13:digest-never-proposed", format!("own proposal of round {} carries {} digests, but {} digests handed over by the node's mempool before it are in no block the node has seen or made: they were dropped from the proposer's buffer", b.round, b.payload.len(), missing), replay.clone());
                        }
                        self.digests_given.retain(|d| !self.payload_seen.contains(d));
                        self.own_proposals.push(b.clone());
                    } else {
                        // a helper reply: must be exactly a block it was given / stored
                        match self.blocks.get(&b.digest().0) {
                            None => rep.finding("impl_vs_property", "C07:helper-sent-unknown-block", format!("round {}", b.round), replay.clone()),
                            Some(_) => {}
                        }
                        if let Some(Stim::Msg(ConsensusMessage::SyncRequest(d, _))) = s {
                            if &b.digest() != d {
                                rep.finding("impl_vs_property", "C07:helper-wrong-block", "reply is not the block stored under the requested digest".into(), replay.clone());
                            }
                        }
                        self.max_qc_sent = self.max_qc_sent.max(b.qc.round);
                    }
                }
                ConsensusMessage::SyncRequest(..) => {}
            }
        }
        // --- a quorum of valid votes must yield the QC and the proposal (C19 "exactly when"; C04: a vote
        // that was rejected earlier must not stand in the way)
        if let Some((h, r)) = self.expect_qc.take() {
            let proposed = self.own_proposals.iter().any(|b| b.round == r + 1 && b.qc.hash.0 == h);
            if !proposed {
                let voters = self.votes_in.get(&(h, r)).cloned().unwrap_or_default();
                let blocked: Vec<u64> = voters.iter().cloned().filter(|m| self.invalid_vote_names.contains(&(h, r, *m))).collect();
                rep.finding("impl_vs_property", "C19:qc-missed", format!("valid votes of members {:?} (a quorum without the node) for one block of round {} were delivered to the node, leader of round {}, which cannot be past round {}; it proposed nothing on that QC", voters, r, r + 1, r), replay.clone());
                if !blocked.is_empty() {
                    rep.finding("impl_vs_property", "C04:rejected-message-changed-behaviour", format!("round {}: a vote naming member(s) {:?} that does not verify was delivered (and must have been rejected) before their genuine votes; afterwards the genuine quorum no longer produced a QC", r, blocked), replay.clone());
                }
            }
        }
        // --- commits
        for b in &r.commits {
            self.blocks.entry(b.digest().0).or_insert_with(|| b.clone());
            // C02
            if b.round == 0 || b.digest() == Block::genesis().digest() {
                rep.finding("impl_vs_property", "C02:genesis-delivered", "the genesis placeholder was delivered".into(), replay.clone());
            }
            match self.commits.last() {
                None => {
                    if !(b.qc.hash == Digest::default() && b.qc.round == 0) {
                        rep.finding("impl_vs_property", "C02:first-delivery-not-child-of-genesis", format!("first delivered block has round {} and a non-genesis parent", b.round), replay.clone());
                    }
                }
                Some(prev) => {
                    if b.round <= prev.round {
                        rep.finding("impl_vs_property", "C02:rounds-not-increasing", format!("delivered round {} after round {}", b.round, prev.round), replay.clone());
                    }
                    if b.qc.hash != prev.digest() {
                        rep.finding("impl_vs_property", "C02:parent-not-previous-delivery", format!("delivered round {} whose parent is not the previously delivered round {}", b.round, prev.round), replay.clone());
                    }
                }
            }
            // C01 (seen at one node): everything delivered lies on one chain
            if let Some(prev) = self.commits.last() {
                if !self.is_ancestor_or_self(&prev.digest(), b) && !self.is_ancestor_or_self(&b.digest(), prev) {
                    rep.finding("impl_vs_property", "C01:conflicting-commits", format!("delivered round {} and round {} are not on one chain", prev.round, b.round), replay.clone());
                }
            }
            if self.commits.iter().any(|x| x.digest() == b.digest()) {
                rep.finding("impl_vs_property", "C02:delivered-twice", format!("round {}", b.round), replay.clone());
            }
            // C05: justified by a certified consecutive 2-chain
            let mut justified = false;
            for q in &self.qcs {
                if let Some(b1) = self.blocks.get(&q.hash.0) {
                    if b1.round != q.round {
                        continue;
                    }
                    if let Some(b0) = self.blocks.get(&b1.qc.hash.0) {
                        if b0.round + 1 == b1.round && self.is_ancestor_or_self(&b.digest(), b0) {
                            justified = true;
                            break;
                        }
                    }
                }
            }
            if !justified {
                rep.finding("impl_vs_property", "C05:commit-without-2-chain", format!("delivered round {} without a certified consecutive 2-chain above it", b.round), replay.clone());
            }
            // C08
            for d in &b.payload {
                if !self.batches.contains(&d.0) && b.author != self.node_pk {
                    rep.finding("impl_vs_property", "C08:commit-without-batch", format!("delivered round {} whose batch is not in the store", b.round), replay.clone());
                }
            }
            self.commits.push(b.clone());
        }
    }

    pub fn finish(&mut self, _u: &mut Universe, _rep: &mut Report, _replay: &serde_json::Value) {}
}
