//! E2/quorumwaiter — the real `mempool::QuorumWaiter` task against the Lean model `HS.QW` (C12).
//!
//! The harness plays the BatchMaker (sends `QuorumWaiterMessage`s) and the ReliableSender (owns the
//! sending halves of the `oneshot` cancel handlers) and observes `tx_batch` after every single event
//! with the quiescence barrier.  Events: a batch arrives with its handler list; a handler is
//! ACKed; a handler's sender is dropped.  Completions may target the batch being served, a batch
//! still queued, or a batch that is already finished (no effect).
//!
//! Compared with the model after every event: the ids forwarded in that step, in order.
//! Monitor, independent of the model: every forward happens when own stake + stake of the completed
//! handlers (real `Committee::stake`) >= the real `Committee::quorum_threshold()`, at most once per
//! batch, in arrival order, with the exact bytes that were handed in.
use crate::driver::Model;
use crate::report::Report;
use crate::Opts;
use bytes::Bytes;
use crypto::PublicKey;
use mempool::verif::{QuorumWaiter, QuorumWaiterMessage};
use rand::rngs::SmallRng;
use rand::seq::SliceRandom;
use rand::{Rng, SeedableRng};
use serde::{Deserialize, Serialize};
use serde_json::json;
use std::collections::{BTreeSet, HashMap};
use std::time::Duration;
use tokio::sync::mpsc::{channel, Receiver, Sender};
use tokio::sync::oneshot;

#[derive(Clone, Debug, Serialize, Deserialize, PartialEq)]
#[serde(tag = "ev", rename_all = "lowercase")]
pub enum Ev {
    /// names are authority numbers (1-based; numbers above the committee size are non-members)
    Batch { id: u64, names: Vec<u32> },
    Ack { id: u64, idx: usize },
    Dropped { id: u64, idx: usize },
}

#[derive(Clone, Debug, Serialize, Deserialize)]
pub struct Case {
    /// stake of authority i+1; authority 1 is the node under test
    pub stakes: Vec<u32>,
    pub events: Vec<Ev>,
}

fn key(i: u32) -> PublicKey {
    let mut k = [0u8; 32];
    k[..4].copy_from_slice(&i.to_be_bytes());
    k[31] = 7;
    PublicKey(k)
}

fn committee(stakes: &[u32]) -> mempool::Committee {
    mempool::Committee::new(
        stakes
            .iter()
            .enumerate()
            .map(|(i, s)| (key(i as u32 + 1), *s, format!("127.0.0.1:{}", 100 + i).parse().unwrap(), format!("127.0.0.1:{}", 200 + i).parse().unwrap()))
            .collect(),
        1,
    )
}

fn batch_bytes(id: u64) -> Vec<u8> {
    let mut b = id.to_le_bytes().to_vec();
    b.extend_from_slice(b"-batch-");
    b.extend(std::iter::repeat((id % 251) as u8).take((id % 5) as usize));
    b
}

async fn barrier() {
    tokio::time::sleep(Duration::from_micros(1)).await;
}

/// Per step: the batches (raw bytes) that came out of `tx_batch`.
pub struct RealRun {
    pub threshold: u32,
    pub own: u32,
    pub steps: Vec<Vec<Vec<u8>>>,
    /// keeps the task's input channel open so that the task idles instead of panicking in `select!`
    pub keep: (Sender<QuorumWaiterMessage>, Receiver<Vec<u8>>),
}

pub async fn exec_real(case: &Case) -> RealRun {
    let com = committee(&case.stakes);
    let own = com.stake(&key(1));
    let threshold = com.quorum_threshold();
    let (tx_message, rx_message) = channel(10_000);
    let (tx_batch, mut rx_batch) = channel(10_000);
    QuorumWaiter::spawn(com.clone(), own, rx_message, tx_batch);
    let mut senders: HashMap<(u64, usize), oneshot::Sender<Bytes>> = HashMap::new();
    let mut steps = Vec::new();
    for ev in &case.events {
        match ev {
            Ev::Batch { id, names } => {
                let mut handlers = Vec::new();
                for (i, n) in names.iter().enumerate() {
                    let (tx, rx) = oneshot::channel::<Bytes>();
                    senders.insert((*id, i), tx);
                    handlers.push((key(*n), rx));
                }
                tx_message.send(QuorumWaiterMessage { batch: batch_bytes(*id), handlers }).await.expect("quorum waiter gone");
            }
            Ev::Ack { id, idx } => {
                if let Some(tx) = senders.remove(&(*id, *idx)) {
                    let _ = tx.send(Bytes::from("Ack"));
                }
            }
            Ev::Dropped { id, idx } => {
                drop(senders.remove(&(*id, *idx)));
            }
        }
        barrier().await;
        let mut got = Vec::new();
        while let Ok(b) = rx_batch.try_recv() {
            got.push(b);
        }
        steps.push(got);
    }
    RealRun { threshold, own, steps, keep: (tx_message, rx_batch) }
}

fn exec_model(model: &mut Model, case: &Case) -> (String, Vec<Vec<u64>>, u64) {
    let c = case.stakes.iter().enumerate().map(|(i, s)| format!("({} {})", i + 1, s)).collect::<Vec<_>>().join(" ");
    let ok = model.ask(&format!("(qw init ({}) {})", c, case.stakes[0]));
    let mut steps = Vec::new();
    let mut gaveup = 0;
    for ev in &case.events {
        let line = match ev {
            Ev::Batch { id, names } => format!("(qw batch {} ({}))", id, names.iter().map(|n| n.to_string()).collect::<Vec<_>>().join(" ")),
            Ev::Ack { id, idx } => format!("(qw ack {} {})", id, idx),
            Ev::Dropped { id, idx } => format!("(qw dropped {} {})", id, idx),
        };
        let r = model.ask(&line);
        // (outs (forward ID (..)) (gaveup ID) ...)
        let mut fw = Vec::new();
        for part in r.split("(forward ").skip(1) {
            if let Some(id) = part.split_whitespace().next().and_then(|x| x.parse().ok()) {
                fw.push(id);
            }
        }
        gaveup += r.matches("(gaveup ").count() as u64;
        if !r.starts_with("(outs") {
            fw.push(u64::MAX);
        }
        steps.push(fw);
    }
    (ok, steps, gaveup)
}

/// Property monitor over the real run.
fn monitor(case: &Case, real: &RealRun, rep: &mut Report) -> Vec<(String, String)> {
    let com = committee(&case.stakes);
    let q = com.quorum_threshold() as u64;
    let own = com.stake(&key(1)) as u64;
    let mut out = Vec::new();
    // per batch: names, completed handler indices (ack or drop) so far, acked-only indices
    let mut names_of: HashMap<u64, Vec<u32>> = HashMap::new();
    let mut done: HashMap<u64, BTreeSet<usize>> = HashMap::new();
    let mut acked: HashMap<u64, BTreeSet<usize>> = HashMap::new();
    let mut arrival: Vec<u64> = Vec::new();
    let mut forwarded: Vec<u64> = Vec::new();
    for (step, ev) in case.events.iter().enumerate() {
        match ev {
            Ev::Batch { id, names } => {
                names_of.insert(*id, names.clone());
                arrival.push(*id);
            }
            Ev::Ack { id, idx } => {
                if names_of.get(id).map_or(false, |n| *idx < n.len()) {
                    if done.entry(*id).or_default().insert(*idx) {
                        acked.entry(*id).or_default().insert(*idx);
                    }
                }
            }
            Ev::Dropped { id, idx } => {
                if names_of.get(id).map_or(false, |n| *idx < n.len()) {
                    done.entry(*id).or_default().insert(*idx);
                }
            }
        }
        for bytes in &real.steps[step] {
            let id = if bytes.len() >= 8 { u64::from_le_bytes(bytes[..8].try_into().unwrap()) } else { u64::MAX };
            if !names_of.contains_key(&id) || *bytes != batch_bytes(id) {
                out.push(("C12:forwarded-bytes-differ".into(), format!("step {}: tx_batch delivered bytes that are no batch handed in", step)));
                continue;
            }
            if forwarded.contains(&id) {
                out.push(("C12:forwarded-twice".into(), format!("step {}: batch {} forwarded a second time", step, id)));
            }
            forwarded.push(id);
            let names = &names_of[&id];
            // distinct authorities among the completed handlers (a repeated name counts once)
            let stake_of = |set: Option<&BTreeSet<usize>>| -> u64 {
                let mut seen = BTreeSet::new();
                let mut s = 0u64;
                for i in set.map(|x| x.iter().cloned().collect::<Vec<_>>()).unwrap_or_default() {
                    if seen.insert(names[i]) {
                        s += com.stake(&key(names[i])) as u64;
                    }
                }
                s
            };
            let distinct = names.iter().collect::<BTreeSet<_>>().len() == names.len() && !names.contains(&1);
            let completed = stake_of(done.get(&id));
            let acked_only = stake_of(acked.get(&id));
            if own + completed < q {
                if distinct {
                    out.push(("C12:forwarded-below-quorum".into(), format!("step {}: batch {} forwarded with own {} + completed handlers {} < threshold {}", step, id, own, completed, q)));
                } else {
                    rep.hit("forward.double-counted-repeated-name");
                }
            } else if own + acked_only < q {
                // the code counts a dropped handle like an ACK (`let _ = wait_for.await`); C12 relies on C14 here
                rep.hit("forward.needed-dropped-handles");
            } else {
                rep.hit("forward.acked-quorum");
            }
        }
    }
    // FIFO: forwarded is a subsequence of arrival
    let mut it = arrival.iter();
    for f in &forwarded {
        if !it.any(|a| a == f) {
            out.push(("C12:forwarded-out-of-order".into(), format!("forward order {:?} is not a subsequence of arrival order {:?}", forwarded, arrival)));
            break;
        }
    }
    out
}

// ------------------------------------------------------------------ generators

fn stake_styles(n: usize, rng: &mut SmallRng) -> Vec<Vec<u32>> {
    let mut v = vec![vec![1u32; n]]; // equal
    let mut skew: Vec<u32> = (0..n).map(|i| (i as u32 * 7 + 3) % 5 + 1).collect();
    skew.rotate_left(rng.gen_range(0, n));
    v.push(skew);
    let mut dom = vec![1u32; n]; // own stake dominant (a quorum on its own when n is small)
    dom[0] = 2 * n as u32 + 1;
    v.push(dom);
    let mut dom2 = vec![1u32; n]; // another authority dominant
    dom2[n - 1] = 2 * n as u32;
    v.push(dom2);
    let mut zero: Vec<u32> = (0..n).map(|i| if i % 2 == 0 { 0 } else { 2 }).collect(); // own stake zero
    if n == 1 {
        zero[0] = 0;
    }
    v.push(zero);
    let mut zero2: Vec<u32> = (0..n).map(|i| if i % 3 == 1 { 0 } else { 1 + i as u32 }).collect();
    zero2[0] = zero2[0].max(1);
    v.push(zero2);
    v
}

/// All (subset, order) pairs of `m` handlers: every sequence of distinct indices.
fn all_orders(m: usize) -> Vec<Vec<usize>> {
    fn rec(m: usize, cur: &mut Vec<usize>, out: &mut Vec<Vec<usize>>) {
        out.push(cur.clone());
        for i in 0..m {
            if !cur.contains(&i) {
                cur.push(i);
                rec(m, cur, out);
                cur.pop();
            }
        }
    }
    let mut out = Vec::new();
    rec(m, &mut Vec::new(), &mut out);
    out
}

fn gen_multi(rng: &mut SmallRng, malformed: bool) -> Case {
    let n = rng.gen_range(1, 8usize);
    let styles = stake_styles(n, rng);
    let mut stakes = styles[rng.gen_range(0, styles.len())].clone();
    if rng.gen_range(0, 4) == 0 {
        for s in stakes.iter_mut() {
            *s = rng.gen_range(0, 6);
        }
    }
    let nb = rng.gen_range(1, 7u64);
    let mut events = Vec::new();
    let mut handlers: Vec<(u64, usize)> = Vec::new();
    let mut next = 1u64;
    let mut pending_batches = nb;
    let p_drop = rng.gen_range(0, 4);
    loop {
        let arrive = pending_batches > 0 && (handlers.is_empty() || rng.gen_range(0, 3) == 0);
        if arrive {
            let mut names: Vec<u32> = (2..=n as u32).collect();
            names.shuffle(rng);
            if rng.gen_range(0, 3) == 0 {
                let k = rng.gen_range(0, names.len() + 1);
                names.truncate(k);
            }
            if malformed {
                match rng.gen_range(0, 4) {
                    0 => names.push(99), // non-member
                    1 if !names.is_empty() => {
                        let x = names[0];
                        names.push(x) // repeated name
                    }
                    2 => names.push(1), // self
                    _ => {}
                }
            }
            for i in 0..names.len() {
                handlers.push((next, i));
            }
            events.push(Ev::Batch { id: next, names });
            next += 1;
            pending_batches -= 1;
        } else if !handlers.is_empty() {
            let k = rng.gen_range(0, handlers.len());
            let (id, idx) = if rng.gen_range(0, 12) == 0 { handlers[k] } else { handlers.swap_remove(k) };
            if rng.gen_range(0, 10) < p_drop {
                events.push(Ev::Dropped { id, idx })
            } else {
                events.push(Ev::Ack { id, idx })
            }
        }
        if pending_batches == 0 && (handlers.is_empty() || rng.gen_range(0, 25) == 0) {
            break;
        }
    }
    Case { stakes, events }
}

fn run_case(rt: &tokio::runtime::Runtime, model: Option<&mut Model>, rep: &mut Report, case: &Case, distinct: &mut BTreeSet<String>, graveyard: &mut Vec<(Sender<QuorumWaiterMessage>, Receiver<Vec<u8>>)>) {
    let real = rt.block_on(exec_real(case));
    rep.evaluations += 1;
    let replay = json!({"engine": "quorumwaiter", "stakes": case.stakes, "events": case.events});
    for (kind, detail) in monitor(case, &real, rep) {
        rep.finding("impl_vs_property", &kind, detail, replay.clone());
    }
    let forwarded: Vec<Vec<u64>> = real
        .steps
        .iter()
        .map(|s| s.iter().map(|b| if b.len() >= 8 { u64::from_le_bytes(b[..8].try_into().unwrap()) } else { u64::MAX }).collect())
        .collect();
    let nfw: usize = forwarded.iter().map(|s| s.len()).sum();
    let nbatches = case.events.iter().filter(|e| matches!(e, Ev::Batch { .. })).count();
    rep.hit(&format!("committee.n{}", case.stakes.len()));
    rep.hit(&format!("forwards_in_one_step.{}", forwarded.iter().map(|s| s.len()).max().unwrap_or(0)));
    *rep.histogram.entry("batches.forwarded".into()).or_insert(0) += nfw as u64;
    *rep.histogram.entry("batches.not-forwarded".into()).or_insert(0) += (nbatches - nfw.min(nbatches)) as u64;
    if real.own >= real.threshold {
        rep.hit("own-stake-is-quorum");
    }
    if case.stakes.len() >= 2 && case.events.len() >= 2 {
        distinct.insert(serde_json::to_string(case).unwrap());
    }
    if let Some(model) = model {
        let (ok, msteps, gaveup) = exec_model(model, case);
        *rep.histogram.entry("model.gaveup".into()).or_insert(0) += gaveup;
        let want_ok = format!("(ok {})", real.threshold);
        if ok != want_ok {
            rep.finding("impl_vs_model", "C12:threshold", format!("model {} impl {}", ok, want_ok), replay.clone());
        }
        if msteps != forwarded {
            let idx = msteps.iter().zip(forwarded.iter()).position(|(a, b)| a != b).unwrap_or(0);
            rep.finding(
                "impl_vs_model",
                "C12:forward-trace",
                format!("first differing step {} ({:?}): model forwards {:?}, impl forwards {:?}", idx, case.events.get(idx), msteps.get(idx), forwarded.get(idx)),
                replay.clone(),
            );
        }
        if rep.evaluations % 211 == 1 {
            rep.sample(json!({"stakes": case.stakes, "threshold": real.threshold, "events": case.events.iter().take(10).collect::<Vec<_>>(), "forwarded_per_step": forwarded}));
        }
    }
    graveyard.push(real.keep);
}

pub fn run(o: &Opts) -> Report {
    let mut rep = Report::new("quorumwaiter", "C12", &o.tier, o.seed);
    rep.rule = "committees of 1..7 authorities x 6 stake styles (equal, skewed, own-dominant, other-dominant, own-zero with zeros, mixed zeros); exhaustive: every sequence of distinct handler completions (= every ACK order of every responding subset) for one batch, each also with the last completion turned into a dropped handle; random: 1..6 batches in flight, completions for served / queued / finished batches, dropped handles, repeated events, handler-list permutations and truncations, plus a malformed stream (non-member, repeated name, self in the handler list); distinct by (stakes, event list); non-trivial when the committee has >= 2 authorities and >= 2 events".into();
    let rt = tokio::runtime::Builder::new_current_thread().enable_all().start_paused(true).build().unwrap();
    let mut distinct = BTreeSet::new();
    let mut graveyard = Vec::new();

    if let Some(file) = &o.replay {
        let v: serde_json::Value = serde_json::from_str(&std::fs::read_to_string(file).expect("replay file")).expect("replay json");
        let case: Case = serde_json::from_value(v).expect("replay case");
        run_case(&rt, None, &mut rep, &case, &mut distinct, &mut graveyard);
        rep.distinct_nontrivial = distinct.len() as u64;
        return rep;
    }

    let mut model = Model::spawn();
    let mut rng = SmallRng::seed_from_u64(o.seed);
    // exhaustive single-batch part
    let max_exh = if o.thorough() { 7 } else { 6 };
    for n in 1..=7usize {
        for stakes in stake_styles(n, &mut rng) {
            let orders = if n <= max_exh {
                all_orders(n - 1)
            } else {
                let mut v = Vec::new();
                for _ in 0..300 {
                    let mut idx: Vec<usize> = (0..n - 1).collect();
                    idx.shuffle(&mut rng);
                    idx.truncate(rng.gen_range(0, n));
                    v.push(idx);
                }
                v
            };
            for (k, order) in orders.iter().enumerate() {
                let names: Vec<u32> = (2..=n as u32).collect();
                let mut events = vec![Ev::Batch { id: 1, names }];
                for (j, i) in order.iter().enumerate() {
                    if k % 2 == 1 && j + 1 == order.len() {
                        events.push(Ev::Dropped { id: 1, idx: *i });
                    } else {
                        events.push(Ev::Ack { id: 1, idx: *i });
                    }
                }
                // a second batch behind it shows whether the first one released the task
                events.push(Ev::Batch { id: 2, names: (2..=n as u32).rev().collect() });
                if n >= 2 {
                    events.push(Ev::Ack { id: 2, idx: 0 });
                }
                rep.hit("case.exhaustive");
                run_case(&rt, Some(&mut model), &mut rep, &Case { stakes: stakes.clone(), events }, &mut distinct, &mut graveyard);
            }
        }
    }
    let cases = if o.thorough() { 60_000 } else { 2_500 };
    for i in 0..cases {
        let malformed = i % 5 == 4;
        let case = gen_multi(&mut rng, malformed);
        rep.hit(if malformed { "case.random-malformed" } else { "case.random" });
        run_case(&rt, Some(&mut model), &mut rep, &case, &mut distinct, &mut graveyard);
    }
    // probe (not part of C12): what the task does when its input channel closes
    {
        use std::sync::atomic::{AtomicU64, Ordering};
        use std::sync::{Arc, Mutex};
        let count = Arc::new(AtomicU64::new(0));
        let msg = Arc::new(Mutex::new(String::new()));
        let (c2, m2) = (count.clone(), msg.clone());
        let old = std::panic::take_hook();
        std::panic::set_hook(Box::new(move |info| {
            c2.fetch_add(1, Ordering::SeqCst);
            *m2.lock().unwrap() = format!("{}", info);
        }));
        let real = rt.block_on(exec_real(&Case { stakes: vec![1, 1, 1, 1], events: vec![Ev::Batch { id: 1, names: vec![2, 3, 4] }, Ev::Ack { id: 1, idx: 0 }, Ev::Ack { id: 1, idx: 1 }] }));
        drop(real.keep);
        rt.block_on(barrier());
        std::panic::set_hook(old);
        let n = count.load(Ordering::SeqCst);
        *rep.histogram.entry("probe.task-panics-when-input-channel-closes".into()).or_insert(0) += n;
        if n > 0 {
            rep.samples.push(json!({"probe": "input channel closed", "panic": msg.lock().unwrap().clone()}));
        }
    }
    rep.distinct_nontrivial = distinct.len() as u64;
    rep.model_requests = model.requests;
    drop(rt);
    drop(graveyard);
    rep
}
