//! Keys, real message construction and the real -> symbolic translation shared with the model driver
//! (canonical text forms: see lean/HotstuffModel/Driver/Node.lean).
use consensus::verif::{Timeout, Vote};
use consensus::{Block, Committee, QC, TC};
use crypto::{generate_keypair, Digest, Hash as _, PublicKey, SecretKey, Signature};
use ed25519_dalek::{Digest as _, Sha512};
use rand::rngs::StdRng;
use rand::SeedableRng;
use std::collections::HashMap;
use std::convert::TryInto;

pub fn sig_bytes(s: &Signature) -> Vec<u8> {
    bincode::serialize(s).unwrap()
}

pub fn sha(data: &[u8]) -> Digest {
    Digest(Sha512::digest(data).as_slice()[..32].try_into().unwrap())
}

pub fn vote_digest(hash: &Digest, round: u64) -> Digest {
    let mut h = Sha512::new();
    h.update(&hash.0);
    h.update(round.to_le_bytes());
    Digest(h.finalize().as_slice()[..32].try_into().unwrap())
}

pub fn timeout_digest(round: u64, hq: u64) -> Digest {
    let mut h = Sha512::new();
    h.update(round.to_le_bytes());
    h.update(hq.to_le_bytes());
    Digest(h.finalize().as_slice()[..32].try_into().unwrap())
}

/// What a harness-made signature was produced over.
#[derive(Clone, Debug)]
pub enum Content {
    Block(Digest),
    Vote(Digest, u64),
    Timeout(u64, u64),
}

/// The key universe of one scenario: committee members ranked by key bytes (ids 1..=n), outsiders 100+.
pub struct Universe {
    pub keys: Vec<(PublicKey, SecretKey)>, // index i = id i+1 (sorted by public key bytes)
    pub outsiders: Vec<(PublicKey, SecretKey)>,
    pub stakes: Vec<u32>,
    pub base_port: u16,
    key_ids: HashMap<[u8; 32], u64>,
    digests: HashMap<[u8; 32], String>,
    raw_ids: HashMap<[u8; 32], u64>,
    sigs: HashMap<Vec<u8>, String>,
    next_raw: u64,
    next_junk: u64,
}

fn clone_secret(s: &SecretKey) -> SecretKey {
    SecretKey::decode_base64(&s.encode_base64()).unwrap()
}

impl Universe {
    pub fn new(seed: u64, stakes: Vec<u32>, base_port: u16) -> Universe {
        let mut seed_bytes = [0u8; 32];
        seed_bytes[..8].copy_from_slice(&seed.to_le_bytes());
        let mut rng = StdRng::from_seed(seed_bytes);
        let mut keys: Vec<_> = (0..stakes.len()).map(|_| generate_keypair(&mut rng)).collect();
        keys.sort_by(|a, b| a.0.cmp(&b.0));
        let outsiders: Vec<_> = (0..2).map(|_| generate_keypair(&mut rng)).collect();
        let mut key_ids = HashMap::new();
        key_ids.insert([0u8; 32], 0);
        for (i, (pk, _)) in keys.iter().enumerate() {
            key_ids.insert(pk.0, i as u64 + 1);
        }
        for (i, (pk, _)) in outsiders.iter().enumerate() {
            key_ids.insert(pk.0, 100 + i as u64);
        }
        let mut digests = HashMap::new();
        digests.insert([0u8; 32], "z".to_string());
        Universe { keys, outsiders, stakes, base_port, key_ids, digests, raw_ids: HashMap::new(), sigs: HashMap::new(), next_raw: 1, next_junk: 1 }
    }

    pub fn n(&self) -> usize {
        self.keys.len()
    }
    pub fn pk(&self, id: u64) -> PublicKey {
        if id >= 100 {
            self.outsiders[(id - 100) as usize].0
        } else if id == 0 {
            PublicKey::default()
        } else {
            self.keys[(id - 1) as usize].0
        }
    }
    pub fn sk(&self, id: u64) -> SecretKey {
        if id >= 100 {
            clone_secret(&self.outsiders[(id - 100) as usize].1)
        } else {
            clone_secret(&self.keys[(id - 1) as usize].1)
        }
    }
    pub fn port(&self, id: u64) -> u16 {
        self.base_port + id as u16
    }
    pub fn committee(&self) -> Committee {
        Committee::new(
            self.keys.iter().enumerate().map(|(i, (pk, _))| (*pk, self.stakes[i], format!("127.0.0.1:{}", self.port(i as u64 + 1)).parse().unwrap())).collect(),
            1,
        )
    }
    pub fn committee_sym(&self) -> String {
        format!("({})", (0..self.n()).map(|i| format!("({} {})", i + 1, self.stakes[i])).collect::<Vec<_>>().join(" "))
    }
    pub fn total(&self) -> u64 {
        self.stakes.iter().map(|s| *s as u64).sum()
    }
    pub fn quorum(&self) -> u64 {
        2 * self.total() / 3 + 1
    }
    pub fn stake(&self, id: u64) -> u64 {
        if id >= 1 && (id as usize) <= self.n() {
            self.stakes[(id - 1) as usize] as u64
        } else {
            0
        }
    }
    /// Round-robin leader over the sorted keys (the harness's own expectation; the real elector is
    /// what the node uses).
    pub fn leader(&self, round: u64) -> u64 {
        (round % self.n() as u64) + 1
    }

    // ---------------------------------------------------------------- signing
    pub fn sign(&mut self, id: u64, c: Content) -> Signature {
        let d = match &c {
            Content::Block(d) => d.clone(),
            Content::Vote(h, r) => vote_digest(h, *r),
            Content::Timeout(r, hq) => timeout_digest(*r, *hq),
        };
        let s = Signature::new(&d, &self.sk(id));
        let sym = format!("(s {} {})", id, self.content_sym(&c));
        self.sigs.insert(sig_bytes(&s), sym);
        s
    }

    pub fn junk_sig(&mut self) -> Signature {
        // a syntactically fine signature of an unrelated digest by an outsider
        let d = sha(&self.next_junk.to_le_bytes());
        let s = Signature::new(&d, &self.sk(100));
        let sym = format!("(s 0 (cj {}))", self.next_junk);
        self.next_junk += 1;
        self.sigs.insert(sig_bytes(&s), sym);
        s
    }

    // ---------------------------------------------------------------- symbols
    pub fn key_id(&self, pk: &PublicKey) -> u64 {
        *self.key_ids.get(&pk.0).unwrap_or(&999)
    }

    pub fn raw_id(&mut self, d: &Digest) -> u64 {
        if let Some(i) = self.raw_ids.get(&d.0) {
            return *i;
        }
        let i = self.next_raw;
        self.next_raw += 1;
        self.raw_ids.insert(d.0, i);
        i
    }

    pub fn digest_sym(&mut self, d: &Digest) -> String {
        if let Some(s) = self.digests.get(&d.0) {
            return s.clone();
        }
        format!("(r {})", self.raw_id(d))
    }

    pub fn content_sym(&mut self, c: &Content) -> String {
        match c {
            Content::Block(d) => format!("(cb {})", self.digest_sym(d)),
            Content::Vote(h, r) => format!("(cv {} {})", self.digest_sym(h), r),
            Content::Timeout(r, hq) => format!("(ct {} {})", r, hq),
        }
    }

    pub fn payload_sym(&mut self, p: &[Digest]) -> String {
        let mut ids: Vec<u64> = p.iter().map(|d| self.raw_id(d)).collect();
        ids.sort();
        format!("({})", ids.iter().map(|i| i.to_string()).collect::<Vec<_>>().join(" "))
    }

    /// Register a block's digest term (its parent must be known already, else it shows as raw).
    pub fn register_block(&mut self, b: &Block) -> String {
        let d = b.digest();
        if let Some(s) = self.digests.get(&d.0) {
            return s.clone();
        }
        let parent = self.digest_sym(&b.qc.hash);
        let s = format!("(b {} {} {} {})", self.key_id(&b.author), b.round, self.payload_sym(&b.payload), parent);
        self.digests.insert(d.0, s.clone());
        s
    }

    /// Symbolic form of a signature: harness-made ones come from the table; others are classified
    /// by really verifying them against the content they are expected to sign.
    pub fn sig_sym(&mut self, s: &Signature, expect: &Content, by: &PublicKey) -> String {
        if let Some(x) = self.sigs.get(&sig_bytes(s)) {
            return x.clone();
        }
        let d = match expect {
            Content::Block(d) => d.clone(),
            Content::Vote(h, r) => vote_digest(h, *r),
            Content::Timeout(r, hq) => timeout_digest(*r, *hq),
        };
        if s.verify(&d, by).is_ok() {
            let sym = format!("(s {} {})", self.key_id(by), self.content_sym(expect));
            self.sigs.insert(sig_bytes(s), sym.clone());
            sym
        } else {
            let sym = format!("(s 0 (cj {}))", self.next_junk);
            self.next_junk += 1;
            self.sigs.insert(sig_bytes(s), sym.clone());
            sym
        }
    }

    pub fn qc_sym(&mut self, q: &QC) -> String {
        let votes: Vec<String> = q
            .votes
            .iter()
            .map(|(k, s)| {
                let ss = self.sig_sym(s, &Content::Vote(q.hash.clone(), q.round), k);
                format!("({} {})", self.key_id(k), ss)
            })
            .collect();
        format!("(qc {} {} ({}))", self.digest_sym(&q.hash), q.round, votes.join(" "))
    }

    pub fn tc_sym(&mut self, t: &TC) -> String {
        let votes: Vec<String> = t
            .votes
            .iter()
            .map(|(k, s, hq)| {
                let ss = self.sig_sym(s, &Content::Timeout(t.round, *hq), k);
                format!("({} {} {})", self.key_id(k), ss, hq)
            })
            .collect();
        format!("(tc {} ({}))", t.round, votes.join(" "))
    }

    pub fn block_sym(&mut self, b: &Block) -> String {
        self.register_block(b);
        let qc = self.qc_sym(&b.qc);
        let tc = match &b.tc {
            None => "nil".to_string(),
            Some(t) => self.tc_sym(t),
        };
        let sig = self.sig_sym(&b.signature, &Content::Block(b.digest()), &b.author);
        format!("(blk {} {} {} {} {} {})", qc, tc, self.key_id(&b.author), b.round, self.payload_sym(&b.payload), sig)
    }

    pub fn vote_sym(&mut self, v: &Vote) -> String {
        let sig = self.sig_sym(&v.signature, &Content::Vote(v.hash.clone(), v.round), &v.author);
        format!("(v {} {} {} {})", self.digest_sym(&v.hash), v.round, self.key_id(&v.author), sig)
    }

    pub fn timeout_sym(&mut self, t: &Timeout) -> String {
        let sig = self.sig_sym(&t.signature, &Content::Timeout(t.round, t.high_qc.round), &t.author);
        format!("(to {} {} {} {})", self.qc_sym(&t.high_qc), t.round, self.key_id(&t.author), sig)
    }

    // ---------------------------------------------------------------- real message construction
    pub fn mk_block(&mut self, author: u64, round: u64, qc: QC, tc: Option<TC>, payload: Vec<Digest>) -> Block {
        let mut b = Block { qc, tc, author: self.pk(author), round, payload, signature: Signature::default() };
        self.register_block(&b);
        b.signature = self.sign(author, Content::Block(b.digest()));
        b
    }

    pub fn mk_vote(&mut self, hash: Digest, round: u64, author: u64) -> Vote {
        let signature = self.sign(author, Content::Vote(hash.clone(), round));
        Vote { hash, round, author: self.pk(author), signature }
    }

    pub fn mk_qc(&mut self, hash: Digest, round: u64, signers: &[u64]) -> QC {
        let votes = signers.iter().map(|s| (self.pk(*s), self.sign(*s, Content::Vote(hash.clone(), round)))).collect();
        QC { hash, round, votes }
    }

    pub fn mk_timeout(&mut self, round: u64, high_qc: QC, author: u64) -> Timeout {
        let signature = self.sign(author, Content::Timeout(round, high_qc.round));
        Timeout { high_qc, round, author: self.pk(author), signature }
    }

    pub fn mk_tc(&mut self, round: u64, entries: &[(u64, u64)]) -> TC {
        let votes = entries.iter().map(|(s, hq)| (self.pk(*s), self.sign(*s, Content::Timeout(round, *hq)), *hq)).collect();
        TC { round, votes }
    }
}
