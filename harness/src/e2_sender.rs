//! E2/sender — the real `network::ReliableSender` (one peer) against a scripted simnet peer, and
//! end-to-end through the real `network::Receiver`, under paused virtual time (C14).
//!
//! One *op* = one stimulus by the harness (a send, a dropped handle, a peer action, a clock advance),
//! followed by a run to quiescence (`sleep(1µs)` barrier).  After every op
//!   * the property monitor is evaluated on the real observations only (frames per connection at the
//!     peer, what every handle resolved to), and
//!   * the Lean model (`HS.RS`, driver commands `(rs …)`) is advanced by the events the real run must
//!     have taken — the model's free choices (connect ok/fail, write ok/fail, what the reader yields)
//!     are resolved from the environment the harness controls (listener bound? peer end open? which
//!     ACKs did the peer write?) — and its per-connection frame lists, connection count and handle
//!     results are compared with the real ones.
use crate::driver::Model;
use crate::report::Report;
use crate::Opts;
use async_trait::async_trait;
use bytes::Bytes;
use futures::{FutureExt as _, SinkExt as _, StreamExt as _};
use network::simnet::{self, TcpListener, TcpStream};
use network::{CancelHandler, MessageHandler, Receiver as NetReceiver, ReliableSender, Writer};
use rand::rngs::SmallRng;
use rand::{Rng, SeedableRng};
use serde_json::json;
use std::collections::{BTreeMap, BTreeSet};
use std::error::Error;
use std::net::SocketAddr;
use std::sync::{Arc, Mutex};
use tokio::time::{Duration, Instant};
use tokio_util::codec::{Framed, LengthDelimitedCodec};

const BIG: usize = 3 << 20;
const PORT: u16 = 7001;

// ------------------------------------------------------------------------------------------------
// ops

#[derive(Clone, Debug, PartialEq)]
enum Op {
    Send,
    SendBig,
    Cancel(usize),
    Listen,
    Unlisten,
    /// peer closes the current connection (after reading what is readable)
    Close,
    /// peer closes the current connection and stops listening in the same instant (peer dies)
    Crash,
    /// peer drops the current connection abruptly: the sender's read fails with ConnectionReset, not EOF
    Reset,
    /// peer ACKs the oldest un-ACKed frame of the current connection
    Ack,
    AckAll,
    /// peer writes a frame although nothing is outstanding (protocol violation by the peer)
    Bogus,
    AutoAck(bool),
    Stall,
    Unstall,
    /// advance the clock just past the pending back-off deadline (abstract: needs the model's delay)
    Fire,
    /// advance the clock to just before the pending back-off deadline
    FireEarly,
    /// concrete clock advance (ms)
    Advance(u64),
    /// send + ACK of the oldest outstanding frame without a barrier in between (select! race)
    SendAck,
    /// ACK then close without a barrier in between
    AckClose,
    /// close + send without a barrier in between (select! race)
    CloseSend,
    /// end-to-end variant: spawn the real `network::Receiver`
    StartReceiver,
}

impl Op {
    fn text(&self) -> String {
        match self {
            Op::Send => "send".into(),
            Op::SendBig => "sendbig".into(),
            Op::Cancel(i) => format!("cancel:{}", i),
            Op::Listen => "listen".into(),
            Op::Unlisten => "unlisten".into(),
            Op::Close => "close".into(),
            Op::Crash => "crash".into(),
            Op::Reset => "reset".into(),
            Op::Ack => "ack".into(),
            Op::AckAll => "ackall".into(),
            Op::Bogus => "bogus".into(),
            Op::AutoAck(b) => format!("autoack:{}", if *b { 1 } else { 0 }),
            Op::Stall => "stall".into(),
            Op::Unstall => "unstall".into(),
            Op::Fire => "fire".into(),
            Op::FireEarly => "fireearly".into(),
            Op::Advance(ms) => format!("advance:{}", ms),
            Op::SendAck => "sendack".into(),
            Op::AckClose => "ackclose".into(),
            Op::CloseSend => "closesend".into(),
            Op::StartReceiver => "startreceiver".into(),
        }
    }
    fn parse(s: &str) -> Option<Op> {
        let (h, a) = match s.find(':') {
            Some(i) => (&s[..i], s[i + 1..].parse::<u64>().ok()),
            None => (s, None),
        };
        Some(match (h, a) {
            ("send", _) => Op::Send,
            ("sendbig", _) => Op::SendBig,
            ("cancel", Some(i)) => Op::Cancel(i as usize),
            ("listen", _) => Op::Listen,
            ("unlisten", _) => Op::Unlisten,
            ("close", _) => Op::Close,
            ("crash", _) => Op::Crash,
            ("reset", _) => Op::Reset,
            ("ack", _) => Op::Ack,
            ("ackall", _) => Op::AckAll,
            ("bogus", _) => Op::Bogus,
            ("autoack", Some(b)) => Op::AutoAck(b != 0),
            ("stall", _) => Op::Stall,
            ("unstall", _) => Op::Unstall,
            ("fire", _) => Op::Fire,
            ("fireearly", _) => Op::FireEarly,
            ("advance", Some(ms)) => Op::Advance(ms),
            ("sendack", _) => Op::SendAck,
            ("ackclose", _) => Op::AckClose,
            ("closesend", _) => Op::CloseSend,
            ("startreceiver", _) => Op::StartReceiver,
            _ => return None,
        })
    }
}

fn payload(id: u64, big: bool) -> Bytes {
    let mut v = vec![0u8; if big { BIG } else { 8 }];
    v[..8].copy_from_slice(&id.to_be_bytes());
    Bytes::from(v)
}

fn payload_id(b: &[u8]) -> u64 {
    if b.len() < 8 {
        return u64::MAX;
    }
    let mut a = [0u8; 8];
    a.copy_from_slice(&b[..8]);
    u64::from_be_bytes(a)
}

fn ack_bytes(n: u64) -> Bytes {
    Bytes::from(format!("Ack-{}", n))
}

fn parse_ack(b: &[u8]) -> Option<u64> {
    std::str::from_utf8(b).ok()?.strip_prefix("Ack-")?.parse().ok()
}

// ------------------------------------------------------------------------------------------------
// the real world

struct PeerConn {
    framed: Option<Framed<TcpStream, LengthDelimitedCodec>>,
    /// ids of the frames read off this connection, in order
    wire: Vec<u64>,
    /// number of (solicited) ACKs written on this connection
    acks_sent: usize,
    /// every ACK number written on this connection, in order (solicited and bogus)
    ack_numbers: Vec<u64>,
    stalled: bool,
    ever_stalled: bool,
    /// the sender closed its end (EOF / error seen by the peer)
    eof: bool,
    /// the peer closed its end
    peer_closed: bool,
    accepted_at: usize,
}

struct AckRec {
    /// message carried by the frame this ACK answers (None: bogus)
    id: Option<u64>,
}

struct Msg {
    id: u64,
    handle: Option<CancelHandler>,
    sent_at: usize,
    cancelled_at: Option<usize>,
    result: Option<Vec<u8>>,
    /// the sender dropped the oneshot without completing it while the handle was alive
    dropped: bool,
}

/// What the handler of the real `Receiver` does on the first delivery of a message (e2e variant).
#[derive(Clone, Copy, PartialEq, Debug)]
enum Plan {
    Ack,
    FailBefore,
    FailAfter,
}

#[derive(Default)]
struct HandlerLog {
    /// (op index, message id) in dispatch order
    deliveries: Vec<(usize, u64)>,
    /// ack number -> message id
    acks: Vec<u64>,
    seen: BTreeSet<u64>,
    op: usize,
}

#[derive(Clone)]
struct AckHandler {
    log: Arc<Mutex<HandlerLog>>,
    plan: Arc<BTreeMap<u64, Plan>>,
}

#[derive(Debug)]
struct HandlerFailure;
impl std::fmt::Display for HandlerFailure {
    fn fmt(&self, f: &mut std::fmt::Formatter<'_>) -> std::fmt::Result {
        write!(f, "scripted handler failure")
    }
}
impl Error for HandlerFailure {}

#[async_trait]
impl MessageHandler for AckHandler {
    async fn dispatch(&self, writer: &mut Writer, message: Bytes) -> Result<(), Box<dyn Error>> {
        let id = payload_id(&message);
        let (plan, n) = {
            let mut l = self.log.lock().unwrap();
            let op = l.op;
            l.deliveries.push((op, id));
            let first = l.seen.insert(id);
            let plan = if first { *self.plan.get(&id).unwrap_or(&Plan::Ack) } else { Plan::Ack };
            let n = if plan != Plan::FailBefore {
                l.acks.push(id);
                (l.acks.len() - 1) as u64
            } else {
                0
            };
            (plan, n)
        };
        match plan {
            Plan::FailBefore => Err(Box::new(HandlerFailure)),
            Plan::Ack => {
                let _ = writer.send(ack_bytes(n)).await;
                Ok(())
            }
            Plan::FailAfter => {
                let _ = writer.send(ack_bytes(n)).await;
                Err(Box::new(HandlerFailure))
            }
        }
    }
}

struct World {
    sender: ReliableSender,
    addr: SocketAddr,
    listener: Option<TcpListener>,
    conns: Vec<PeerConn>,
    msgs: Vec<Msg>,
    acks: Vec<AckRec>,
    auto_ack: bool,
    op: usize,
    /// (op, conn, id) in the order the peer read the frames
    frame_log: Vec<(usize, usize, u64)>,
    t_settle: Instant,
    t_adv: Instant,
    /// e2e variant
    e2e: bool,
    receiver_up: bool,
    hlog: Arc<Mutex<HandlerLog>>,
    plan: Arc<BTreeMap<u64, Plan>>,
    violations: Vec<(String, String)>,
}

async fn barrier() {
    tokio::time::sleep(Duration::from_micros(1)).await;
}

impl World {
    fn new(e2e: bool, plan: BTreeMap<u64, Plan>) -> World {
        simnet::reset();
        World {
            sender: ReliableSender::new(),
            addr: format!("127.0.0.1:{}", PORT).parse().unwrap(),
            listener: None,
            conns: Vec::new(),
            msgs: Vec::new(),
            acks: Vec::new(),
            auto_ack: false,
            op: 0,
            frame_log: Vec::new(),
            t_settle: Instant::now(),
            t_adv: Instant::now(),
            e2e,
            receiver_up: false,
            hlog: Arc::new(Mutex::new(HandlerLog::default())),
            plan: Arc::new(plan),
            violations: Vec::new(),
        }
    }

    fn violation(&mut self, kind: &str, detail: String) {
        if self.violations.len() < 8 {
            self.violations.push((kind.to_string(), detail));
        }
    }

    fn cur_open(&self) -> bool {
        self.conns.last().map_or(false, |c| c.framed.is_some())
    }
    fn cur_stalled(&self) -> bool {
        self.conns.last().map_or(false, |c| c.framed.is_some() && c.stalled)
    }
    fn outstanding(&self) -> usize {
        self.conns.last().map_or(0, |c| if c.framed.is_some() { c.wire.len() - c.acks_sent } else { 0 })
    }
    fn live_unresolved(&self) -> Vec<usize> {
        (0..self.msgs.len()).filter(|i| self.msgs[*i].handle.is_some() && self.msgs[*i].result.is_none()).collect()
    }

    async fn do_send(&mut self, big: bool) {
        let id = self.msgs.len() as u64 + 1;
        let handle = self.sender.send(self.addr, payload(id, big)).await;
        self.msgs.push(Msg { id, handle: Some(handle), sent_at: self.op, cancelled_at: None, result: None, dropped: false });
    }

    /// Write one solicited ACK for the oldest un-ACKed frame of connection `ci`.
    async fn ack_one(&mut self, ci: usize) -> bool {
        let c = &mut self.conns[ci];
        if c.framed.is_none() || c.acks_sent >= c.wire.len() {
            return false;
        }
        let id = c.wire[c.acks_sent];
        let n = self.acks.len() as u64;
        self.acks.push(AckRec { id: Some(id) });
        c.acks_sent += 1;
        c.ack_numbers.push(n);
        let _ = c.framed.as_mut().unwrap().send(ack_bytes(n)).await;
        true
    }

    /// Read every complete frame that is readable right now on connection `ci`.
    async fn read_available(&mut self, ci: usize) -> bool {
        self.read_available_as(ci, true).await
    }

    /// `delivered = false`: the bytes are looked at on the wire (for the comparison with the model)
    /// but the peer application never read them, so they are no delivery for the property monitor.
    async fn read_available_as(&mut self, ci: usize, delivered: bool) -> bool {
        let mut progress = false;
        loop {
            let got = match self.conns[ci].framed.as_mut() {
                None => break,
                Some(f) => f.next().now_or_never(),
            };
            match got {
                Some(Some(Ok(b))) => {
                    let id = payload_id(&b);
                    self.conns[ci].wire.push(id);
                    if delivered {
                        self.frame_log.push((self.op, ci + 1, id));
                    }
                    progress = true;
                    if self.auto_ack && delivered {
                        self.ack_one(ci).await;
                    }
                }
                Some(Some(Err(_))) | Some(None) => {
                    self.conns[ci].eof = true;
                    self.conns[ci].framed = None;
                    progress = true;
                    break;
                }
                None => break,
            }
        }
        progress
    }

    async fn close_current(&mut self) {
        self.close_current_how(false).await
    }

    async fn close_current_how(&mut self, abort: bool) {
        if let Some(ci) = self.conns.len().checked_sub(1) {
            if self.conns[ci].framed.is_some() {
                // complete frames already on the wire are observed (not processed / ACKed) before the drop;
                // a stalled peer never read them: they do not count as deliveries
                let delivered = !self.conns[ci].stalled;
                self.read_available_as(ci, delivered).await;
                if self.conns[ci].framed.is_some() {
                    let f = self.conns[ci].framed.take();
                    if abort {
                        if let Some(f) = f {
                            f.into_inner().abort();
                        }
                    }
                    self.conns[ci].peer_closed = true;
                }
            }
        }
    }

    fn poll_handles(&mut self) {
        let mut bad = Vec::new();
        for m in self.msgs.iter_mut() {
            if m.result.is_some() || m.dropped {
                continue;
            }
            if let Some(h) = m.handle.as_mut() {
                match h.try_recv() {
                    Ok(b) => m.result = Some(b.to_vec()),
                    Err(tokio::sync::oneshot::error::TryRecvError::Empty) => {}
                    Err(tokio::sync::oneshot::error::TryRecvError::Closed) => {
                        m.dropped = true;
                        bad.push(m.id);
                    }
                }
            }
        }
        for id in bad {
            self.violation("C14:live-message-dropped", format!("the sender dropped message {} (its handle is alive and was never completed)", id));
        }
    }

    async fn settle(&mut self) {
        self.t_settle = Instant::now();
        let mut rounds = 0;
        loop {
            barrier().await;
            let mut progress = false;
            if let Some(l) = &self.listener {
                while let Some(Ok((s, _))) = l.accept().now_or_never() {
                    self.conns.push(PeerConn {
                        framed: Some(Framed::new(s, LengthDelimitedCodec::new())),
                        wire: Vec::new(),
                        acks_sent: 0,
                        ack_numbers: Vec::new(),
                        stalled: false,
                        ever_stalled: false,
                        eof: false,
                        peer_closed: false,
                        accepted_at: self.op,
                    });
                    progress = true;
                }
            }
            for ci in 0..self.conns.len() {
                if self.conns[ci].framed.is_some() && !self.conns[ci].stalled {
                    progress |= self.read_available(ci).await;
                }
            }
            rounds += 1;
            if !progress && rounds >= 2 {
                break;
            }
        }
        self.poll_handles();
    }

    /// Apply one concrete op to the real code and run to quiescence.
    async fn apply(&mut self, op: &Op) {
        self.op += 1;
        self.hlog.lock().unwrap().op = self.op;
        match op {
            Op::Send => self.do_send(false).await,
            Op::SendBig => self.do_send(true).await,
            Op::Cancel(i) => {
                if let Some(m) = self.msgs.get_mut(*i) {
                    if m.handle.is_some() && m.result.is_none() {
                        m.handle = None;
                        m.cancelled_at = Some(self.op);
                    }
                }
            }
            Op::Listen => {
                if self.listener.is_none() {
                    self.listener = Some(TcpListener::bind(&self.addr).await.expect("simnet bind"));
                }
            }
            Op::Unlisten => self.listener = None,
            Op::Close => self.close_current().await,
            Op::Reset => self.close_current_how(true).await,
            Op::Crash => {
                self.close_current().await;
                self.listener = None;
            }
            Op::Ack => {
                if let Some(ci) = self.conns.len().checked_sub(1) {
                    self.ack_one(ci).await;
                }
            }
            Op::AckAll => {
                if let Some(ci) = self.conns.len().checked_sub(1) {
                    while self.ack_one(ci).await {}
                }
            }
            Op::Bogus => {
                if let Some(c) = self.conns.last_mut() {
                    if let Some(f) = c.framed.as_mut() {
                        let n = self.acks.len() as u64;
                        self.acks.push(AckRec { id: None });
                        c.ack_numbers.push(n);
                        let _ = f.send(ack_bytes(n)).await;
                    }
                }
            }
            Op::AutoAck(b) => {
                self.auto_ack = *b;
                if *b {
                    if let Some(ci) = self.conns.len().checked_sub(1) {
                        while self.ack_one(ci).await {}
                    }
                }
            }
            Op::Stall => {
                if let Some(c) = self.conns.last_mut() {
                    if c.framed.is_some() {
                        c.stalled = true;
                        c.ever_stalled = true;
                    }
                }
            }
            Op::Unstall => {
                for c in self.conns.iter_mut() {
                    c.stalled = false;
                }
            }
            Op::Advance(ms) => {
                tokio::time::advance(Duration::from_millis(*ms)).await;
                self.t_adv = Instant::now();
            }
            Op::SendAck => {
                self.do_send(false).await;
                if let Some(ci) = self.conns.len().checked_sub(1) {
                    self.ack_one(ci).await;
                }
            }
            Op::AckClose => {
                if let Some(ci) = self.conns.len().checked_sub(1) {
                    self.ack_one(ci).await;
                }
                self.close_current().await;
            }
            Op::CloseSend => {
                self.close_current().await;
                self.do_send(false).await;
            }
            Op::StartReceiver => {
                if !self.receiver_up {
                    self.receiver_up = true;
                    NetReceiver::spawn(self.addr, AckHandler { log: self.hlog.clone(), plan: self.plan.clone() });
                }
            }
            Op::Fire | Op::FireEarly => unreachable!("abstract op reached the real world"),
        }
        self.settle().await;
        self.monitor_step();
    }

    // --------------------------------------------------------------------------------------------
    // property monitor — real observations only

    fn ack_id(&self, n: u64) -> Option<Option<u64>> {
        if self.e2e {
            self.hlog.lock().unwrap().acks.get(n as usize).map(|id| Some(*id))
        } else {
            self.acks.get(n as usize).map(|a| a.id)
        }
    }

    /// Evaluated after every op.
    fn monitor_step(&mut self) {
        // (pairing) a handle resolves only with the peer's reply to a frame carrying that very message
        let mut v = Vec::new();
        for m in &self.msgs {
            if let Some(r) = &m.result {
                match parse_ack(r).and_then(|n| self.ack_id(n).map(|x| (n, x))) {
                    Some((_, Some(id))) if id == m.id => {}
                    Some((n, other)) => v.push(format!("handle of message {} resolved with Ack-{} which the peer sent in reply to {:?}", m.id, n, other)),
                    None => v.push(format!("handle of message {} resolved with bytes the peer never sent: {:?}", m.id, String::from_utf8_lossy(r))),
                }
            }
        }
        for d in v {
            self.violation("C14:wrong-ack-pairing", d);
        }
        if self.e2e {
            return;
        }
        // (retransmission) quiescent, current connection up and read dry: every live unresolved message was written on it
        if let Some(k) = self.conns.len().checked_sub(1) {
            let c = &self.conns[k];
            if c.framed.is_some() && !c.stalled {
                let missing: Vec<u64> = self
                    .msgs
                    .iter()
                    .filter(|m| m.handle.is_some() && m.result.is_none() && !m.dropped && !c.wire.contains(&m.id))
                    .map(|m| m.id)
                    .collect();
                if !missing.is_empty() {
                    self.violation(
                        "C14:not-retransmitted",
                        format!("connection {} is up and idle at op {} but live un-acknowledged messages {:?} were not written on it (frames {:?})", k + 1, self.op, missing, c.wire),
                    );
                }
            }
        }
    }

    /// Evaluated once at the end of a scenario.
    fn monitor_final(&mut self, completed: bool) {
        let mut v: Vec<(String, String)> = Vec::new();
        let index: BTreeMap<u64, usize> = self.msgs.iter().enumerate().map(|(i, m)| (m.id, i)).collect();
        // the global sequence of deliveries (op, conn, id)
        let log: Vec<(usize, usize, u64)> = if self.e2e {
            self.hlog.lock().unwrap().deliveries.iter().map(|(op, id)| (*op, 0usize, *id)).collect()
        } else {
            self.frame_log.clone()
        };
        // (order) first deliveries in hand-over order, and no live message is overtaken
        let mut seen: BTreeSet<u64> = BTreeSet::new();
        let mut last_first: u64 = 0;
        for (op, conn, id) in &log {
            if !index.contains_key(id) {
                v.push(("C14:unknown-frame".into(), format!("frame with unknown payload id {} on connection {}", id, conn)));
                continue;
            }
            if seen.insert(*id) {
                if *id < last_first {
                    v.push(("C14:first-delivery-order".into(), format!("first delivery of message {} after first delivery of message {}", id, last_first)));
                }
                last_first = last_first.max(*id);
                let ever_stalled = self.conns.iter().any(|c| c.ever_stalled);
                if !ever_stalled {
                    for m in &self.msgs {
                        if m.id < *id && !seen.contains(&m.id) && m.cancelled_at.map_or(true, |c| c > *op) && m.sent_at <= *op {
                            v.push((
                                "C14:live-message-overtaken".into(),
                                format!("message {} first delivered at op {} while the earlier message {} was live and had never been delivered", id, op, m.id),
                            ));
                        }
                    }
                }
            }
            // (cancellation) never written on a connection established after the cancellation;
            // on a connection that was always read dry, never written after the cancellation
            let m = &self.msgs[index[id]];
            if let Some(c) = m.cancelled_at {
                let established = if *conn > 0 { self.conns[*conn - 1].accepted_at } else { *op };
                let ever_stalled = *conn > 0 && self.conns[*conn - 1].ever_stalled;
                if c < established || (!ever_stalled && c < *op) {
                    v.push((
                        "C14:cancelled-retransmitted".into(),
                        format!("message {} was cancelled at op {} but written at op {} on connection {} (established at op {})", id, c, op, conn, established),
                    ));
                }
            }
        }
        // (at-least-once, once the peer stays up — the epilogue keeps it up and ACKing)
        for m in self.msgs.iter().filter(|_| completed) {
            if m.handle.is_some() && m.result.is_none() {
                v.push(("C14:not-delivered".into(), format!("message {} (handle kept) is still unresolved although the peer stayed up and ACKed everything", m.id)));
            }
            if m.handle.is_some() && !seen.contains(&m.id) {
                v.push(("C14:not-delivered".into(), format!("message {} (handle kept) never reached the peer", m.id)));
            }
        }
        for (k, d) in v {
            self.violation(&k, d);
        }
    }
}

// ------------------------------------------------------------------------------------------------
// s-expressions of the model's answers

#[derive(Clone, Debug)]
enum Sx {
    A(String),
    L(Vec<Sx>),
}

fn parse_sx(s: &str) -> Sx {
    fn go(cs: &[char], i: &mut usize) -> Sx {
        while *i < cs.len() && cs[*i].is_whitespace() {
            *i += 1;
        }
        if *i < cs.len() && cs[*i] == '(' {
            *i += 1;
            let mut v = Vec::new();
            loop {
                while *i < cs.len() && cs[*i].is_whitespace() {
                    *i += 1;
                }
                if *i >= cs.len() {
                    break;
                }
                if cs[*i] == ')' {
                    *i += 1;
                    break;
                }
                v.push(go(cs, i));
            }
            Sx::L(v)
        } else {
            let st = *i;
            while *i < cs.len() && !cs[*i].is_whitespace() && cs[*i] != '(' && cs[*i] != ')' {
                *i += 1;
            }
            Sx::A(cs[st..*i].iter().collect())
        }
    }
    let cs: Vec<char> = s.chars().collect();
    let mut i = 0;
    go(&cs, &mut i)
}

impl Sx {
    fn list(&self) -> &[Sx] {
        match self {
            Sx::L(v) => v,
            _ => &[],
        }
    }
    fn atom(&self) -> &str {
        match self {
            Sx::A(s) => s,
            _ => "",
        }
    }
    fn num(&self) -> u64 {
        self.atom().parse().unwrap_or(u64::MAX)
    }
    fn nums(&self) -> Vec<u64> {
        self.list().iter().map(|x| x.num()).collect()
    }
}

#[derive(Default, Clone, Debug)]
struct MState {
    mode: String,
    conn: usize,
    delay: u64,
    pending: Vec<u64>,
    writing: Vec<u64>,
    buffer: Vec<u64>,
    chan: Vec<u64>,
    closed: Vec<u64>,
}

// ------------------------------------------------------------------------------------------------
// the model side

struct Mirror<'a> {
    model: &'a mut Model,
    st: MState,
    deadline: Option<Instant>,
    timer_fired: bool,
    /// frames per connection (index = conn# - 1)
    frames: Vec<Vec<u64>>,
    /// responses consumed per connection
    consumed: Vec<usize>,
    resolves: BTreeMap<u64, u64>,
    events: Vec<String>,
    duplex_capacity: usize,
    // e2e: simulated handler of the real Receiver (environment)
    e2e_processed: Vec<usize>,
    e2e_acks: Vec<Vec<u64>>,
    e2e_closed: Vec<bool>,
    e2e_seen: BTreeSet<u64>,
    e2e_next_ack: u64,
    e2e_deliveries: Vec<u64>,
}

impl<'a> Mirror<'a> {
    fn new(model: &'a mut Model, duplex_capacity: usize) -> Mirror<'a> {
        let a = model.ask("(rs reset)");
        assert_eq!(a, "(rs-ok)", "model driver does not know the rs commands");
        let mut m = Mirror {
            model,
            st: MState::default(),
            deadline: None,
            timer_fired: false,
            frames: Vec::new(),
            consumed: Vec::new(),
            resolves: BTreeMap::new(),
            events: Vec::new(),
            duplex_capacity,
            e2e_processed: Vec::new(),
            e2e_acks: Vec::new(),
            e2e_closed: Vec::new(),
            e2e_seen: BTreeSet::new(),
            e2e_next_ack: 0,
            e2e_deliveries: Vec::new(),
        };
        let s = m.model.ask("(rs state)");
        m.read_state(&parse_sx(&s));
        m
    }

    fn read_state(&mut self, s: &Sx) {
        let l = s.list();
        if l.len() >= 10 {
            self.st = MState {
                mode: l[1].atom().to_string(),
                conn: l[2].num() as usize,
                delay: l[3].num(),
                pending: l[5].nums(),
                writing: l[6].nums(),
                buffer: l[7].nums(),
                chan: l[8].nums(),
                closed: l[9].nums(),
            };
        } else {
            panic!("unexpected rs-state from the model driver: {:?}", s);
        }
    }

    fn ev(&mut self, e: &str, rep: &mut Report) {
        rep.hit(&format!("model-event:{}", e.trim_start_matches('(').split(' ').next().unwrap_or("").trim_end_matches(')')));
        self.events.push(e.to_string());
        let ans = self.model.ask(&format!("(rs evs {})", e));
        let sx = parse_sx(&ans);
        let l = sx.list();
        if l.len() < 3 || l[0].atom() != "rs-step" {
            panic!("unexpected answer of the model driver to {}: {}", e, ans);
        }
        for o in l[1].list().iter().skip(1) {
            let f = o.list();
            match f[0].atom() {
                "frame" => {
                    let c = f[1].num() as usize;
                    while self.frames.len() < c {
                        self.frames.push(Vec::new());
                    }
                    self.frames[c - 1].push(f[2].num());
                }
                "ackd" => {
                    let c = f[1].num() as usize;
                    while self.consumed.len() < c {
                        self.consumed.push(0);
                    }
                    self.consumed[c - 1] += 1;
                }
                "resolve" => {
                    self.resolves.insert(f[1].num(), f[2].num());
                }
                _ => {}
            }
        }
        self.read_state(&l[2]);
    }

    /// e2e: let the simulated handler process what the model has written on connection `c` (1-based).
    fn e2e_peer(&mut self, c: usize, plan: &BTreeMap<u64, Plan>) {
        while self.e2e_processed.len() < c {
            self.e2e_processed.push(0);
            self.e2e_acks.push(Vec::new());
            self.e2e_closed.push(false);
        }
        let frames = self.frames.get(c - 1).cloned().unwrap_or_default();
        while self.e2e_processed[c - 1] < frames.len() && !self.e2e_closed[c - 1] {
            let id = frames[self.e2e_processed[c - 1]];
            self.e2e_processed[c - 1] += 1;
            self.e2e_deliveries.push(id);
            let first = self.e2e_seen.insert(id);
            let p = if first { *plan.get(&id).unwrap_or(&Plan::Ack) } else { Plan::Ack };
            if p != Plan::FailBefore {
                self.e2e_acks[c - 1].push(self.e2e_next_ack);
                self.e2e_next_ack += 1;
            }
            if p != Plan::Ack {
                self.e2e_closed[c - 1] = true;
            }
        }
    }

    /// Advance the model by the events the real task must have taken, given the environment.
    fn schedule(&mut self, w: &World, big: &BTreeSet<u64>, rep: &mut Report) {
        if w.msgs.is_empty() {
            return; // the `Connection` task is spawned by the first `send`: nothing exists yet
        }
        for _ in 0..10_000 {
            let st = self.st.clone();
            match st.mode.as_str() {
                "connecting" => {
                    let bound = if w.e2e { w.receiver_up } else { w.listener.is_some() };
                    if bound {
                        self.ev("connectOk", rep);
                    } else {
                        self.deadline = Some(w.t_settle + Duration::from_millis(st.delay));
                        self.ev("connectFail", rep);
                    }
                }
                "waiting" => {
                    if !st.chan.is_empty() {
                        self.ev("recvMsg", rep);
                    } else if self.timer_fired {
                        self.timer_fired = false;
                        self.deadline = None;
                        self.ev("timerFired", rep);
                    } else {
                        return;
                    }
                }
                _ => {
                    let c = st.conn;
                    if w.e2e {
                        self.e2e_peer(c, &w.plan);
                    }
                    let (peer_closed, stalled, acks): (bool, bool, Vec<u64>) = if w.e2e {
                        (self.e2e_closed[c - 1], false, self.e2e_acks[c - 1].clone())
                    } else {
                        match w.conns.get(c - 1) {
                            Some(pc) => (pc.peer_closed, pc.framed.is_some() && pc.stalled, pc.ack_numbers.clone()),
                            None => (false, false, Vec::new()),
                        }
                    };
                    let head = st.buffer.iter().find(|m| !st.closed.contains(m)).cloned();
                    if st.writing.is_empty() && head.is_some() {
                        // the drain loop pops the next live message and starts writing it
                        self.ev("writeBegin", rep);
                    } else if let Some(m) = st.writing.first().cloned() {
                        // a write is in progress: how does it end?
                        if w.e2e {
                            // the handler task only runs when the sender task yields: every write of one
                            // drain loop lands before the peer reacts
                            self.ev("writeOk", rep);
                        } else if peer_closed {
                            self.ev("writeFail", rep);
                        } else {
                            if stalled {
                                let read = w.conns[c - 1].wire.len();
                                let written = self.frames.get(c - 1).cloned().unwrap_or_default();
                                let size = |id: &u64| 4 + if big.contains(id) { BIG } else { 8 };
                                let inflight: usize = written.iter().skip(read).map(size).sum();
                                if inflight + size(&m) > self.duplex_capacity {
                                    rep.hit("state:write-blocked");
                                    return; // blocked inside `writer.send().await`
                                }
                            }
                            self.ev("writeOk", rep);
                        }
                    } else if !st.chan.is_empty() {
                        self.ev("recvMsg", rep);
                    } else {
                        let used = self.consumed.get(c - 1).cloned().unwrap_or(0);
                        if used < acks.len() {
                            if st.pending.is_empty() {
                                rep.hit("branch:unexpected-ack");
                            }
                            self.ev(&format!("(ackRead {})", acks[used]), rep);
                            // an UnexpectedAck tears the connection down: the response is consumed without an `ackd`
                            if st.pending.is_empty() {
                                while self.consumed.len() < c {
                                    self.consumed.push(0);
                                }
                                self.consumed[c - 1] += 1;
                            }
                        } else if peer_closed {
                            if st.pending.is_empty() {
                                rep.hit("branch:eof-with-empty-pending");
                            } else {
                                rep.hit("branch:eof-with-pending");
                            }
                            self.ev("readClosed", rep);
                        } else {
                            return;
                        }
                    }
                }
            }
        }
        panic!("model scheduler did not reach quiescence");
    }

    /// External events of one op, then run the model to quiescence.
    fn follow(&mut self, op: &Op, w: &World, big: &BTreeSet<u64>, rep: &mut Report) {
        match op {
            Op::Send | Op::SendBig | Op::SendAck | Op::CloseSend => {
                let id = w.msgs.last().map(|m| m.id).unwrap_or(0);
                self.ev(&format!("(send {})", id), rep);
            }
            Op::Cancel(i) => {
                if let Some(m) = w.msgs.get(*i) {
                    if m.cancelled_at == Some(w.op) {
                        self.ev(&format!("(cancel {})", m.id), rep);
                    }
                }
            }
            Op::Advance(_) => {
                if let Some(d) = self.deadline {
                    if w.t_adv >= d {
                        self.timer_fired = true;
                    }
                }
            }
            _ => {}
        }
        self.schedule(w, big, rep);
    }

    /// Compare what the model emitted so far with what was really observed.
    fn compare(&self, w: &World) -> Option<String> {
        if w.e2e {
            let real: Vec<u64> = w.hlog.lock().unwrap().deliveries.iter().map(|d| d.1).collect();
            if real != self.e2e_deliveries {
                return Some(format!("deliveries at the real Receiver's handler {:?}, model {:?}", real, self.e2e_deliveries));
            }
        } else {
            if w.conns.len() != self.st.conn {
                return Some(format!("connections established: real {}, model {} (model mode {})", w.conns.len(), self.st.conn, self.st.mode));
            }
            for (i, c) in w.conns.iter().enumerate() {
                let mf = self.frames.get(i).cloned().unwrap_or_default();
                let ok = if c.framed.is_some() && c.stalled { mf.starts_with(&c.wire) } else { mf == c.wire };
                if !ok {
                    return Some(format!("frames on connection {}: real {:?}, model {:?}", i + 1, c.wire, mf));
                }
            }
        }
        for m in &w.msgs {
            let real = m.result.as_ref().map(|r| parse_ack(r).unwrap_or(u64::MAX));
            let model = self.resolves.get(&m.id).cloned();
            if real != model {
                return Some(format!("handle of message {}: real resolved with {:?}, model with {:?}", m.id, real, model));
            }
        }
        None
    }
}

// ------------------------------------------------------------------------------------------------
// scenarios

struct Outcome {
    /// the scenario ran through its epilogue (peer up and ACKing until every live message resolved)
    completed: bool,
    concrete: Vec<Op>,
    violations: Vec<(String, String)>,
    mismatch: Option<String>,
    events: Vec<String>,
    conns: usize,
    msgs: usize,
    frames: usize,
    retransmissions: usize,
    cancelled: usize,
    features: BTreeSet<String>,
    shape: String,
}

/// Where the next abstract op comes from.
enum Source<'s> {
    Fixed(&'s [Op]),
    Random { rng: &'s mut SmallRng, style: u32, len: usize },
}

fn measure_duplex_capacity() -> usize {
    let rt = tokio::runtime::Builder::new_current_thread().enable_all().start_paused(true).build().unwrap();
    rt.block_on(async {
        use tokio::io::AsyncWriteExt as _;
        simnet::reset();
        let addr: SocketAddr = format!("127.0.0.1:{}", PORT).parse().unwrap();
        let l = TcpListener::bind(&addr).await.unwrap();
        let mut a = TcpStream::connect(addr).await.unwrap();
        let _b = l.accept().await.unwrap();
        let chunk = vec![0u8; 1 << 16];
        let mut total = 0usize;
        loop {
            match a.write(&chunk).now_or_never() {
                Some(Ok(n)) if n > 0 => total += n,
                _ => break,
            }
            if total > (1 << 28) {
                break;
            }
        }
        total
    })
}

fn choose(rng: &mut SmallRng, w: &World, deadline: bool, style: u32, bigs: usize) -> Op {
    let mut c: Vec<(Op, u32)> = Vec::new();
    let bound = w.listener.is_some();
    let open = w.cur_open();
    let stalled = w.cur_stalled();
    let outstanding = w.outstanding();
    let live = w.live_unresolved();
    c.push((Op::Send, 12));
    if style == 3 && bigs < 3 {
        c.push((Op::SendBig, 6));
    }
    if !live.is_empty() {
        let i = live[rng.gen_range(0, live.len())];
        c.push((Op::Cancel(i), if style == 2 { 10 } else { 3 }));
    }
    if !bound {
        c.push((Op::Listen, 8));
    } else {
        c.push((Op::Unlisten, if style == 1 || style == 4 { 3 } else { 1 }));
    }
    if open {
        c.push((Op::Close, if style == 1 { 8 } else { 3 }));
        c.push((Op::CloseSend, 2));
        if bound {
            c.push((Op::Crash, if style == 1 || style == 4 { 6 } else { 2 }));
        }
        if !stalled {
            if outstanding > 0 {
                c.push((Op::Ack, 10));
                c.push((Op::AckAll, 3));
                c.push((Op::AckClose, 3));
                c.push((Op::SendAck, 4));
            } else if !w.auto_ack {
                c.push((Op::Bogus, if style == 5 { 6 } else { 1 }));
            }
            if !w.auto_ack {
                c.push((Op::Stall, if style == 3 { 6 } else { 0 }));
            }
        } else {
            c.push((Op::Unstall, 5));
        }
    }
    if !stalled {
        c.push((Op::AutoAck(!w.auto_ack), 1));
    }
    if deadline {
        c.push((Op::Fire, if style == 4 { 14 } else { 8 }));
        c.push((Op::FireEarly, 2));
    }
    let total: u32 = c.iter().map(|x| x.1).sum();
    let mut r = rng.gen_range(0, total);
    for (op, wgt) in c {
        if r < wgt {
            return op;
        }
        r -= wgt;
    }
    Op::Send
}

/// Run one scenario on the real code; with a model, in lockstep with it.
/// Set while replaying a recording that stopped before its epilogue (at the first divergence or
/// violation): the at-least-once clause cannot be judged on it.
static REPLAY_TRUNCATED: std::sync::atomic::AtomicBool = std::sync::atomic::AtomicBool::new(false);

fn run_scenario(mut src: Source, e2e: bool, plan: BTreeMap<u64, Plan>, mut model: Option<&mut Model>, cap: usize, rep: &mut Report) -> Outcome {
    let rt = tokio::runtime::Builder::new_current_thread().enable_all().start_paused(true).build().unwrap();
    let out = rt.block_on(async {
        let mut w = World::new(e2e, plan);
        let mut mirror = match model.as_mut() {
            Some(m) => Some(Mirror::new(&mut **m, cap)),
            None => None,
        };
        let mut concrete: Vec<Op> = Vec::new();
        let mut big: BTreeSet<u64> = BTreeSet::new();
        let mut mismatch: Option<String> = None;
        let mut features: BTreeSet<String> = BTreeSet::new();
        let mut idx = 0usize;
        let mut epilogue: Vec<Op> = Vec::new();
        let mut in_epilogue = false;
        let mut epilogue_fires = 0;
        loop {
            // next abstract op
            let abs: Op = if !in_epilogue {
                let next = match &mut src {
                    Source::Fixed(ops) => ops.get(idx).cloned(),
                    Source::Random { rng, style, len } => {
                        if idx < *len {
                            Some(choose(rng, &w, mirror.as_ref().map_or(false, |m| m.deadline.is_some()), *style, big.len()))
                        } else {
                            None
                        }
                    }
                };
                idx += 1;
                match next {
                    Some(op) => op,
                    None => {
                        in_epilogue = true;
                        if mirror.is_none() {
                            break; // replay: the recorded concrete list already contains the epilogue
                        }
                        epilogue = if e2e { vec![Op::StartReceiver] } else { vec![Op::Unstall, Op::Listen, Op::AutoAck(true)] };
                        epilogue.reverse();
                        continue;
                    }
                }
            } else if let Some(op) = epilogue.pop() {
                op
            } else {
                let all_done = w.live_unresolved().is_empty();
                let idle = mirror.as_ref().map_or(true, |m| m.deadline.is_none());
                if all_done || epilogue_fires >= 14 || (idle && epilogue_fires > 0) {
                    break;
                }
                epilogue_fires += 1;
                Op::Fire
            };
            // abstract → concrete (clock ops need the model's view of the back-off)
            let mut todo: Vec<Op> = Vec::new();
            if let Some(m) = mirror.as_ref() {
                let now = Instant::now();
                let remaining = m.deadline.map(|d| d.saturating_duration_since(now).as_millis() as u64);
                match (&abs, remaining) {
                    (Op::Fire, Some(r)) => todo.push(Op::Advance(r + 8)),
                    (Op::Fire, None) => todo.push(Op::Advance(1)),
                    (Op::FireEarly, Some(r)) if r > 40 => todo.push(Op::Advance(r - 10)),
                    // too close to the deadline to stay clear of it: fire it (never let it elapse inside a barrier)
                    (Op::FireEarly, Some(r)) => todo.push(Op::Advance(r + 8)),
                    (Op::FireEarly, None) => todo.push(Op::Advance(1)),
                    (other, Some(r)) if r <= 30 => {
                        // the back-off would elapse by itself during the next barriers: fire it explicitly first
                        todo.push(Op::Advance(r + 8));
                        todo.push((*other).clone());
                    }
                    (other, _) => todo.push((*other).clone()),
                }
            } else {
                todo.push(abs.clone());
            }
            for op in todo {
                features.insert(op.text().split(':').next().unwrap().to_string());
                w.apply(&op).await;
                if matches!(op, Op::SendBig) {
                    big.insert(w.msgs.last().unwrap().id);
                }
                concrete.push(op.clone());
                if let Some(m) = mirror.as_mut() {
                    m.follow(&op, &w, &big, rep);
                    if mismatch.is_none() {
                        if let Some(d) = m.compare(&w) {
                            mismatch = Some(format!("after op #{} ({}): {}", concrete.len(), op.text(), d));
                        }
                    }
                }
            }
            if mismatch.is_some() || !w.violations.is_empty() || concrete.len() > 400 {
                break;
            }
        }
        let completed = mismatch.is_none() && w.violations.is_empty() && concrete.len() <= 400 && !REPLAY_TRUNCATED.load(std::sync::atomic::Ordering::Relaxed);
        w.monitor_final(completed);
        let frames: usize = if e2e { w.hlog.lock().unwrap().deliveries.len() } else { w.conns.iter().map(|c| c.wire.len()).sum() };
        let distinct: BTreeSet<u64> = if e2e {
            w.hlog.lock().unwrap().deliveries.iter().map(|d| d.1).collect()
        } else {
            w.conns.iter().flat_map(|c| c.wire.iter().cloned()).collect()
        };
        let nconns = if e2e { mirror.as_ref().map_or(0, |m| m.st.conn) } else { w.conns.len() };
        let shape = format!(
            "{}|{}|{}",
            if e2e { "e2e" } else { "scripted" },
            concrete.iter().map(|o| o.text().split(':').next().unwrap().to_string()).collect::<Vec<_>>().join(","),
            w.msgs.iter().map(|m| if m.result.is_some() { 'r' } else if m.cancelled_at.is_some() { 'c' } else { 'u' }).collect::<String>()
        );
        Outcome {
            completed,
            concrete,
            violations: w.violations.clone(),
            mismatch,
            events: mirror.as_ref().map_or(Vec::new(), |m| m.events.clone()),
            conns: nconns,
            msgs: w.msgs.len(),
            frames,
            retransmissions: frames - distinct.len(),
            cancelled: w.msgs.iter().filter(|m| m.cancelled_at.is_some()).count(),
            features,
            shape,
        }
    });
    drop(rt);
    out
}

/// Directed catalogue: n messages, the peer ACKs j of them, the connection breaks (peer closes /
/// peer dies) with k frames delivered, r consecutive refused connects, optional cancellation before
/// or after the break, optional sends while the peer is away.
fn directed(thorough: bool) -> Vec<Vec<Op>> {
    let mut out = Vec::new();
    let max_n = if thorough { 4 } else { 3 };
    let refusals: Vec<usize> = if thorough { (0..=10).collect() } else { vec![0, 1, 2, 6] };
    for n in 1..=max_n {
        for j in 0..=n {
            for &r in &refusals {
                for cancel in 0..(2 * n + 1) {
                    for late_send in 0..2 {
                        // cancel = 0: none; 1..=n: message before the break; n+1..=2n: after the break
                        if !thorough && (cancel + j + r + late_send) % 2 == 1 && n == 3 {
                            continue;
                        }
                        let mut ops = vec![Op::Listen];
                        for _ in 0..n {
                            ops.push(Op::Send);
                        }
                        for _ in 0..j {
                            ops.push(Op::Ack);
                        }
                        if cancel >= 1 && cancel <= n {
                            ops.push(Op::Cancel(cancel - 1));
                        }
                        ops.push(if r == 0 { Op::Close } else { Op::Crash });
                        if cancel > n {
                            ops.push(Op::Cancel(cancel - n - 1));
                        }
                        if late_send == 1 {
                            ops.push(Op::Send);
                        }
                        for i in 0..r {
                            if i + 1 == r {
                                ops.push(Op::Listen);
                                ops.push(Op::FireEarly);
                            }
                            ops.push(Op::Fire);
                        }
                        ops.push(Op::AckAll);
                        out.push(ops);
                    }
                }
            }
        }
    }
    // the connection breaks with a read ERROR (the peer died with unread data: RST) instead of EOF
    let mut resets = Vec::new();
    for n in 1..=3usize {
        for j in 0..=n {
            for late_send in 0..2 {
                let mut ops = vec![Op::Listen];
                for _ in 0..n {
                    ops.push(Op::Send);
                }
                for _ in 0..j {
                    ops.push(Op::Ack);
                }
                ops.push(Op::Reset);
                if late_send == 1 {
                    ops.push(Op::Send);
                }
                ops.push(Op::Fire);
                ops.push(Op::AckAll);
                resets.push(ops);
            }
        }
    }
    // sender started before the peer exists, messages and cancellations while it backs off
    for r in 1..=(if thorough { 11 } else { 7 }) {
        let mut ops = vec![Op::Send, Op::Send];
        for i in 0..r {
            ops.push(Op::Fire);
            if i == 1 {
                ops.push(Op::Send);
                ops.push(Op::Cancel(0));
            }
        }
        ops.push(Op::Listen);
        ops.push(Op::FireEarly);
        ops.push(Op::Fire);
        ops.push(Op::AckAll);
        out.push(ops);
    }
    // blocked write (peer not reading, duplex full), then the peer closes: write error path
    out.push(vec![Op::Listen, Op::Send, Op::Stall, Op::SendBig, Op::SendBig, Op::Send, Op::Close, Op::Unstall]);
    out.push(vec![Op::Listen, Op::Send, Op::Ack, Op::Stall, Op::SendBig, Op::SendBig, Op::Cancel(1), Op::Send, Op::Crash, Op::Send, Op::Fire, Op::Listen, Op::Fire]);
    out.push(vec![Op::Listen, Op::Stall, Op::SendBig, Op::SendBig, Op::Send, Op::Unstall, Op::AckAll]);
    // unexpected ACK while nothing is outstanding; a cancelled message in `pending` whose ACK arrives
    out.push(vec![Op::Listen, Op::Send, Op::Ack, Op::Bogus, Op::Send, Op::Ack]);
    out.push(vec![Op::Listen, Op::Send, Op::Send, Op::Send, Op::Cancel(0), Op::Ack, Op::Ack, Op::Ack]);
    out.push(vec![Op::Listen, Op::Send, Op::Send, Op::Send, Op::Cancel(1), Op::Ack, Op::Close, Op::Ack, Op::Ack]);
    out.push(vec![Op::Listen, Op::Send, Op::Send, Op::Cancel(0), Op::Cancel(1), Op::Close, Op::Send, Op::AckAll]);
    out.push(vec![Op::Listen, Op::Send, Op::SendAck, Op::SendAck, Op::AckClose, Op::CloseSend, Op::AckAll]);
    // appended last: the catalogue entries above keep their positions
    out.extend(resets);
    out
}

fn e2e_scenario(rng: &mut SmallRng) -> (Vec<Op>, BTreeMap<u64, Plan>) {
    let mut ops = Vec::new();
    let mut plan = BTreeMap::new();
    let n_before = rng.gen_range(0, 5usize);
    let mut sent = 0usize;
    let mut cancelled: BTreeSet<usize> = BTreeSet::new();
    for _ in 0..n_before {
        ops.push(Op::Send);
        sent += 1;
        if rng.gen_range(0, 3) == 0 {
            ops.push(Op::Fire);
        }
        if rng.gen_range(0, 4) == 0 {
            let i = rng.gen_range(0, sent);
            if cancelled.insert(i) {
                ops.push(Op::Cancel(i));
            }
        }
    }
    ops.push(Op::StartReceiver);
    let n_after = rng.gen_range(1, 7usize);
    for _ in 0..n_after {
        match rng.gen_range(0, 6) {
            0 => ops.push(Op::Fire),
            1 if sent > 0 => {
                let i = rng.gen_range(0, sent);
                if cancelled.insert(i) {
                    ops.push(Op::Cancel(i));
                }
            }
            _ => {
                ops.push(Op::Send);
                sent += 1;
            }
        }
    }
    for id in 1..=(sent as u64) {
        match rng.gen_range(0, 6) {
            0 => {
                plan.insert(id, Plan::FailBefore);
            }
            1 => {
                plan.insert(id, Plan::FailAfter);
            }
            _ => {}
        }
    }
    (ops, plan)
}

fn plan_json(plan: &BTreeMap<u64, Plan>) -> serde_json::Value {
    json!(plan
        .iter()
        .map(|(k, v)| format!("{}:{}", k, match v {
            Plan::Ack => "ack",
            Plan::FailBefore => "failbefore",
            Plan::FailAfter => "failafter",
        }))
        .collect::<Vec<_>>())
}

fn plan_parse(v: &serde_json::Value) -> BTreeMap<u64, Plan> {
    let mut plan = BTreeMap::new();
    if let Some(a) = v.as_array() {
        for x in a {
            if let Some(s) = x.as_str() {
                let mut it = s.split(':');
                if let (Some(k), Some(p)) = (it.next().and_then(|k| k.parse::<u64>().ok()), it.next()) {
                    plan.insert(k, match p {
                        "failbefore" => Plan::FailBefore,
                        "failafter" => Plan::FailAfter,
                        _ => Plan::Ack,
                    });
                }
            }
        }
    }
    plan
}

fn replay_value(o: &Outcome, e2e: bool, plan: &BTreeMap<u64, Plan>) -> serde_json::Value {
    json!({
        "engine": "sender",
        "variant": if e2e { "e2e" } else { "scripted" },
        "ops": o.concrete.iter().map(|x| x.text()).collect::<Vec<_>>(),
        "plan": plan_json(plan),
        "completed": o.completed,
    })
}

fn record(rep: &mut Report, o: &Outcome, e2e: bool, plan: &BTreeMap<u64, Plan>, kind: &str, distinct: &mut BTreeSet<String>, totals: &mut BTreeMap<&'static str, u64>) {
    rep.evaluations += 1;
    rep.hit(&format!("scenario:{}", kind));
    for p in plan.values() {
        rep.hit(&format!("e2e-handler:{:?}", p));
    }
    for f in &o.features {
        rep.hit(&format!("op:{}", f));
    }
    *totals.entry("ops").or_insert(0) += o.concrete.len() as u64;
    *totals.entry("messages").or_insert(0) += o.msgs as u64;
    *totals.entry("connections").or_insert(0) += o.conns as u64;
    *totals.entry("frames").or_insert(0) += o.frames as u64;
    *totals.entry("retransmitted_frames").or_insert(0) += o.retransmissions as u64;
    *totals.entry("cancelled").or_insert(0) += o.cancelled as u64;
    if o.conns >= 2 && o.msgs >= 2 {
        distinct.insert(o.shape.clone());
    }
    let replay = replay_value(o, e2e, plan);
    for (k, d) in &o.violations {
        rep.finding("impl_vs_property", k, d.clone(), replay.clone());
    }
    let model_findings = rep.findings.iter().filter(|f| f.class == "impl_vs_model").count();
    if let (Some(d), true) = (&o.mismatch, model_findings < 8) {
        rep.finding("impl_vs_model", "C14:sender-trace", format!("{} ; model events {:?}", d, o.events), replay.clone());
    }
    if rep.evaluations % 97 == 1 {
        rep.sample(json!({"kind": kind, "ops": o.concrete.iter().map(|x| x.text()).collect::<Vec<_>>(), "model_events": o.events,
            "connections": o.conns, "frames": o.frames, "retransmitted_frames": o.retransmissions}));
    }
}

pub fn run(o: &Opts) -> Report {
    let mut rep = Report::new("sender", "C14", &o.tier, o.seed);
    rep.rule = "a scenario is a list of harness ops (send, drop handle, peer listen/unlisten/close/crash/ack/bogus-ack/stall, clock advance to just before / past the back-off deadline, barrier-free pairs send+ack, ack+close, close+send), each followed by a run to quiescence; directed catalogue (n messages x ACKed prefix x break kind x 0..6(10) consecutive refused connects x cancellation before/after the break x send while away) plus seeded random scenarios in 6 styles plus end-to-end scenarios through the real Receiver with a handler that fails before/after ACKing; distinct = distinct (op-kind sequence, per-message outcome) among scenarios with >= 2 connections and >= 2 messages".into();
    let cap = measure_duplex_capacity();
    rep.hit(&format!("simnet-duplex-capacity:{}", cap));

    // ---- replay: real code + monitor only
    if let Some(path) = &o.replay {
        let v: serde_json::Value = serde_json::from_str(&std::fs::read_to_string(path).expect("cannot read replay file")).expect("replay file is not JSON");
        let v = if v.get("ops").is_some() { v } else { v.get("replay").cloned().unwrap_or(v) };
        let ops: Vec<Op> = v["ops"].as_array().map(|a| a.iter().filter_map(|x| x.as_str().and_then(Op::parse)).collect()).unwrap_or_default();
        let e2e = v["variant"].as_str() == Some("e2e");
        let plan = plan_parse(&v["plan"]);
        REPLAY_TRUNCATED.store(!v["completed"].as_bool().unwrap_or(false), std::sync::atomic::Ordering::Relaxed);
        let needs_model = ops.iter().any(|x| matches!(x, Op::Fire | Op::FireEarly));
        let mut model = if needs_model { Some(Model::spawn()) } else { None };
        let out = run_scenario(Source::Fixed(&ops), e2e, plan.clone(), model.as_mut(), cap, &mut rep);
        let mut distinct = BTreeSet::new();
        let mut totals = BTreeMap::new();
        record(&mut rep, &out, e2e, &plan, "replay", &mut distinct, &mut totals);
        return rep;
    }

    let mut rng = SmallRng::seed_from_u64(o.seed);
    let mut model = Model::spawn();
    let mut distinct: BTreeSet<String> = BTreeSet::new();
    let mut totals: BTreeMap<&'static str, u64> = BTreeMap::new();
    let started = std::time::Instant::now();
    let budget = std::time::Duration::from_secs(if o.thorough() { 240 } else { 14 });
    let none = BTreeMap::new();

    for ops in directed(o.thorough()) {
        let out = run_scenario(Source::Fixed(&ops), false, none.clone(), Some(&mut model), cap, &mut rep);
        record(&mut rep, &out, false, &none, "directed", &mut distinct, &mut totals);
    }
    let n_random = if o.thorough() { 40_000 } else { 1_500 };
    for i in 0..n_random {
        if started.elapsed() > budget {
            rep.hit("budget-exhausted");
            break;
        }
        if i % 8 == 7 {
            let (ops, plan) = e2e_scenario(&mut rng);
            let out = run_scenario(Source::Fixed(&ops), true, plan.clone(), Some(&mut model), cap, &mut rep);
            record(&mut rep, &out, true, &plan, "e2e", &mut distinct, &mut totals);
        } else {
            let style = (i % 6) as u32;
            let len = rng.gen_range(6, if o.thorough() { 60 } else { 36 });
            let out = run_scenario(Source::Random { rng: &mut rng, style, len }, false, none.clone(), Some(&mut model), cap, &mut rep);
            record(&mut rep, &out, false, &none, &format!("random-style{}", style), &mut distinct, &mut totals);
        }
    }
    for (k, v) in totals {
        rep.histogram.insert(format!("total:{}", k), v);
    }
    rep.distinct_nontrivial = distinct.len() as u64;
    rep.model_requests = model.requests;
    rep
}
