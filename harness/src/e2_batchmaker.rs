//! E2/batchmaker — the real `mempool::BatchMaker` task, the real `Processor` (+ real `Store`) and
//! the real bincode of `MempoolMessage` against the Lean model `HS.BM` (C11).
//!
//! The BatchMaker is spawned with an EMPTY peer list (no network) on a paused current-thread
//! runtime (one runtime per case, so no old task's timer interferes).  Events: a transaction is
//! pushed into `rx_transaction`; the paused clock is advanced.  After every event the task is given
//! the CPU at the same clock value (yields) and then a quiescence barrier (`sleep(1us)` = 1 virtual
//! ms, again followed by yields, because the tick itself can make the timer due); every clock value
//! reached is reported to the model (`(bm clock NOW)`), which decides with the code's timer-reset
//! rule whether the seal timer fired.  Compared per event: the serialized bytes of every sealed
//! batch (`QuorumWaiterMessage.batch`) and whether the task panicked.
//! Then every sealed batch goes through the real `Processor` with a real `Store`.
//!
//! Monitor (independent of the model): the sealed batches, decoded with the real bincode and
//! concatenated, are exactly the accepted transactions in order (every case ends with a clock
//! advance beyond `max_batch_delay`, so everything must be sealed by then); the unsealed rest is
//! below `batch_size` after every event; every transaction is sealed within `max_batch_delay`
//! (+ barrier slack) of its acceptance; the store key and the announced digest are
//! SHA-512(exact bytes)[..32] and the stored value is the exact bytes.
//!
//! Built with `--features benchmark` the engine tells the model so; an empty transaction then
//! panics the real task (F2), which the monitor reports as `C11:panic:batch_maker-empty-tx-benchmark`.
use crate::driver::Model;
use crate::report::Report;
use crate::Opts;
use ed25519_dalek::Digest as _;
use ed25519_dalek::Sha512;
use mempool::verif::{BatchMaker, MempoolMessage, Processor, QuorumWaiterMessage};
use rand::rngs::SmallRng;
use rand::{Rng, SeedableRng};
use serde::{Deserialize, Serialize};
use serde_json::json;
use std::collections::BTreeSet;
use std::sync::Mutex;
use std::time::Duration;
use store::Store;
use tokio::sync::mpsc::{channel, Receiver, Sender};

#[cfg(feature = "benchmark")]
const BENCHMARK: bool = true;
#[cfg(not(feature = "benchmark"))]
const BENCHMARK: bool = false;

static PANICS: Mutex<Vec<String>> = Mutex::new(Vec::new());

#[derive(Clone, Debug, Serialize, Deserialize, PartialEq)]
#[serde(tag = "ev", rename_all = "lowercase")]
pub enum Ev {
    Tx { bytes: String },
    Advance { ms: u64 },
}

#[derive(Clone, Debug, Serialize, Deserialize)]
pub struct Case {
    pub batch_size: usize,
    pub delay: u64,
    pub events: Vec<Ev>,
}

fn hex(b: &[u8]) -> String {
    b.iter().map(|x| format!("{:02x}", x)).collect()
}
fn unhex(s: &str) -> Vec<u8> {
    (0..s.len() / 2).map(|i| u8::from_str_radix(&s[2 * i..2 * i + 2], 16).unwrap_or(0)).collect()
}

/// What the model is told, in order.
#[derive(Clone, Debug)]
enum Sub {
    TxAt(u64, String),
    ClockAt(u64),
}

#[derive(Debug, Default)]
pub struct StepObs {
    subs: Vec<Sub>,
    sealed: Vec<Vec<u8>>,
    /// virtual time at the end of the step
    now: u64,
    panicked: Option<String>,
    handlers_nonempty: bool,
}

pub struct RealRun {
    /// rounding of the paused test clock: a timer armed for `now + d` fires at clock `now + d + skew` ms
    /// (tokio rounds deadlines up to its 1 ms tick grid, which is offset from the frozen clock by < 1 ms)
    skew: u64,
    spawn_at: u64,
    steps: Vec<StepObs>,
}

/// Let the other tasks run at the current clock value (no virtual time passes).
async fn settle() {
    for _ in 0..6 {
        tokio::task::yield_now().await;
    }
}

async fn exec_real(case: &Case) -> RealRun {
    let epoch = tokio::time::Instant::now();
    let now_ms = || (tokio::time::Instant::now() - epoch).as_millis() as u64;
    let skew = {
        let t = tokio::time::Instant::now();
        tokio::time::sleep(Duration::from_millis(2)).await;
        ((tokio::time::Instant::now() - t).as_millis() as u64).saturating_sub(2)
    };
    let (tx_transaction, rx_transaction) = channel::<Vec<u8>>(10_000);
    let (tx_message, mut rx_message) = channel::<QuorumWaiterMessage>(10_000);
    let spawn_at = now_ms();
    BatchMaker::spawn(case.batch_size, case.delay, rx_transaction, tx_message, vec![]);
    let mut steps = Vec::new();
    let mut dead = false;
    // step 0 = the spawn itself, then one step per event
    for i in 0..=case.events.len() {
        let mut obs = StepObs::default();
        let before = PANICS.lock().unwrap().len();
        if i > 0 && !dead {
            match &case.events[i - 1] {
                Ev::Tx { bytes } => {
                    obs.subs.push(Sub::TxAt(now_ms(), bytes.clone()));
                    if tx_transaction.send(unhex(bytes)).await.is_err() {
                        dead = true;
                    }
                    settle().await; // the task takes the transaction at this clock value
                }
                Ev::Advance { ms } => {
                    tokio::time::advance(Duration::from_millis(*ms)).await;
                    settle().await; // a timer that became due is handled at this clock value
                    obs.subs.push(Sub::ClockAt(now_ms()));
                }
            }
        }
        // quiescence barrier (1 virtual ms); the tick may itself make the seal timer due: the task
        // handles it after this task has been resumed, so let it run before looking
        tokio::time::sleep(Duration::from_micros(1)).await;
        settle().await;
        obs.subs.push(Sub::ClockAt(now_ms()));
        while let Ok(m) = rx_message.try_recv() {
            if !m.handlers.is_empty() {
                obs.handlers_nonempty = true;
            }
            obs.sealed.push(m.batch);
        }
        let p = PANICS.lock().unwrap();
        if p.len() > before {
            obs.panicked = Some(p[before..].join(" | "));
            dead = true;
        }
        obs.now = now_ms();
        steps.push(obs);
    }
    RealRun { skew, spawn_at, steps }
}

/// Per step: (sealed bytes as hex, panicked)
fn exec_model(model: &mut Model, case: &Case, real: &RealRun) -> (String, Vec<(Vec<String>, bool)>) {
    let ok = model.ask(&format!("(bm init {} {} {} {})", case.batch_size, case.delay + real.skew, real.spawn_at, BENCHMARK));
    let mut out = Vec::new();
    for st in &real.steps {
        let mut sealed = Vec::new();
        let mut panicked = false;
        for sub in &st.subs {
            let r = match sub {
                Sub::TxAt(now, b) => model.ask(&format!("(bm tx {} x{})", now, b)),
                Sub::ClockAt(now) => model.ask(&format!("(bm clock {})", now)),
            };
            for part in r.split("(sealed x").skip(1) {
                sealed.push(part.split(')').next().unwrap_or("").to_string());
            }
            if r.contains("(panic ") {
                panicked = true;
            }
            if !r.starts_with("(outs") {
                sealed.push(format!("model-error:{}", r));
            }
        }
        out.push((sealed, panicked));
    }
    (ok, out)
}

fn sha(bytes: &[u8]) -> [u8; 32] {
    let mut d = [0u8; 32];
    d.copy_from_slice(&Sha512::digest(bytes).as_slice()[..32]);
    d
}

/// The persistent processor + store (own runtime, so its barriers do not move the BatchMaker's clock).
struct Proc {
    rt: tokio::runtime::Runtime,
    store: Store,
    tx_batch: Sender<Vec<u8>>,
    rx_digest: Receiver<crypto::Digest>,
    path: String,
}

impl Proc {
    fn new(seed: u64) -> Proc {
        let rt = tokio::runtime::Builder::new_current_thread().enable_all().start_paused(true).build().unwrap();
        let dir = std::env::var("VERIF_WORK").unwrap_or_else(|_| "/verif/work".to_string());
        let _ = std::fs::create_dir_all(&dir);
        let path = format!("{}/db_batchmaker_{}_{}_{}", dir, std::process::id(), seed, BENCHMARK);
        let _ = std::fs::remove_dir_all(&path);
        let (tx_batch, rx_batch) = channel(10_000);
        let (tx_digest, rx_digest) = channel(10_000);
        let store = rt.block_on(async {
            let store = Store::new(&path).expect("cannot open store");
            Processor::spawn(store.clone(), rx_batch, tx_digest);
            store
        });
        Proc { rt, store, tx_batch, rx_digest, path }
    }

    /// Returns violations (kind, detail).
    fn check(&mut self, batches: &[Vec<u8>]) -> Vec<(String, String)> {
        let mut out = Vec::new();
        let Proc { rt, store, tx_batch, rx_digest, .. } = self;
        rt.block_on(async {
            for b in batches {
                tx_batch.send(b.clone()).await.expect("processor gone");
                tokio::time::sleep(Duration::from_micros(1)).await;
                let want = sha(b);
                match rx_digest.try_recv() {
                    Ok(d) => {
                        if d.0 != want {
                            out.push(("C11:digest-not-hash-of-bytes".to_string(), format!("processor announced {} for bytes hashing to {}", hex(&d.0), hex(&want))));
                        }
                    }
                    Err(_) => out.push(("C11:no-digest".to_string(), "processor announced no digest".to_string())),
                }
                match store.read(want.to_vec()).await {
                    Ok(Some(v)) if v == *b => {}
                    Ok(Some(_)) => out.push(("C11:store-value-differs".to_string(), format!("value under {} is not the serialized batch", hex(&want)))),
                    _ => out.push(("C11:store-key-not-hash".to_string(), format!("nothing stored under SHA-512(bytes)[..32] = {}", hex(&want)))),
                }
            }
        });
        out
    }
}

impl Drop for Proc {
    fn drop(&mut self) {
        let _ = std::fs::remove_dir_all(&self.path);
    }
}

/// Property monitor over the real run.
fn monitor(case: &Case, real: &RealRun, rep: &mut Report) -> Vec<(String, String)> {
    let mut out = Vec::new();
    let mut accepted: Vec<(Vec<u8>, u64)> = Vec::new(); // (bytes, accept time)
    let mut sealed_count = 0usize; // number of accepted txs already seen in sealed batches
    let mut panic: Option<String> = None;
    // every clock value the run went through: a timer can only fire at one of these
    let clock: Vec<u64> = real.steps.iter().flat_map(|s| s.subs.iter().filter_map(|x| if let Sub::ClockAt(c) = x { Some(*c) } else { None })).collect();
    for (i, st) in real.steps.iter().enumerate() {
        if i > 0 {
            if let Ev::Tx { bytes } = &case.events[i - 1] {
                let t = st.subs.iter().find_map(|s| if let Sub::TxAt(t, _) = s { Some(*t) } else { None }).unwrap_or(st.now);
                accepted.push((unhex(bytes), t));
            }
        }
        if st.handlers_nonempty {
            out.push(("C11:unexpected-handlers".into(), format!("step {}: handlers although the peer list is empty", i)));
        }
        for b in &st.sealed {
            match bincode::deserialize::<MempoolMessage>(b) {
                Ok(MempoolMessage::Batch(txs)) => {
                    if bincode::serialize(&MempoolMessage::Batch(txs.clone())).ok().as_deref() != Some(&b[..]) {
                        out.push(("C11:sealed-bytes-not-canonical".into(), format!("step {}: sealed bytes are not the serialization of the batch they decode to", i)));
                    }
                    if txs.is_empty() {
                        out.push(("C11:empty-batch-sealed".into(), format!("step {}", i)));
                    }
                    rep.hit(&format!("sealed.txs_per_batch.{}", match txs.len() { 0 => "0", 1 => "1", 2..=4 => "2-4", _ => "5+" }));
                    for tx in txs {
                        match accepted.get(sealed_count) {
                            Some((a, t)) if *a == tx => {
                                // "when the maximum delay elapses" = at the first clock reading >= accept + delay (+ barrier slack)
                                let due = clock.iter().cloned().find(|c| *c >= t + case.delay + real.skew).unwrap_or(u64::MAX - 10);
                                if st.now > due + 3 {
                                    out.push(("C11:sealed-too-late".into(), format!("step {}: tx #{} accepted at {} ms sealed at {} ms, max_batch_delay {}", i, sealed_count, t, st.now, case.delay)));
                                }
                            }
                            Some((a, _)) => out.push(("C11:tx-differs-or-out-of-order".into(), format!("step {}: sealed tx #{} is {} but the accepted one is {}", i, sealed_count, hex(&tx), hex(a)))),
                            None => out.push(("C11:tx-invented-or-duplicated".into(), format!("step {}: sealed tx #{} = {} was never accepted (or is sealed twice)", i, sealed_count, hex(&tx)))),
                        }
                        sealed_count += 1;
                    }
                }
                _ => out.push(("C11:sealed-bytes-not-a-batch".into(), format!("step {}: {} does not deserialize to MempoolMessage::Batch", i, hex(b)))),
            }
        }
        if let Some(p) = &st.panicked {
            panic = Some(p.clone());
        }
        // as soon as the threshold is reached: the unsealed rest is empty or below batch_size
        let open: usize = accepted[sealed_count.min(accepted.len())..].iter().map(|(b, _)| b.len()).sum();
        let open_n = accepted.len() - sealed_count.min(accepted.len());
        if panic.is_none() && open_n > 0 && open >= case.batch_size {
            out.push(("C11:not-sealed-at-threshold".into(), format!("step {}: {} unsealed txs of {} bytes >= batch_size {}", i, open_n, open, case.batch_size)));
        }
    }
    let total_tx = case.events.iter().filter(|e| matches!(e, Ev::Tx { .. })).count();
    if let Some(p) = &panic {
        let kind = if p.contains("batch_maker.rs") && BENCHMARK { "C11:panic:batch_maker-empty-tx-benchmark".to_string() } else { "C11:panic:batch_maker".to_string() };
        out.insert(0, (kind, format!("the BatchMaker task panicked ({}); {} of {} accepted transactions were never sealed", p.replace('\n', " "), total_tx - sealed_count.min(total_tx), total_tx)));
    } else if sealed_count != total_tx {
        out.push(("C11:tx-lost".into(), format!("{} transactions accepted, {} sealed after the final timer expiry", total_tx, sealed_count)));
    }
    out
}

// ------------------------------------------------------------------ generators

fn tx_of(rng: &mut SmallRng, len: usize, style: u32) -> String {
    let mut b: Vec<u8> = (0..len).map(|_| rng.gen()).collect();
    if len > 0 {
        match style % 4 {
            0 => b[0] = 0, // benchmark "sample" transactions start with 0 (and are longer than 8 bytes)
            1 => b[0] = 1,
            _ => {}
        }
    }
    hex(&b)
}

fn boundary_sizes(bs: usize) -> Vec<usize> {
    let mut v = vec![0, 1, 2, 8, 9, 10, bs.saturating_sub(1), bs, bs + 1, 2 * bs, 2 * bs + 1, 3 * bs + 1, bs / 2, bs / 2 + 1];
    v.sort();
    v.dedup();
    v.retain(|x| *x <= 5000);
    v
}

fn finish(mut events: Vec<Ev>, delay: u64) -> Vec<Ev> {
    events.push(Ev::Advance { ms: delay + 1 });
    events
}

fn gen_random(rng: &mut SmallRng, allow_empty: bool) -> Case {
    let batch_size = [0usize, 1, 2, 5, 9, 16, 100, 1000][rng.gen_range(0, 8)];
    let delay = [3u64, 7, 100][rng.gen_range(0, 3)];
    let sizes = boundary_sizes(batch_size);
    let n = rng.gen_range(1, 25);
    let mut events = Vec::new();
    for _ in 0..n {
        if rng.gen_range(0, 4) == 0 {
            let ms = match rng.gen_range(0, 6) {
                0 => 1,
                1 => delay.saturating_sub(1).max(1),
                2 => delay,
                3 => delay + 1,
                4 => 2 * delay + 1,
                _ => rng.gen_range(1, delay + 2),
            };
            events.push(Ev::Advance { ms });
        } else {
            let mut len = if rng.gen_range(0, 3) == 0 { rng.gen_range(0, batch_size.max(1) * 2 + 2).min(3000) } else { sizes[rng.gen_range(0, sizes.len())] };
            if len == 0 && !allow_empty {
                len = 1;
            }
            let style: u32 = rng.gen();
            events.push(Ev::Tx { bytes: tx_of(rng, len, style) });
        }
    }
    Case { batch_size, delay, events: finish(events, delay) }
}

fn gen_directed(rng: &mut SmallRng, allow_empty: bool) -> Vec<Case> {
    let mut v = Vec::new();
    for &bs in &[0usize, 1, 2, 9, 16, 100] {
        let delay = 7;
        let sizes: Vec<usize> = boundary_sizes(bs).into_iter().filter(|s| allow_empty || *s > 0).collect();
        for &a in &sizes {
            for &b in &sizes {
                for timing in 0..4 {
                    let ta = Ev::Tx { bytes: tx_of(rng, a, 0) };
                    let tb = Ev::Tx { bytes: tx_of(rng, b, timing) };
                    let events = match timing {
                        0 => vec![ta, tb],
                        1 => vec![ta, Ev::Advance { ms: delay - 3 }, tb, Ev::Advance { ms: 1 }],
                        2 => vec![ta, Ev::Advance { ms: delay }, tb],
                        _ => vec![Ev::Advance { ms: delay + 2 }, ta, Ev::Advance { ms: 2 }, tb, Ev::Advance { ms: delay - 4 }],
                    };
                    if (a + b + timing as usize) % 3 == 0 || bs <= 2 {
                        v.push(Case { batch_size: bs, delay, events: finish(events, delay) });
                    }
                }
            }
        }
    }
    v
}

/// Frames for the receiver-handler comparison: a sealed batch, mutated.
fn mutate(rng: &mut SmallRng, b: &[u8]) -> Vec<u8> {
    let mut m = b.to_vec();
    match rng.gen_range(0, 7) {
        0 => m.extend_from_slice(&[1, 2, 3]),          // trailing bytes
        1 => m.truncate(rng.gen_range(0, m.len() + 1)), // truncated
        2 if !m.is_empty() => m[0] = 1,                // other variant
        3 if m.len() > 4 => m[4] = m[4].wrapping_add(1), // count + 1
        4 if m.len() > 12 => m[12] = m[12].wrapping_add(1), // first length + 1
        5 if m.len() > 11 => m[11] = 0x40,             // absurd count
        _ => {
            if !m.is_empty() {
                let i = rng.gen_range(0, m.len());
                m[i] ^= 1 << rng.gen_range(0, 8);
            }
        }
    }
    m
}

fn run_case(model: Option<&mut Model>, proc_: &mut Proc, rep: &mut Report, case: &Case, distinct: &mut BTreeSet<String>, rng: &mut SmallRng) {
    let rt = tokio::runtime::Builder::new_current_thread().enable_all().start_paused(true).build().unwrap();
    let real = rt.block_on(exec_real(case));
    drop(rt);
    if std::env::var("BM_DEBUG").is_ok() {
        for (i, st) in real.steps.iter().enumerate() {
            eprintln!("step {} subs {:?} sealed {:?} now {} panic {:?}", i, st.subs, st.sealed.iter().map(|b| hex(b)).collect::<Vec<_>>(), st.now, st.panicked);
        }
    }
    rep.evaluations += 1;
    let replay = json!({"engine": "batchmaker", "benchmark": BENCHMARK, "batch_size": case.batch_size, "delay": case.delay, "events": case.events});
    let mut violations = monitor(case, &real, rep);
    let sealed: Vec<Vec<u8>> = real.steps.iter().flat_map(|s| s.sealed.iter().cloned()).collect();
    violations.extend(proc_.check(&sealed));
    for (kind, detail) in violations {
        // at most 3 findings per kind (the report keeps 20 in all), all of them counted
        let n = rep.histogram.entry(format!("violation.{}", kind)).or_insert(0);
        *n += 1;
        if *n <= 3 {
            rep.finding("impl_vs_property", &kind, detail, replay.clone());
        }
    }
    rep.hit(&format!("batch_size.{}", case.batch_size));
    rep.hit(&format!("test-clock-rounding-ms.{}", real.skew));
    let has_empty = case.events.iter().any(|e| matches!(e, Ev::Tx { bytes } if bytes.is_empty()));
    if has_empty {
        rep.hit("case.with-empty-tx");
    }
    if real.steps.iter().any(|s| s.panicked.is_some()) {
        rep.hit("real.task-panicked");
    }
    for (i, st) in real.steps.iter().enumerate() {
        if !st.sealed.is_empty() {
            let by_tx = i > 0 && matches!(case.events[i - 1], Ev::Tx { .. });
            rep.hit(if by_tx { "seal.in-tx-event" } else { "seal.in-advance-event" });
            if st.sealed.len() > 1 {
                rep.hit("seal.two-in-one-step");
            }
        }
    }
    if sealed.len() >= 2 {
        distinct.insert(serde_json::to_string(case).unwrap());
    }
    if let Some(model) = model {
        let (ok, m) = exec_model(model, case, &real);
        if !ok.starts_with("(ok") {
            rep.finding("impl_vs_model", "C11:model-init", ok.clone(), replay.clone());
        }
        for (i, (st, (msealed, mpanic))) in real.steps.iter().zip(m.iter()).enumerate() {
            let rsealed: Vec<String> = st.sealed.iter().map(|b| hex(b)).collect();
            if rsealed != *msealed || st.panicked.is_some() != *mpanic {
                rep.finding(
                    "impl_vs_model",
                    "C11:sealed-trace",
                    format!("step {} ({:?}, subs {:?}): model sealed {:?} panic {}, impl sealed {:?} panic {:?}", i, if i > 0 { Some(&case.events[i - 1]) } else { None }, st.subs, msealed, mpanic, rsealed, st.panicked),
                    replay.clone(),
                );
                break;
            }
        }
        // receiver handler: exact sealed bytes and mutated frames, real bincode vs model decoder
        for b in sealed.iter().take(3) {
            for k in 0..3 {
                let frame = if k == 0 { b.clone() } else { mutate(rng, b) };
                // a mutated frame may decode as the BatchRequest variant, whose PublicKey goes through
                // `decode_base64` and can panic there (defect F3, property C15 — not a batch message, outside C11)
                let real_is_batch = match std::panic::catch_unwind(|| matches!(bincode::deserialize::<MempoolMessage>(&frame), Ok(MempoolMessage::Batch(..)))) {
                    Ok(b) => b,
                    Err(_) => {
                        rep.hit("handler.real-deserialize-panicked(F3,non-batch-variant)");
                        false
                    }
                };
                let r = model.ask(&format!("(bm handler x{})", hex(&frame)));
                let want = if real_is_batch { format!("(forward x{})", hex(&frame)) } else { "(drop)".to_string() };
                rep.hit(if real_is_batch { "handler.batch" } else { "handler.not-batch" });
                if r != want {
                    rep.finding("impl_vs_model", "C11:receiver-handler", format!("frame {}: model {} impl {}", hex(&frame), r, want), json!({"engine": "batchmaker", "frame": hex(&frame)}));
                }
            }
        }
        if rep.evaluations % 97 == 1 {
            rep.sample(json!({"batch_size": case.batch_size, "delay": case.delay, "benchmark": BENCHMARK,
                "events": case.events.iter().take(6).map(|e| match e { Ev::Tx { bytes } => format!("tx[{}]", bytes.len() / 2), Ev::Advance { ms } => format!("+{}ms", ms) }).collect::<Vec<_>>(),
                "sealed_sizes": sealed.iter().map(|b| b.len()).collect::<Vec<_>>()}));
        }
    }
}

/// A BURST: `k` transactions are already queued on the transaction channel when the batch maker
/// starts handling them (a client burst, or arrivals while `seal` was busy).  C11: still exactly one
/// batch per threshold crossing, in order, nothing lost — "sealed as soon as the size threshold is
/// reached".  Independent oracle (no model): the batches laid end to end are the input; every batch
/// sealed by size stays below the threshold without its last transaction.
async fn exec_burst(batch_size: usize, sizes: &[usize]) -> Vec<(String, String)> {
    let (tx_transaction, rx_transaction) = channel::<Vec<u8>>(10_000);
    let (tx_message, mut rx_message) = channel::<QuorumWaiterMessage>(10_000);
    let mut input: Vec<Vec<u8>> = Vec::new();
    for (i, n) in sizes.iter().enumerate() {
        let mut t = vec![1u8; *n];
        for (k, b) in t.iter_mut().enumerate().skip(1) {
            *b = ((i * 31 + k) % 251) as u8;
        }
        input.push(t.clone());
        let _ = tx_transaction.send(t).await; // queued before the task exists: no yield in between
    }
    BatchMaker::spawn(batch_size, 1_000, rx_transaction, tx_message, vec![]);
    tokio::time::sleep(Duration::from_micros(1)).await;
    settle().await;
    let mut by_size: Vec<Vec<Vec<u8>>> = Vec::new();
    while let Ok(m) = rx_message.try_recv() {
        match bincode::deserialize::<MempoolMessage>(&m.batch) {
            Ok(MempoolMessage::Batch(b)) => by_size.push(b),
            _ => return vec![("C11:sealed-batch-not-decodable".into(), "a sealed batch does not decode as MempoolMessage::Batch".into())],
        }
    }
    // the rest is sealed by the timer
    tokio::time::advance(Duration::from_millis(1_001)).await;
    tokio::time::sleep(Duration::from_micros(1)).await;
    settle().await;
    let mut all = by_size.clone();
    while let Ok(m) = rx_message.try_recv() {
        if let Ok(MempoolMessage::Batch(b)) = bincode::deserialize::<MempoolMessage>(&m.batch) {
            all.push(b);
        }
    }
    let mut out = Vec::new();
    let flat: Vec<Vec<u8>> = all.iter().flatten().cloned().collect();
    if flat != input {
        out.push(("C11:transactions-lost-or-reordered".into(), format!("burst of {} transactions (sizes {:?}, batch_size {}): the sealed batches laid end to end are {} transactions and differ from the input", input.len(), sizes, batch_size, flat.len())));
    }
    for (i, b) in by_size.iter().enumerate() {
        let total: usize = b.iter().map(|t| t.len()).sum();
        let without_last: usize = total - b.last().map_or(0, |t| t.len());
        if batch_size > 0 && without_last >= batch_size {
            out.push(("C11:not-sealed-at-threshold".into(), format!("burst (sizes {:?}, batch_size {}): batch {} holds {} transactions / {} B; it had already reached the threshold ({} B) before its last transaction and was not sealed then", sizes, batch_size, i, b.len(), total, without_last)));
        }
        if total < batch_size {
            out.push(("C11:sealed-below-threshold-without-timer".into(), format!("burst: batch {} of {} B sealed although below batch_size {} and no timer fired", i, total, batch_size)));
        }
    }
    out
}

pub fn run(o: &Opts) -> Report {
    let mut rep = Report::new("batchmaker", "C11", &o.tier, o.seed);
    rep.rule = format!("benchmark feature = {}; batch_size in {{0,1,2,5,9,16,100,1000}}, max_batch_delay in {{3,7,100}} ms; transactions of 0 B, 1 B, batch_size-1/+0/+1, 2x, 3x+1, 8/9/10 B (benchmark sample boundary) and random sizes, first byte 0 / 1 / random; clock advances of 1, delay-1, delay, delay+1, 2*delay+1 ms between them; directed pairs (a,b) of boundary sizes x 4 timings plus random sequences of up to 25 events; every sealed batch through the real Processor+Store; distinct by the case; non-trivial when at least two batches are sealed", BENCHMARK);
    let old_hook = std::panic::take_hook();
    std::panic::set_hook(Box::new(|info| {
        let loc = info.location().map(|l| format!("{}:{}:{}", l.file(), l.line(), l.column())).unwrap_or_default();
        let msg = info.payload().downcast_ref::<&str>().map(|s| s.to_string()).or_else(|| info.payload().downcast_ref::<String>().cloned()).unwrap_or_default();
        if !loc.contains("mempool/src/batch_maker.rs") && !loc.contains("crypto/src/lib.rs") {
            eprintln!("harness panic at {}: {}", loc, msg); // not the code under test: make it visible
        }
        PANICS.lock().unwrap().push(format!("panicked at {}: {}", loc, msg));
    }));
    // bursts (not with the benchmark sample scan: sizes start with byte 1)
    if o.replay.is_none() {
        let mut rng = SmallRng::seed_from_u64(o.seed ^ 0xb0057);
        let n_bursts = if o.thorough() { 200 } else { 12 };
        for k in 0..n_bursts {
            let batch_size = [200usize, 100, 64, 1000][k % 4];
            let len = rng.gen_range(3, 25);
            let sizes: Vec<usize> = (0..len).map(|_| if rng.gen_bool(0.5) { 100 } else { rng.gen_range(1, 260) }).collect();
            let rt = tokio::runtime::Builder::new_current_thread().enable_all().start_paused(true).build().unwrap();
            let v = rt.block_on(exec_burst(batch_size, &sizes));
            drop(rt);
            rep.evaluations += 1;
            rep.hit("case.burst");
            for (kind, d) in v {
                rep.finding("impl_vs_property", &kind, d, json!({"engine": "batchmaker", "burst": {"batch_size": batch_size, "sizes": sizes}}));
            }
        }
    }
    let mut proc_ = Proc::new(o.seed);
    let mut distinct = BTreeSet::new();
    let mut rng = SmallRng::seed_from_u64(o.seed);

    if let Some(file) = &o.replay {
        let v: serde_json::Value = serde_json::from_str(&std::fs::read_to_string(file).expect("replay file")).expect("replay json");
        if v.get("benchmark").and_then(|b| b.as_bool()).map_or(false, |b| b != BENCHMARK) {
            rep.hit("replay.recorded-on-the-other-build");
        }
        if let Some(b) = v.get("burst") {
            let batch_size = b["batch_size"].as_u64().unwrap_or(200) as usize;
            let sizes: Vec<usize> = b["sizes"].as_array().map(|a| a.iter().map(|x| x.as_u64().unwrap_or(0) as usize).collect()).unwrap_or_default();
            let rt = tokio::runtime::Builder::new_current_thread().enable_all().start_paused(true).build().unwrap();
            let vs = rt.block_on(exec_burst(batch_size, &sizes));
            drop(rt);
            rep.evaluations += 1;
            for (kind, d) in vs {
                rep.finding("impl_vs_property", &kind, d, json!({"engine": "batchmaker", "burst": {"batch_size": batch_size, "sizes": sizes}}));
            }
            std::panic::set_hook(old_hook);
            return rep;
        }
        let case: Case = serde_json::from_value(v).expect("replay case");
        run_case(None, &mut proc_, &mut rep, &case, &mut distinct, &mut rng);
        rep.distinct_nontrivial = distinct.len() as u64;
        std::panic::set_hook(old_hook);
        return rep;
    }

    let mut model = Model::spawn();
    // In the benchmark build empty transactions kill the task (F2): keep them to a part of the cases so
    // that the rest of the behaviour is still compared.
    for (i, case) in gen_directed(&mut rng, true).into_iter().enumerate() {
        let has_empty = case.events.iter().any(|e| matches!(e, Ev::Tx { bytes } if bytes.is_empty()));
        if BENCHMARK && has_empty && i % 4 != 0 {
            continue;
        }
        rep.hit("case.directed");
        run_case(Some(&mut model), &mut proc_, &mut rep, &case, &mut distinct, &mut rng);
    }
    let cases = if o.thorough() { 40_000 } else { 1_500 };
    for i in 0..cases {
        let allow_empty = if BENCHMARK { i % 4 == 0 } else { true };
        let case = gen_random(&mut rng, allow_empty);
        rep.hit("case.random");
        run_case(Some(&mut model), &mut proc_, &mut rep, &case, &mut distinct, &mut rng);
    }
    std::panic::set_hook(old_hook);
    rep.distinct_nontrivial = distinct.len() as u64;
    rep.model_requests = model.requests;
    rep
}
