//! E1/codec — byte-level codec of the wire types against the model (C20 / C18 / C15-decode).
//!
//! Section A (C20, C15): valid message stream: `bincode::serialize`, digest pre-images, decode round trips,
//!   the block sync/store path, trailing bytes, digest-separation monitors.
//! Section B (C15): malformed stream against the real decoders (`bincode::deserialize`, `decode_base64`),
//!   three-way outcome ok / err / panic compared with the model.
//! Section C (C18): signatures (bit flips, batches), key codecs, base64, JSON key files.
use crate::driver::Model;
use crate::report::Report;
use crate::Opts;
use consensus::verif::{ConsensusMessage, Timeout, Vote};
use consensus::{Block, QC, TC};
use crypto::{Digest, Hash as _, PublicKey, SecretKey, Signature};
use ed25519_dalek::Digest as _;
use ed25519_dalek::Sha512;
use mempool::verif::MempoolMessage;
use rand::rngs::{SmallRng, StdRng};
use rand::{Rng, RngCore, SeedableRng};
use serde_json::{json, Value};
use std::cell::{Cell, RefCell};
use std::collections::{BTreeSet, HashMap, HashSet};
use std::hash::Hasher as _;
use std::panic::{self, AssertUnwindSafe};

#[allow(dead_code)]
#[path = "/repo/node/src/config.rs"]
mod node_config;
use node_config::Export as _;

// ------------------------------------------------------------------------------------------------
// small helpers
// ------------------------------------------------------------------------------------------------

fn hex(b: &[u8]) -> String {
    const T: &[u8; 16] = b"0123456789abcdef";
    let mut s = String::with_capacity(b.len() * 2);
    for x in b {
        s.push(T[(x >> 4) as usize] as char);
        s.push(T[(x & 15) as usize] as char);
    }
    s
}

fn hx(b: &[u8]) -> String {
    let mut s = String::with_capacity(b.len() * 2 + 1);
    s.push('x');
    s.push_str(&hex(b));
    s
}

fn unhex(s: &str) -> Option<Vec<u8>> {
    let b = s.as_bytes();
    if b.len() % 2 != 0 {
        return None;
    }
    let v = |c: u8| -> Option<u8> {
        match c {
            b'0'..=b'9' => Some(c - b'0'),
            b'a'..=b'f' => Some(c - b'a' + 10),
            b'A'..=b'F' => Some(c - b'A' + 10),
            _ => None,
        }
    };
    let mut out = Vec::with_capacity(b.len() / 2);
    for p in b.chunks(2) {
        out.push(v(p[0])? * 16 + v(p[1])?);
    }
    Some(out)
}

fn hex_atom(s: &str) -> Option<Vec<u8>> {
    s.strip_prefix('x').and_then(unhex)
}

fn sha32(b: &[u8]) -> [u8; 32] {
    let mut out = [0u8; 32];
    out.copy_from_slice(&Sha512::digest(b)[..32]);
    out
}

/// The digest every Timeout / TC entry is signed over, recomputed as `TC::verify` does.
fn timeout_digest(round: u64, hq: u64) -> Digest {
    let mut hasher = Sha512::new();
    hasher.update(round.to_le_bytes());
    hasher.update(hq.to_le_bytes());
    let mut out = [0u8; 32];
    out.copy_from_slice(&hasher.finalize()[..32]);
    Digest(out)
}

fn short(s: &str) -> String {
    if s.len() <= 360 {
        s.to_string()
    } else {
        format!("{}…[{} chars]…{}", &s[..240], s.len(), &s[s.len() - 80..])
    }
}

fn h64(tag: &str, b: &[u8]) -> u64 {
    let mut h = std::collections::hash_map::DefaultHasher::new();
    h.write(tag.as_bytes());
    h.write_u8(0xff);
    h.write(b);
    h.finish()
}

fn sig_bytes(s: &Signature) -> Vec<u8> {
    bincode::serialize(s).unwrap_or_else(|_| vec![0u8; 64])
}

fn sig_from(b: &[u8]) -> Signature {
    bincode::deserialize::<Signature>(b).unwrap_or_default()
}

fn sk_bytes(s: &SecretKey) -> Vec<u8> {
    base64::decode(s.encode_base64()).unwrap_or_default()
}

// ------------------------------------------------------------------------------------------------
// panic capture
// ------------------------------------------------------------------------------------------------

thread_local! {
    static GUARD: Cell<bool> = Cell::new(false);
    static PLOC: RefCell<Option<(String, u32)>> = RefCell::new(None);
}

fn install_hook() {
    static ONCE: std::sync::Once = std::sync::Once::new();
    ONCE.call_once(|| {
        let prev = panic::take_hook();
        panic::set_hook(Box::new(move |info| {
            if GUARD.with(|g| g.get()) {
                let loc = info.location().map(|l| (l.file().to_string(), l.line()));
                PLOC.with(|p| *p.borrow_mut() = loc);
            } else {
                prev(info);
            }
        }));
    });
}

/// Run real code; a panic is caught silently and its `file:line` returned.
fn guarded<T>(f: impl FnOnce() -> T) -> Result<T, String> {
    install_hook();
    PLOC.with(|p| *p.borrow_mut() = None);
    GUARD.with(|g| g.set(true));
    let r = panic::catch_unwind(AssertUnwindSafe(f));
    GUARD.with(|g| g.set(false));
    match r {
        Ok(v) => Ok(v),
        Err(_) => Err(PLOC
            .with(|p| p.borrow_mut().take())
            .map(|(f, l)| format!("{}:{}", f, l))
            .unwrap_or_else(|| "unknown:0".to_string())),
    }
}

fn panic_kind(loc: &str) -> String {
    let file = loc.rsplitn(2, ':').last().unwrap_or("");
    if file.ends_with("crypto/src/lib.rs") {
        "C15:panic:decode_base64-short".to_string()
    } else {
        format!("C15:panic:{}", loc)
    }
}

// ------------------------------------------------------------------------------------------------
// s-expression printers of the real values (syntax of Driver/Codec.lean)
// ------------------------------------------------------------------------------------------------

fn sx_sig(s: &Signature) -> String {
    hx(&sig_bytes(s))
}

fn sx_qc(q: &QC) -> String {
    let votes: Vec<String> = q.votes.iter().map(|(k, s)| format!("({} {})", hx(&k.0), sx_sig(s))).collect();
    format!("(qc {} {} ({}))", hx(&q.hash.0), q.round, votes.join(" "))
}

fn sx_tc(t: &TC) -> String {
    let votes: Vec<String> = t.votes.iter().map(|(k, s, r)| format!("({} {} {})", hx(&k.0), sx_sig(s), r)).collect();
    format!("(tc {} ({}))", t.round, votes.join(" "))
}

fn sx_digests(ds: &[Digest]) -> String {
    let v: Vec<String> = ds.iter().map(|d| hx(&d.0)).collect();
    format!("({})", v.join(" "))
}

fn sx_block(b: &Block) -> String {
    let tc = match &b.tc {
        None => "(none)".to_string(),
        Some(t) => format!("(some {})", sx_tc(t)),
    };
    format!("(block {} {} {} {} {} {})", sx_qc(&b.qc), tc, hx(&b.author.0), b.round, sx_digests(&b.payload), sx_sig(&b.signature))
}

fn sx_vote(v: &Vote) -> String {
    format!("(vote {} {} {} {})", hx(&v.hash.0), v.round, hx(&v.author.0), sx_sig(&v.signature))
}

fn sx_timeout(t: &Timeout) -> String {
    format!("(timeout {} {} {} {})", sx_qc(&t.high_qc), t.round, hx(&t.author.0), sx_sig(&t.signature))
}

fn sx_cmsg(m: &ConsensusMessage) -> String {
    match m {
        ConsensusMessage::Propose(b) => format!("(propose {})", sx_block(b)),
        ConsensusMessage::Vote(v) => sx_vote(v),
        ConsensusMessage::Timeout(t) => sx_timeout(t),
        ConsensusMessage::TC(t) => sx_tc(t),
        ConsensusMessage::SyncRequest(d, k) => format!("(sync {} {})", hx(&d.0), hx(&k.0)),
    }
}

fn sx_txs(txs: &[Vec<u8>]) -> String {
    let v: Vec<String> = txs.iter().map(|t| hx(t)).collect();
    format!("({})", v.join(" "))
}

fn sx_mmsg(m: &MempoolMessage) -> String {
    match m {
        MempoolMessage::Batch(txs) => format!("(batch {})", sx_txs(txs)),
        MempoolMessage::BatchRequest(ds, k) => format!("(batchreq {} {})", sx_digests(ds), hx(&k.0)),
    }
}

fn tname(m: &ConsensusMessage) -> &'static str {
    match m {
        ConsensusMessage::Propose(_) => "propose",
        ConsensusMessage::Vote(_) => "vote",
        ConsensusMessage::Timeout(_) => "timeout",
        ConsensusMessage::TC(_) => "tc",
        ConsensusMessage::SyncRequest(..) => "sync",
    }
}

fn cmsg_digest(m: &ConsensusMessage) -> Option<[u8; 32]> {
    match m {
        ConsensusMessage::Propose(b) => Some(b.digest().0),
        ConsensusMessage::Vote(v) => Some(v.digest().0),
        ConsensusMessage::Timeout(t) => Some(t.digest().0),
        _ => None,
    }
}

/// `verify(&committee)` verdict of a message as text (`None`: the type has no verify).
fn verdict(m: &ConsensusMessage, c: &consensus::Committee) -> Option<String> {
    let r = match m {
        ConsensusMessage::Propose(b) => b.verify(c),
        ConsensusMessage::Vote(v) => v.verify(c),
        ConsensusMessage::Timeout(t) => t.verify(c),
        ConsensusMessage::TC(t) => t.verify(c),
        ConsensusMessage::SyncRequest(..) => return None,
    };
    Some(match r {
        Ok(()) => "ok".to_string(),
        Err(e) => format!("err: {}", e),
    })
}

fn cmsg_nontrivial(m: &ConsensusMessage) -> bool {
    match m {
        ConsensusMessage::Propose(b) => {
            !b.qc.votes.is_empty() || !b.payload.is_empty() || b.tc.as_ref().map_or(false, |t| !t.votes.is_empty())
        }
        ConsensusMessage::Vote(_) => false,
        ConsensusMessage::Timeout(t) => !t.high_qc.votes.is_empty(),
        ConsensusMessage::TC(t) => !t.votes.is_empty(),
        ConsensusMessage::SyncRequest(..) => false,
    }
}

// ------------------------------------------------------------------------------------------------
// model answers
// ------------------------------------------------------------------------------------------------

#[derive(Debug, Clone, PartialEq)]
enum MAns {
    Ok(Vec<Option<Vec<u8>>>),
    Err,
    Panic,
    Bad(String),
}

fn parse_res(s: &str) -> MAns {
    let s = s.trim();
    if s == "(err)" {
        return MAns::Err;
    }
    if s == "(panic)" {
        return MAns::Panic;
    }
    if let Some(inner) = s.strip_prefix("(ok").and_then(|r| r.strip_suffix(')')) {
        let mut out = Vec::new();
        for tok in inner.split_whitespace() {
            if tok == "-" {
                out.push(None);
            } else if let Some(b) = hex_atom(tok) {
                out.push(Some(b));
            } else {
                return MAns::Bad(short(s));
            }
        }
        return MAns::Ok(out);
    }
    MAns::Bad(short(s))
}

// ------------------------------------------------------------------------------------------------
// real decoders, canonical outcome
// ------------------------------------------------------------------------------------------------

enum ROut {
    Ok(Vec<u8>, Option<[u8; 32]>),
    Err,
    Panic(String),
    /// input cannot be given to this decoder (non-UTF-8 text for a `&str` decoder)
    Skip,
}

impl ROut {
    fn class(&self) -> &'static str {
        match self {
            ROut::Ok(..) => "ok",
            ROut::Err => "err",
            ROut::Panic(_) => "panic",
            ROut::Skip => "skip",
        }
    }
    fn text(&self) -> String {
        match self {
            ROut::Ok(b, d) => format!("(ok {} digest={})", short(&hx(b)), d.map_or("-".to_string(), |d| hex(&d))),
            ROut::Err => "(err)".into(),
            ROut::Panic(l) => format!("(panic) at {}", l),
            ROut::Skip => "(skip)".into(),
        }
    }
}

type DecRes = Option<Result<(Vec<u8>, Option<[u8; 32]>), ()>>;

fn real_decode(target: &str, input: &[u8]) -> ROut {
    let r = guarded(|| -> DecRes {
        match target {
            "cmsg" => Some(
                bincode::deserialize::<ConsensusMessage>(input)
                    .map(|m| (bincode::serialize(&m).unwrap_or_default(), cmsg_digest(&m)))
                    .map_err(|_| ()),
            ),
            "mmsg" => Some(
                bincode::deserialize::<MempoolMessage>(input).map(|m| (bincode::serialize(&m).unwrap_or_default(), None)).map_err(|_| ()),
            ),
            "block" => Some(
                bincode::deserialize::<Block>(input)
                    .map(|b| (bincode::serialize(&b).unwrap_or_default(), Some(b.digest().0)))
                    .map_err(|_| ()),
            ),
            "pk" => std::str::from_utf8(input).ok().map(|s| PublicKey::decode_base64(s).map(|k| (k.0.to_vec(), None)).map_err(|_| ())),
            "sk" => std::str::from_utf8(input).ok().map(|s| SecretKey::decode_base64(s).map(|k| (sk_bytes(&k), None)).map_err(|_| ())),
            _ => None,
        }
    });
    match r {
        Err(loc) => ROut::Panic(loc),
        Ok(None) => ROut::Skip,
        Ok(Some(Err(()))) => ROut::Err,
        Ok(Some(Ok((b, d)))) => ROut::Ok(b, d),
    }
}

fn model_dec_cmd(target: &str) -> &'static str {
    match target {
        "cmsg" => "dec-cmsg",
        "mmsg" => "dec-mmsg",
        "block" => "dec-block",
        "pk" => "keydec",
        _ => "skeydec",
    }
}

/// Does the model's answer describe the same outcome as the real decoder's?
fn outcomes_agree(target: &str, real: &ROut, model: &MAns) -> bool {
    match (real, model) {
        (ROut::Err, MAns::Err) => true,
        (ROut::Panic(_), MAns::Panic) => true,
        (ROut::Ok(b, d), MAns::Ok(parts)) => match target {
            "cmsg" => {
                parts.len() == 2
                    && parts[0].as_deref() == Some(&b[..])
                    && match (&parts[1], d) {
                        (None, None) => true,
                        (Some(pre), Some(d)) => sha32(pre) == *d,
                        _ => false,
                    }
            }
            "block" => {
                parts.len() == 2
                    && parts[0].as_deref() == Some(&b[..])
                    && match (&parts[1], d) {
                        (Some(pre), Some(d)) => sha32(pre) == *d,
                        _ => false,
                    }
            }
            _ => parts.len() == 1 && parts[0].as_deref() == Some(&b[..]),
        },
        _ => false,
    }
}

// ------------------------------------------------------------------------------------------------
// engine state
// ------------------------------------------------------------------------------------------------

const BR: [u64; 12] = [0, 1, 2, 255, 256, (1 << 32) - 1, 1 << 32, (1 << 32) + 1, (1 << 63) - 1, 1 << 63, u64::MAX - 1, u64::MAX];

struct Eng<'a> {
    o: &'a Opts,
    rep: Report,
    model: Model,
    rng: SmallRng,
    /// the committee of 4 real key pairs
    kp: Vec<(PublicKey, SecretKey)>,
    committee: consensus::Committee,
    distinct: HashSet<u64>,
    /// digest -> (class: 0 block, 1 vote/QC, 2 timeout/TC entry; pre-image fields)
    dmap: HashMap<[u8; 32], (u8, Vec<u8>)>,
    once: BTreeSet<String>,
    idx: u64,
}

fn block_fields(author: &PublicKey, round: u64, payload: &[Digest], parent: &Digest) -> Vec<u8> {
    let mut f = Vec::with_capacity(80 + payload.len() * 32);
    f.extend_from_slice(&author.0);
    f.extend_from_slice(&round.to_le_bytes());
    f.extend_from_slice(&(payload.len() as u64).to_le_bytes());
    for d in payload {
        f.extend_from_slice(&d.0);
    }
    f.extend_from_slice(&parent.0);
    f
}

fn vote_fields(hash: &Digest, round: u64) -> Vec<u8> {
    let mut f = hash.0.to_vec();
    f.extend_from_slice(&round.to_le_bytes());
    f
}

fn timeout_fields(round: u64, hq: u64) -> Vec<u8> {
    let mut f = round.to_le_bytes().to_vec();
    f.extend_from_slice(&hq.to_le_bytes());
    f
}

impl<'a> Eng<'a> {
    fn new(o: &'a Opts) -> Eng<'a> {
        let mut kp = Vec::new();
        for k in 0..4u64 {
            let mut r = StdRng::seed_from_u64(o.seed ^ (0x5eed_0000 + k));
            kp.push(crypto::generate_keypair(&mut r));
        }
        let committee = consensus::Committee::new(
            kp.iter().enumerate().map(|(i, (pk, _))| (*pk, 1u32, format!("127.0.0.1:{}", 9000 + i).parse().unwrap())).collect(),
            1,
        );
        Eng {
            o,
            rep: Report::new("codec", &o.prop, &o.tier, o.seed),
            model: Model::spawn(),
            rng: SmallRng::seed_from_u64(o.seed),
            kp,
            committee,
            distinct: HashSet::new(),
            dmap: HashMap::new(),
            once: BTreeSet::new(),
            idx: 0,
        }
    }

    fn seeded(&self, what: &str) -> Value {
        json!({"engine": "codec", "case": "seeded", "prop": self.o.prop, "seed": self.o.seed, "tier": self.o.tier, "index": self.idx, "what": what})
    }

    /// At most 3 findings per kind reach the report (it caps at 20 in total); all are counted in the histogram.
    fn per_kind_room(&mut self, kind: &str) -> bool {
        let key = format!("finding:{}", kind);
        self.rep.hit(&key);
        self.rep.histogram.get(&key).map_or(true, |n| *n <= 3)
    }

    fn ivm(&mut self, kind: &str, detail: String, replay: Value) {
        if self.per_kind_room(kind) {
            self.rep.finding("impl_vs_model", kind, detail, replay);
        }
    }

    fn ivp(&mut self, kind: &str, detail: String, replay: Value) {
        if self.per_kind_room(kind) {
            self.rep.finding("impl_vs_property", kind, detail, replay);
        }
    }

    /// only one finding per distinct kind (the rest is counted in the histogram)
    fn ivp_once(&mut self, kind: &str, detail: String, replay: Value) {
        self.rep.hit(&format!("finding:{}", kind));
        if self.once.insert(kind.to_string()) {
            self.rep.finding("impl_vs_property", kind, detail, replay);
        }
    }

    fn note_input(&mut self, tag: &str, bytes: &[u8], nontrivial: bool) {
        if nontrivial {
            self.distinct.insert(h64(tag, bytes));
        }
    }

    // ---- model helpers ----------------------------------------------------------------------

    /// Ask a command whose answer is one hex atom.
    fn ask_hex(&mut self, line: &str) -> Result<Vec<u8>, String> {
        let a = self.model.ask(line);
        hex_atom(a.trim()).ok_or_else(|| short(&a))
    }

    /// `(cmd SX)` must answer exactly the bytes `real`.
    fn cmp_bytes(&mut self, line: String, real: &[u8], kind: &str, what: &str) {
        self.rep.evaluations += 1;
        match self.ask_hex(&line) {
            Ok(b) if b == real => {}
            Ok(b) => {
                let r = self.seeded(what);
                self.ivm(kind, format!("{}: model {} real {} for {}", what, short(&hx(&b)), short(&hx(real)), short(&line)), r)
            }
            Err(a) => {
                let r = self.seeded(what);
                self.ivm(kind, format!("{}: malformed model answer {} for {}", what, a, short(&line)), r)
            }
        }
    }

    /// `(pre-… )` must answer a pre-image whose SHA-512[..32] is the real digest.
    fn cmp_pre(&mut self, line: String, real: &Digest, kind: &str, what: &str) {
        self.rep.evaluations += 1;
        match self.ask_hex(&line) {
            Ok(pre) if sha32(&pre) == real.0 => {}
            Ok(pre) => {
                let r = self.seeded(what);
                self.ivm(kind, format!("{}: Sha512(model pre-image {})[..32] != real digest {} for {}", what, short(&hx(&pre)), hex(&real.0), short(&line)), r)
            }
            Err(a) => {
                let r = self.seeded(what);
                self.ivm(kind, format!("{}: malformed model answer {} for {}", what, a, short(&line)), r)
            }
        }
    }

    // ---- global digest map ------------------------------------------------------------------

    fn reg(&mut self, class: u8, fields: Vec<u8>, d: &Digest, what: &str) {
        self.rep.evaluations += 1;
        let clash = match self.dmap.get(&d.0) {
            Some((c, f)) if *c != class || *f != fields => Some((*c, f.clone())),
            Some(_) => return,
            None => None,
        };
        if let Some((c, f)) = clash {
            let r = self.seeded(what);
            self.ivp(
                "C20:digest-collision:global",
                format!("digest {} is shared by class {} fields {} and class {} fields {}", hex(&d.0), c, short(&hex(&f)), class, short(&hex(&fields))),
                r,
            );
        } else {
            self.dmap.insert(d.0, (class, fields));
        }
    }

    fn reg_block(&mut self, b: &Block) {
        let d = b.digest();
        self.reg(0, block_fields(&b.author, b.round, &b.payload, &b.qc.hash), &d, "block");
    }

    // ---- random components ------------------------------------------------------------------

    fn rd(&mut self) -> Digest {
        let mut b = [0u8; 32];
        self.rng.fill_bytes(&mut b);
        Digest(b)
    }

    fn rbytes(&mut self, n: usize) -> Vec<u8> {
        let mut b = vec![0u8; n];
        self.rng.fill_bytes(&mut b);
        b
    }

    fn rpk(&mut self) -> PublicKey {
        let mut b = [0u8; 32];
        self.rng.fill_bytes(&mut b);
        PublicKey(b)
    }

    fn rround(&mut self) -> u64 {
        match self.rng.gen_range(0, 10) {
            0..=3 => BR[self.rng.gen_range(0, BR.len())],
            4..=6 => self.rng.gen_range(0, 1000),
            _ => self.rng.gen(),
        }
    }

    fn rsig(&mut self) -> Signature {
        let b = self.rbytes(64);
        sig_from(&b)
    }

    fn sign(&self, d: &Digest, i: usize) -> Signature {
        Signature::new(d, &self.kp[i % self.kp.len()].1)
    }

    /// `n` distinct committee members in random order.
    fn signers(&mut self, n: usize) -> Vec<usize> {
        let mut v: Vec<usize> = (0..self.kp.len()).collect();
        for i in (1..v.len()).rev() {
            let j = self.rng.gen_range(0, i + 1);
            v.swap(i, j);
        }
        v.truncate(n.min(self.kp.len()));
        v
    }

    fn payload(&mut self, n: usize) -> Vec<Digest> {
        (0..n).map(|_| self.rd()).collect()
    }

    fn mk_qc(&mut self, hash: Digest, round: u64, signers: &[usize], junk: usize) -> QC {
        let d = QC { hash: hash.clone(), round, votes: Vec::new() }.digest();
        let mut votes: Vec<(PublicKey, Signature)> = signers.iter().map(|i| (self.kp[*i].0, self.sign(&d, *i))).collect();
        for _ in 0..junk {
            let k = self.rpk();
            let s = self.rsig();
            votes.push((k, s));
        }
        QC { hash, round, votes }
    }

    fn mk_tc(&mut self, round: u64, entries: &[(usize, u64)], junk: usize) -> TC {
        let mut votes: Vec<(PublicKey, Signature, u64)> =
            entries.iter().map(|(i, hq)| (self.kp[*i].0, self.sign(&timeout_digest(round, *hq), *i), *hq)).collect();
        for _ in 0..junk {
            let k = self.rpk();
            let s = self.rsig();
            let r = self.rround();
            votes.push((k, s, r));
        }
        TC { round, votes }
    }

    fn mk_block(&self, qc: QC, tc: Option<TC>, author: usize, round: u64, payload: Vec<Digest>) -> Block {
        let b = Block { qc, tc, author: self.kp[author].0, round, payload, signature: Signature::default() };
        let signature = self.sign(&b.digest(), author);
        Block { signature, ..b }
    }

    fn mk_vote(&self, hash: Digest, round: u64, author: usize) -> Vote {
        let v = Vote { hash, round, author: self.kp[author].0, signature: Signature::default() };
        let signature = self.sign(&v.digest(), author);
        Vote { signature, ..v }
    }

    fn mk_timeout(&self, high_qc: QC, round: u64, author: usize) -> Timeout {
        let t = Timeout { high_qc, round, author: self.kp[author].0, signature: Signature::default() };
        let signature = self.sign(&t.digest(), author);
        Timeout { signature, ..t }
    }

    /// A QC in one of several styles; returns (qc, verifies-when-embedded, label).
    fn gen_qc(&mut self, style: u32, junk: usize) -> (QC, bool, &'static str) {
        match style % 8 {
            0 => (QC::genesis(), true, "qc-genesis"),
            1 => {
                let s = self.signers(3);
                let (h, r) = (self.rd(), self.rround());
                (self.mk_qc(h, r, &s, 0), true, "qc-q3")
            }
            2 => {
                let s = self.signers(4);
                let (h, r) = (self.rd(), self.rround());
                (self.mk_qc(h, r, &s, 0), true, "qc-q4")
            }
            3 => {
                let n = self.rng.gen_range(0, 3);
                let s = self.signers(n);
                let (h, r) = (self.rd(), self.rround());
                (self.mk_qc(h, r, &s, 0), false, "qc-subquorum")
            }
            4 => {
                let s = self.signers(3);
                let (h, r) = (self.rd(), self.rround());
                (self.mk_qc(h, r, &s, junk.max(1)), false, "qc-junkvotes")
            }
            5 => (self.mk_qc(Digest::default(), 0, &[], junk.max(1)), true, "qc-genesislike+votes"),
            6 => {
                let s = self.signers(3);
                let (h, r) = (self.rd(), self.rround());
                let mut q = self.mk_qc(h, r, &s, 0);
                q.votes[1].1 = self.sign(&Digest::default(), s[1]);
                (q, false, "qc-badsig")
            }
            _ => {
                let s = self.signers(3);
                let (h, r) = (self.rd(), self.rround());
                let mut q = self.mk_qc(h, r, &s, 0);
                let dup = q.votes[0].clone();
                q.votes.push(dup);
                (q, false, "qc-dupsigner")
            }
        }
    }

    /// A TC in one of several styles; returns (tc, verifies, label).
    fn gen_tc(&mut self, style: u32, junk: usize) -> (TC, bool, &'static str) {
        let round = self.rround();
        match style % 5 {
            0 => {
                let s = self.signers(3);
                let e: Vec<(usize, u64)> = s.iter().map(|i| (*i, self.rng.gen_range(0, 50))).collect();
                (self.mk_tc(round, &e, 0), true, "tc-q3")
            }
            1 => {
                let s = self.signers(4);
                let mut e = Vec::new();
                for i in s {
                    e.push((i, self.rround()));
                }
                (self.mk_tc(round, &e, 0), true, "tc-q4")
            }
            2 => (self.mk_tc(round, &[], 0), false, "tc-empty"),
            3 => {
                let n = self.rng.gen_range(1, 3);
                let s = self.signers(n);
                let e: Vec<(usize, u64)> = s.iter().map(|i| (*i, 0u64)).collect();
                (self.mk_tc(round, &e, 0), false, "tc-subquorum")
            }
            _ => {
                let s = self.signers(3);
                let e: Vec<(usize, u64)> = s.iter().map(|i| (*i, 7u64)).collect();
                (self.mk_tc(round, &e, junk.max(1)), false, "tc-junkentries")
            }
        }
    }
}

// ------------------------------------------------------------------------------------------------
// Section A: valid message stream
// ------------------------------------------------------------------------------------------------

impl<'a> Eng<'a> {
    /// Pre-image comparisons and digest registration for the parts of a QC / TC.
    fn pre_qc(&mut self, q: &QC, what: &str) {
        let d = q.digest();
        self.cmp_pre(format!("(pre-vote {} {})", hx(&q.hash.0), q.round), &d, "C20:preimage:qc", what);
        self.reg(1, vote_fields(&q.hash, q.round), &d, what);
    }

    fn pre_tc(&mut self, t: &TC, what: &str) {
        let mut seen = BTreeSet::new();
        for (_, _, hq) in t.votes.iter() {
            if !seen.insert(*hq) {
                continue;
            }
            let d = timeout_digest(t.round, *hq);
            if seen.len() <= 6 {
                self.cmp_pre(format!("(pre-timeout {} {})", t.round, hq), &d, "C20:preimage:tc-entry", what);
            }
            self.reg(2, timeout_fields(t.round, *hq), &d, what);
        }
    }

    fn check_cmsg(&mut self, kind: &str, m: &ConsensusMessage, honest: bool, big: bool) {
        self.idx += 1;
        self.rep.hit(kind);
        let ty = tname(m);
        let bytes = match bincode::serialize(m) {
            Ok(b) => b,
            Err(e) => {
                let r = self.seeded(kind);
                self.ivp("C20:roundtrip-bytes", format!("{}: serialize failed: {}", kind, e), r);
                return;
            }
        };
        self.note_input("cmsg", &bytes, cmsg_nontrivial(m));
        if self.idx % 37 == 1 {
            self.rep.sample(json!({"section": "A", "kind": kind, "type": ty, "bytes": bytes.len(), "head": hex(&bytes[..bytes.len().min(48)])}));
        }

        // 1. serialisation
        self.cmp_bytes(format!("(enc-cmsg {})", sx_cmsg(m)), &bytes, &format!("C20:serialize:{}", ty), kind);

        // 2. digest pre-images
        match m {
            ConsensusMessage::Propose(b) => {
                let d = b.digest();
                self.cmp_pre(
                    format!("(pre-block {} {} {} {})", hx(&b.author.0), b.round, sx_digests(&b.payload), hx(&b.qc.hash.0)),
                    &d,
                    "C20:preimage:block",
                    kind,
                );
                self.reg_block(b);
                self.pre_qc(&b.qc, kind);
                if let Some(t) = &b.tc {
                    self.pre_tc(t, kind);
                }
            }
            ConsensusMessage::Vote(v) => {
                let d = v.digest();
                self.cmp_pre(format!("(pre-vote {} {})", hx(&v.hash.0), v.round), &d, "C20:preimage:vote", kind);
                self.reg(1, vote_fields(&v.hash, v.round), &d, kind);
            }
            ConsensusMessage::Timeout(t) => {
                let d = t.digest();
                self.cmp_pre(format!("(pre-timeout {} {})", t.round, t.high_qc.round), &d, "C20:preimage:timeout", kind);
                self.reg(2, timeout_fields(t.round, t.high_qc.round), &d, kind);
                self.pre_qc(&t.high_qc, kind);
            }
            ConsensusMessage::TC(t) => self.pre_tc(t, kind),
            ConsensusMessage::SyncRequest(..) => {}
        }

        // 3. decode round trip (property monitors on the real code) + model decode
        let committee = self.committee.clone();
        let v_orig = guarded(|| verdict(m, &committee));
        let dec = guarded(|| bincode::deserialize::<ConsensusMessage>(&bytes));
        self.rep.evaluations += 3;
        let mut real_re: Option<(Vec<u8>, Option<[u8; 32]>)> = None;
        match dec {
            Err(loc) => {
                let r = self.seeded(kind);
                self.ivp("C20:roundtrip-bytes", format!("{}: deserialize of a valid encoding panicked at {}", kind, loc), r);
            }
            Ok(Err(e)) => {
                let r = self.seeded(kind);
                self.ivp("C20:roundtrip-bytes", format!("{}: deserialize of a valid encoding failed: {}", kind, e), r);
            }
            Ok(Ok(m2)) => {
                let re = bincode::serialize(&m2).unwrap_or_default();
                if re != bytes {
                    let r = self.seeded(kind);
                    self.ivp("C20:roundtrip-bytes", format!("{}: re-serialisation differs: {} vs {}", kind, short(&hex(&re)), short(&hex(&bytes))), r);
                }
                let (d1, d2) = (cmsg_digest(m), cmsg_digest(&m2));
                if d1 != d2 {
                    let r = self.seeded(kind);
                    self.ivp("C20:roundtrip-digest", format!("{}: digest before {:?} after {:?}", kind, d1.map(|d| hex(&d)), d2.map(|d| hex(&d))), r);
                }
                let v_dec = guarded(|| verdict(&m2, &committee));
                let bad = v_dec != v_orig || v_dec.is_err() || (honest && matches!(&v_dec, Ok(Some(v)) if v != "ok"));
                if bad {
                    let r = self.seeded(kind);
                    self.ivp("C20:roundtrip-verify", format!("{}: honest={} verify before {:?} after {:?}", kind, honest, v_orig, v_dec), r);
                }
                match &v_dec {
                    Ok(Some(v)) if v == "ok" => self.rep.hit("verify:ok"),
                    Ok(Some(_)) => self.rep.hit("verify:err"),
                    _ => {}
                }
                real_re = Some((re, d2));
            }
        }
        if let Some((re, d)) = &real_re {
            self.rep.evaluations += 1;
            let ans = parse_res(&self.model.ask(&format!("(dec-cmsg {})", hx(&bytes))));
            let real = ROut::Ok(re.clone(), *d);
            if !outcomes_agree("cmsg", &real, &ans) {
                let r = self.seeded(kind);
                self.ivm(&format!("C20:decode:{}", ty), format!("{}: model {} real {}", kind, short(&format!("{:?}", ans)), real.text()), r);
            }
        }

        // 4. sync / store path of blocks
        if let ConsensusMessage::Propose(b) = m {
            self.sync_path(kind, b, honest, big);
        }

        // 5. trailing bytes
        if !big {
            let n = self.rng.gen_range(1, 17);
            let mut ext = bytes.clone();
            let tail = self.rbytes(n);
            ext.extend_from_slice(&tail);
            let real = real_decode("cmsg", &ext);
            self.rep.evaluations += 2;
            match &real {
                ROut::Ok(re, d) if *re == bytes && *d == cmsg_digest(m) => {}
                other => {
                    let r = self.seeded(kind);
                    self.ivp("C20:roundtrip-bytes", format!("{}: with {} trailing bytes the real decoder gives {}", kind, n, other.text()), r);
                }
            }
            let ans = parse_res(&self.model.ask(&format!("(dec-cmsg {})", hx(&ext))));
            if !outcomes_agree("cmsg", &real, &ans) {
                let r = self.seeded(kind);
                self.ivm(&format!("C20:decode:{}", ty), format!("{}: trailing bytes: model {} real {}", kind, short(&format!("{:?}", ans)), real.text()), r);
            }
            self.rep.hit("valid:trailing-bytes");
        }

        // 6. digest separation
        match m {
            ConsensusMessage::Propose(b) => self.sep_block(b),
            ConsensusMessage::Vote(v) => self.sep_vote(&v.hash, v.round),
            ConsensusMessage::Timeout(t) => self.sep_timeout(t.round, t.high_qc.round),
            _ => {}
        }
    }

    fn sync_path(&mut self, kind: &str, b: &Block, honest: bool, big: bool) {
        let committee = self.committee.clone();
        let stored = bincode::serialize(b).unwrap_or_default();
        self.rep.hit("valid:syncpath");
        self.rep.evaluations += 2;
        let d0 = b.digest();
        let v0 = guarded(|| b.verify(&committee).map_err(|e| e.to_string()));
        let path = guarded(|| -> Result<(Vec<u8>, Block), String> {
            let b2 = bincode::deserialize::<Block>(&stored).map_err(|e| format!("stored block: {}", e))?;
            let frame = bincode::serialize(&ConsensusMessage::Propose(b2)).map_err(|e| e.to_string())?;
            match bincode::deserialize::<ConsensusMessage>(&frame).map_err(|e| format!("frame: {}", e))? {
                ConsensusMessage::Propose(b3) => Ok((frame, b3)),
                _ => Err("frame decodes to another variant".to_string()),
            }
        });
        let (frame, b3) = match path {
            Ok(Ok(x)) => x,
            other => {
                let r = self.seeded(kind);
                self.ivp("C20:syncpath", format!("{}: store→helper→receiver path failed: {:?}", kind, other.map(|r| r.map(|_| ()))), r);
                return;
            }
        };
        let v3 = guarded(|| b3.verify(&committee).map_err(|e| e.to_string()));
        if b3.digest() != d0 || v3 != v0 || v3.is_err() || (honest && v3 != Ok(Ok(()))) {
            let r = self.seeded(kind);
            self.ivp(
                "C20:syncpath",
                format!("{}: digest {} → {}, verify {:?} → {:?} (honest={})", kind, hex(&d0.0), hex(&b3.digest().0), v0, v3, honest),
                r,
            );
        }
        // model
        let ans = parse_res(&self.model.ask(&format!("(sync-path {})", hx(&stored))));
        let ok = match &ans {
            MAns::Ok(p) if p.len() == 2 => p[0].as_deref() == Some(&frame[..]) && p[1].as_ref().map(|pre| sha32(pre)) == Some(b3.digest().0),
            _ => false,
        };
        if !ok {
            let r = self.seeded(kind);
            self.ivm("C20:syncpath-model", format!("{}: model {} real frame {} digest {}", kind, short(&format!("{:?}", ans)), short(&hex(&frame)), hex(&b3.digest().0)), r);
        }
        if !big {
            self.cmp_bytes(format!("(enc-block {})", sx_block(b)), &stored, "C20:serialize:block", kind);
            self.rep.evaluations += 1;
            let real = real_decode("block", &stored);
            let ans = parse_res(&self.model.ask(&format!("(dec-block {})", hx(&stored))));
            let same = matches!(&real, ROut::Ok(re, d) if *re == stored && *d == Some(d0.0));
            if !same {
                let r = self.seeded(kind);
                self.ivp("C20:syncpath", format!("{}: stored block does not decode to itself: {}", kind, real.text()), r);
            }
            if !outcomes_agree("block", &real, &ans) {
                let r = self.seeded(kind);
                self.ivm("C20:decode:block", format!("{}: model {} real {}", kind, short(&format!("{:?}", ans)), real.text()), r);
            }
        }
    }

    /// Two blocks that differ in the stated field must have different digests.
    fn differ(&mut self, a: &Block, b: &Block, what: &str) {
        self.rep.evaluations += 1;
        self.rep.hit("separation:block");
        self.reg_block(b);
        let same_fields = a.author == b.author && a.round == b.round && a.payload == b.payload && a.qc.hash == b.qc.hash;
        if !same_fields && a.digest() == b.digest() {
            let r = self.seeded(what);
            self.ivp(
                &format!("C20:digest-collision:{}", what),
                format!(
                    "blocks (author {} round {} payload {} parent {}) and (author {} round {} payload {} parent {}) share digest {}",
                    hex(&a.author.0), a.round, short(&sx_digests(&a.payload)), hex(&a.qc.hash.0),
                    hex(&b.author.0), b.round, short(&sx_digests(&b.payload)), hex(&b.qc.hash.0), hex(&a.digest().0)
                ),
                r,
            );
        }
    }

    fn bare(author: PublicKey, round: u64, payload: Vec<Digest>, parent: Digest) -> Block {
        Block { qc: QC { hash: parent, round: 0, votes: Vec::new() }, tc: None, author, round, payload, signature: Signature::default() }
    }

    fn sep_block(&mut self, b: &Block) {
        let base = Self::bare(b.author, b.round, b.payload.clone(), b.qc.hash.clone());
        // author
        let mut v = base.clone();
        let bit = self.rng.gen_range(0, 256);
        v.author.0[bit / 8] ^= 1 << (bit % 8);
        self.differ(&base, &v, "author");
        let mut v = base.clone();
        v.author = self.kp[(self.idx as usize) % 4].0;
        self.differ(&base, &v, "author");
        // round
        for r in [b.round.wrapping_add(1), b.round.wrapping_sub(1), b.round.swap_bytes(), b.round ^ (1 << 63), b.round ^ (1 << 32)] {
            let mut v = base.clone();
            v.round = r;
            self.differ(&base, &v, "round");
        }
        // payload
        if !b.payload.is_empty() {
            let mut v = base.clone();
            v.payload.pop();
            self.differ(&base, &v, "payload-drop");
            let mut v = base.clone();
            let i = self.rng.gen_range(0, v.payload.len());
            let j = self.rng.gen_range(0, 32);
            v.payload[i].0[j] ^= 1 << self.rng.gen_range(0, 8);
            self.differ(&base, &v, "payload-byte");
            if b.payload.len() >= 2 {
                let mut v = base.clone();
                let i = self.rng.gen_range(0, v.payload.len());
                let j = (i + 1 + self.rng.gen_range(0, v.payload.len() - 1)) % v.payload.len();
                v.payload.swap(i, j);
                self.differ(&base, &v, "payload-reorder");
            }
            let mut v = base.clone();
            let last = v.payload[v.payload.len() - 1].clone();
            v.payload.push(last);
            self.differ(&base, &v, "payload-add");
        }
        for extra in [self.rd(), Digest::default(), b.qc.hash.clone()] {
            let mut v = base.clone();
            v.payload.push(extra);
            self.differ(&base, &v, "payload-add");
        }
        // parent
        let mut v = base.clone();
        let bit = self.rng.gen_range(0, 256);
        v.qc.hash.0[bit / 8] ^= 1 << (bit % 8);
        self.differ(&base, &v, "parent");
        if let Some(last) = b.payload.last() {
            // move the last payload digest into the parent position and vice versa
            let mut v = base.clone();
            let l = last.clone();
            let n = v.payload.len();
            v.payload[n - 1] = v.qc.hash.clone();
            v.qc.hash = l;
            self.differ(&base, &v, "payload-parent-swap");
        }
    }

    /// Boundary-adjacent pairs with fresh random material.
    fn sep_pairs(&mut self) {
        let (d1, d2, p) = (self.rd(), self.rd(), self.rd());
        let a = self.kp[self.rng.gen_range(0, 4)].0;
        let r = self.rround();
        let x = Self::bare(a, r, vec![d1.clone(), d2.clone()], p.clone());
        let y = Self::bare(a, r, vec![d1.clone()], d2.clone());
        self.differ(&x, &y, "payload-parent-boundary");
        let z = Self::bare(a, r, vec![d2.clone()], d1.clone());
        self.differ(&y, &z, "payload-parent-swap");
        let w = Self::bare(a, r, vec![], d1.clone());
        let w2 = Self::bare(a, r, vec![d1.clone()], p.clone());
        self.differ(&w, &w2, "payload-parent-boundary");
        self.reg_block(&x);
        self.reg_block(&w);
        // round / author byte swap: author = le64(x) ‖ t, round = y   vs   author = le64(y) ‖ t, round = x
        let (rx, ry) = (self.rround(), self.rround());
        let t = self.rbytes(24);
        let mut a1 = [0u8; 32];
        a1[..8].copy_from_slice(&rx.to_le_bytes());
        a1[8..].copy_from_slice(&t);
        let mut a2 = a1;
        a2[..8].copy_from_slice(&ry.to_le_bytes());
        let b1 = Self::bare(PublicKey(a1), ry, vec![], p.clone());
        let b2 = Self::bare(PublicKey(a2), rx, vec![], p.clone());
        self.differ(&b1, &b2, "round-author-swap");
        // rotation of the 40 bytes author ‖ le64(round)
        let mut all = a1.to_vec();
        all.extend_from_slice(&ry.to_le_bytes());
        all.rotate_left(8);
        let mut a3 = [0u8; 32];
        a3.copy_from_slice(&all[..32]);
        let mut r3 = [0u8; 8];
        r3.copy_from_slice(&all[32..]);
        let b3 = Self::bare(PublicKey(a3), u64::from_le_bytes(r3), vec![], p);
        self.differ(&b1, &b3, "round-author-swap");
        // votes and timeouts
        let h = self.rd();
        self.sep_vote(&h, rx);
        self.sep_timeout(rx, ry);
    }

    fn sep_vote(&mut self, hash: &Digest, round: u64) {
        let d0 = QC { hash: hash.clone(), round, votes: vec![] }.digest();
        self.reg(1, vote_fields(hash, round), &d0, "vote");
        let mut h2 = hash.clone();
        let bit = self.rng.gen_range(0, 256);
        h2.0[bit / 8] ^= 1 << (bit % 8);
        let variants = [(h2, round), (hash.clone(), round.wrapping_add(1)), (hash.clone(), round.wrapping_sub(1)), (hash.clone(), round.swap_bytes())];
        for (h, r) in variants.iter() {
            self.rep.evaluations += 1;
            self.rep.hit("separation:vote");
            let v = Vote { hash: h.clone(), round: *r, author: self.kp[0].0, signature: Signature::default() };
            let d = v.digest();
            self.reg(1, vote_fields(h, *r), &d, "vote");
            if (h, *r) != (hash, round) && d == d0 {
                let rp = self.seeded("vote");
                self.ivp("C20:digest-collision:vote", format!("votes ({}, {}) and ({}, {}) share digest {}", hex(&hash.0), round, hex(&h.0), r, hex(&d.0)), rp);
            }
        }
    }

    fn sep_timeout(&mut self, round: u64, hq: u64) {
        let mk = |r: u64, q: u64| Timeout {
            high_qc: QC { hash: Digest::default(), round: q, votes: vec![] },
            round: r,
            author: PublicKey::default(),
            signature: Signature::default(),
        };
        let d0 = mk(round, hq).digest();
        self.reg(2, timeout_fields(round, hq), &d0, "timeout");
        self.rep.evaluations += 1;
        if timeout_digest(round, hq) != d0 {
            let rp = self.seeded("timeout");
            self.ivp("C20:digest-collision:timeout-vs-tc-entry", format!("Timeout::digest and the TC entry digest differ for ({}, {})", round, hq), rp);
        }
        let variants = [(round.wrapping_add(1), hq), (round, hq.wrapping_add(1)), (round.wrapping_sub(1), hq), (hq, round), (round.swap_bytes(), hq), (round, hq.swap_bytes())];
        for (r, q) in variants.iter() {
            self.rep.evaluations += 1;
            self.rep.hit("separation:timeout");
            let d = mk(*r, *q).digest();
            self.reg(2, timeout_fields(*r, *q), &d, "timeout");
            if (*r, *q) != (round, hq) && d == d0 {
                let rp = self.seeded("timeout");
                self.ivp("C20:digest-collision:timeout", format!("timeouts ({}, {}) and ({}, {}) share digest {}", round, hq, r, q, hex(&d.0)), rp);
            }
        }
    }

    fn check_mmsg(&mut self, kind: &str, m: &MempoolMessage, big: bool) {
        self.idx += 1;
        self.rep.hit(kind);
        let bytes = match bincode::serialize(m) {
            Ok(b) => b,
            Err(e) => {
                let r = self.seeded(kind);
                self.ivp("C20:roundtrip-bytes", format!("{}: serialize failed: {}", kind, e), r);
                return;
            }
        };
        let (ty, nontrivial) = match m {
            MempoolMessage::Batch(txs) => ("batch", !txs.is_empty()),
            MempoolMessage::BatchRequest(ds, _) => ("batchreq", !ds.is_empty()),
        };
        self.note_input("mmsg", &bytes, nontrivial);
        self.cmp_bytes(format!("(enc-mmsg {})", sx_mmsg(m)), &bytes, &format!("C20:serialize:{}", ty), kind);
        if let MempoolMessage::Batch(txs) = m {
            // digest as mempool/src/processor.rs: SHA-512(serialized Batch message)[..32]
            let d = Digest(sha32(&bytes));
            self.cmp_pre(format!("(pre-batch {})", sx_txs(txs)), &d, "C20:preimage:batch", kind);
        }
        self.rep.evaluations += 2;
        let real = real_decode("mmsg", &bytes);
        match &real {
            ROut::Ok(re, _) if *re == bytes => {}
            ROut::Ok(re, _) => {
                let r = self.seeded(kind);
                let k = if sha32(re) != sha32(&bytes) { "C20:roundtrip-digest" } else { "C20:roundtrip-bytes" };
                self.ivp(k, format!("{}: re-serialisation differs: {} vs {}", kind, short(&hex(re)), short(&hex(&bytes))), r);
            }
            other => {
                let r = self.seeded(kind);
                self.ivp("C20:roundtrip-bytes", format!("{}: valid encoding gives {}", kind, other.text()), r);
            }
        }
        let ans = parse_res(&self.model.ask(&format!("(dec-mmsg {})", hx(&bytes))));
        if !outcomes_agree("mmsg", &real, &ans) {
            let r = self.seeded(kind);
            self.ivm(&format!("C20:decode:{}", ty), format!("{}: model {} real {}", kind, short(&format!("{:?}", ans)), real.text()), r);
        }
        if !big {
            let n = self.rng.gen_range(1, 17);
            let mut ext = bytes.clone();
            let tail = self.rbytes(n);
            ext.extend_from_slice(&tail);
            self.rep.evaluations += 2;
            let real = real_decode("mmsg", &ext);
            if !matches!(&real, ROut::Ok(re, _) if *re == bytes) {
                let r = self.seeded(kind);
                self.ivp("C20:roundtrip-bytes", format!("{}: with {} trailing bytes the real decoder gives {}", kind, n, real.text()), r);
            }
            let ans = parse_res(&self.model.ask(&format!("(dec-mmsg {})", hx(&ext))));
            if !outcomes_agree("mmsg", &real, &ans) {
                let r = self.seeded(kind);
                self.ivm(&format!("C20:decode:{}", ty), format!("{}: trailing bytes: model {} real {}", kind, short(&format!("{:?}", ans)), real.text()), r);
            }
        }
    }
}

impl<'a> Eng<'a> {
    /// A random block; returns (block, honest, label).
    fn gen_block(&mut self, qc_style: u32, tc_style: Option<u32>, npayload: usize, junk: usize) -> (Block, bool, String) {
        let (qc, hq, lq) = self.gen_qc(qc_style, junk);
        let (tc, ht, lt) = match tc_style {
            None => (None, true, "notc"),
            Some(s) => {
                let (t, h, l) = self.gen_tc(s, junk);
                (Some(t), h, l)
            }
        };
        let author = self.rng.gen_range(0, 4);
        let round = self.rround();
        let payload = self.payload(npayload);
        let b = self.mk_block(qc, tc, author, round, payload);
        self.rep.hit(&format!("style:{}", lq));
        self.rep.hit(&format!("style:{}", lt));
        let label = format!("valid:propose{}", if tc_style.is_some() { "+tc" } else { "" });
        (b, hq && ht, label)
    }

    fn section_a(&mut self, light: bool) {
        let thorough = self.o.thorough();
        // ---- boundary / structured part
        // genesis block (default everything): not honest (author is not in the committee)
        self.check_cmsg("valid:propose:genesis-block", &ConsensusMessage::Propose(Block::genesis()), false, false);
        // every boundary round, honest block on the genesis QC, payload sizes cycling
        let sizes = [0usize, 1, 2, 3, 10, 33, 100, 0, 1, 2, 5, 64];
        for (i, r) in BR.iter().enumerate() {
            let n = if light { sizes[i].min(10) } else { sizes[i] };
            let p = self.payload(n);
            let b = self.mk_block(QC::genesis(), None, i % 4, *r, p);
            self.check_cmsg("valid:propose:qc-genesis:notc", &ConsensusMessage::Propose(b), true, false);
            let vh = if i % 3 == 0 { Digest::default() } else { self.rd() };
            let v = self.mk_vote(vh, *r, i % 4);
            self.check_cmsg("valid:vote", &ConsensusMessage::Vote(v), true, false);
            let t = self.mk_timeout(QC::genesis(), *r, i % 4);
            self.check_cmsg("valid:timeout:qc-genesis", &ConsensusMessage::Timeout(t), true, false);
            // quorum QC at a boundary round, TC with boundary high-qc rounds
            let s = self.signers(3);
            let h = self.rd();
            let q = self.mk_qc(h, *r, &s, 0);
            let t = self.mk_timeout(q.clone(), BR[(i + 5) % BR.len()], (i + 1) % 4);
            self.check_cmsg("valid:timeout:qc-q3", &ConsensusMessage::Timeout(t), true, false);
            let e: Vec<(usize, u64)> = self.signers(3 + i % 2).iter().enumerate().map(|(j, k)| (*k, BR[(i + j) % BR.len()])).collect();
            let tc = self.mk_tc(*r, &e, 0);
            self.check_cmsg("valid:tc:quorum", &ConsensusMessage::TC(tc.clone()), true, false);
            let p = self.payload(i % 4);
            let b = self.mk_block(q, Some(tc), (i + 2) % 4, r.wrapping_add(1), p);
            self.check_cmsg("valid:propose+tc:qc-q3:tc-quorum", &ConsensusMessage::Propose(b), true, false);
        }
        // QC / TC styles
        for style in 0..8u32 {
            let (b, honest, label) = self.gen_block(style, None, (style as usize) % 3, 2);
            self.check_cmsg(&label, &ConsensusMessage::Propose(b), honest, false);
            let (q, hq, lq) = self.gen_qc(style, 3);
            let r = self.rround();
            let t = self.mk_timeout(q, r, style as usize % 4);
            self.check_cmsg(&format!("valid:timeout:{}", lq), &ConsensusMessage::Timeout(t), hq, false);
        }
        for style in 0..5u32 {
            let (b, honest, label) = self.gen_block(1, Some(style), 1, 2);
            self.check_cmsg(&label, &ConsensusMessage::Propose(b), honest, false);
            let (t, ht, lt) = self.gen_tc(style, 3);
            self.check_cmsg(&format!("valid:tc:{}", lt), &ConsensusMessage::TC(t), ht, false);
        }
        // unknown / default author, bad signature
        {
            let mut b = self.mk_block(QC::genesis(), None, 0, 3, vec![]);
            b.author = PublicKey::default();
            self.check_cmsg("valid:propose:default-author", &ConsensusMessage::Propose(b), false, false);
            let mut b = self.mk_block(QC::genesis(), None, 0, 3, vec![]);
            b.signature = self.rsig();
            self.check_cmsg("valid:propose:random-signature", &ConsensusMessage::Propose(b), false, false);
            let mut v = self.mk_vote(Digest::default(), 0, 1);
            v.author = self.rpk();
            self.check_cmsg("valid:vote:unknown-author", &ConsensusMessage::Vote(v), false, false);
        }
        // sync requests
        let me = self.kp[0].0;
        self.check_cmsg("valid:sync", &ConsensusMessage::SyncRequest(Digest::default(), PublicKey::default()), true, false);
        self.check_cmsg("valid:sync", &ConsensusMessage::SyncRequest(Digest([0xff; 32]), PublicKey([0xff; 32])), true, false);
        for _ in 0..4 {
            let (d, k) = (self.rd(), if self.rng.gen() { me } else { self.rpk() });
            self.check_cmsg("valid:sync", &ConsensusMessage::SyncRequest(d, k), true, false);
        }
        // many votes / entries
        let many = if light { 40 } else { 200 };
        {
            let s = self.signers(4);
            let (h, r) = (self.rd(), self.rround());
            let q = self.mk_qc(h, r, &s, many - 4);
            let t = self.mk_timeout(q.clone(), 9, 0);
            self.check_cmsg("valid:timeout:qc-many-votes", &ConsensusMessage::Timeout(t), false, false);
            if !light {
                let p = self.payload(4);
                let b = self.mk_block(q, None, 1, 10, p);
                self.check_cmsg("valid:propose:qc-many-votes", &ConsensusMessage::Propose(b), false, false);
            }
            let e: Vec<(usize, u64)> = self.signers(4).iter().map(|k| (*k, 1u64)).collect();
            let tc = self.mk_tc(77, &e, many - 4);
            self.check_cmsg("valid:tc:many-entries", &ConsensusMessage::TC(tc.clone()), false, false);
            if !light {
                let b = self.mk_block(QC::genesis(), Some(tc), 2, 78, vec![]);
                self.check_cmsg("valid:propose+tc:tc-many-entries", &ConsensusMessage::Propose(b), false, false);
            }
        }
        // large payloads (the model driver's limit is ~60 KB per message)
        let bigs: Vec<usize> = if light { vec![300] } else if thorough { vec![400, 700, 1000, 1200, 1500, 1500, 1500] } else { vec![400, 1000, 1500] };
        for n in bigs {
            let p = self.payload(n);
            let s = self.signers(3);
            let (h, r) = (self.rd(), self.rround());
            let q = self.mk_qc(h, r, &s, 0);
            let b = self.mk_block(q, None, 3, r.wrapping_add(1), p);
            self.check_cmsg("valid:propose:large-payload", &ConsensusMessage::Propose(b), true, n > 400);
        }

        // ---- mempool messages
        let key = self.kp[1].0;
        let batches: Vec<(&str, Vec<Vec<u8>>)> = vec![
            ("valid:batch:no-txs", vec![]),
            ("valid:batch:empty-tx", vec![vec![]]),
            ("valid:batch:empty-txs", vec![vec![], vec![], vec![]]),
            ("valid:batch:one-byte-tx", vec![vec![0]]),
            ("valid:batch:mixed", vec![vec![], self.rbytes(1), self.rbytes(9), vec![], self.rbytes(512)]),
            ("valid:batch:typical", (0..10).map(|_| self.rbytes(512)).collect()),
            ("valid:batch:many-small", (0..(if light { 100 } else { 500 })).map(|i| self.rbytes(8 + i % 13)).collect()),
            ("valid:batch:large-tx", vec![self.rbytes(if light { 4000 } else { 10_000 })]),
        ];
        for (k, txs) in batches {
            self.check_mmsg(k, &MempoolMessage::Batch(txs), false);
        }
        for n in [0usize, 1, 2, 3, 100] {
            let ds = self.payload(if light { n.min(30) } else { n });
            let k = if n % 2 == 0 { key } else { self.rpk() };
            self.check_mmsg("valid:batchreq", &MempoolMessage::BatchRequest(ds, k), false);
        }
        if !light {
            let txs = vec![self.rbytes(if thorough { 58_000 } else { 40_000 })];
            self.check_mmsg("valid:batch:huge-tx", &MempoolMessage::Batch(txs), true);
            let ds = self.payload(1500);
            self.check_mmsg("valid:batchreq:large", &MempoolMessage::BatchRequest(ds, key), true);
        }

        // ---- random part
        let n_rand = if light { 250 } else if thorough { 30000 } else { 900 };
        for it in 0..n_rand {
            if it % 4 == 0 {
                self.sep_pairs();
            }
            let junk = match self.rng.gen_range(0, 8) {
                0 => self.rng.gen_range(5, 40),
                _ => self.rng.gen_range(0, 4),
            };
            let npay = match self.rng.gen_range(0, 10) {
                0 | 1 => 0,
                2 | 3 => 1,
                4 => 2,
                5 | 6 => self.rng.gen_range(3, 12),
                7 | 8 => self.rng.gen_range(12, 60),
                _ => self.rng.gen_range(60, 260),
            };
            match self.rng.gen_range(0, 12) {
                0..=3 => {
                    let qs = self.rng.gen_range(0, 8);
                    let ts = if self.rng.gen_range(0, 3) == 0 { Some(self.rng.gen_range(0, 5)) } else { None };
                    let (b, honest, label) = self.gen_block(qs, ts, npay, junk);
                    self.check_cmsg(&label, &ConsensusMessage::Propose(b), honest, false);
                }
                4 => {
                    let (h, r, a) = (self.rd(), self.rround(), self.rng.gen_range(0, 4));
                    let v = self.mk_vote(h, r, a);
                    self.check_cmsg("valid:vote", &ConsensusMessage::Vote(v), true, false);
                }
                5 | 6 => {
                    let qs = self.rng.gen_range(0, 8);
                    let (q, hq, lq) = self.gen_qc(qs, junk);
                    let (r, a) = (self.rround(), self.rng.gen_range(0, 4));
                    let t = self.mk_timeout(q, r, a);
                    self.check_cmsg(&format!("valid:timeout:{}", lq), &ConsensusMessage::Timeout(t), hq, false);
                }
                7 | 8 => {
                    let ts = self.rng.gen_range(0, 5);
                    let (t, ht, lt) = self.gen_tc(ts, junk);
                    self.check_cmsg(&format!("valid:tc:{}", lt), &ConsensusMessage::TC(t), ht, false);
                }
                9 => {
                    let (d, k) = (self.rd(), self.rpk());
                    self.check_cmsg("valid:sync", &ConsensusMessage::SyncRequest(d, k), true, false);
                }
                10 => {
                    let n = self.rng.gen_range(0, 12);
                    let txs: Vec<Vec<u8>> = (0..n)
                        .map(|_| {
                            let l = match self.rng.gen_range(0, 6) {
                                0 => 0,
                                1 => self.rng.gen_range(1, 4),
                                5 => self.rng.gen_range(300, 1200),
                                _ => self.rng.gen_range(4, 100),
                            };
                            self.rbytes(l)
                        })
                        .collect();
                    self.check_mmsg("valid:batch:random", &MempoolMessage::Batch(txs), false);
                }
                _ => {
                    let ds = self.payload(npay);
                    let k = self.rpk();
                    self.check_mmsg("valid:batchreq", &MempoolMessage::BatchRequest(ds, k), false);
                }
            }
        }
    }
}

// ------------------------------------------------------------------------------------------------
// Section B: malformed stream
// ------------------------------------------------------------------------------------------------

#[derive(Default, Clone)]
struct Layout {
    /// offsets of the u64 length prefix of every key string
    keys: Vec<usize>,
    /// offsets of the u64 length prefix of every Vec
    vecs: Vec<usize>,
    /// offset of the Option tag of block.tc
    opt: Option<usize>,
    end: usize,
}

fn lay_qc(off: &mut usize, q: &QC, l: &mut Layout) {
    *off += 40;
    l.vecs.push(*off);
    *off += 8;
    for _ in &q.votes {
        l.keys.push(*off);
        *off += 8 + 44 + 64;
    }
}

fn lay_tc(off: &mut usize, t: &TC, l: &mut Layout) {
    *off += 8;
    l.vecs.push(*off);
    *off += 8;
    for _ in &t.votes {
        l.keys.push(*off);
        *off += 8 + 44 + 64 + 8;
    }
}

fn lay_block(off: &mut usize, b: &Block, l: &mut Layout) {
    lay_qc(off, &b.qc, l);
    l.opt = Some(*off);
    *off += 1;
    if let Some(t) = &b.tc {
        lay_tc(off, t, l);
    }
    l.keys.push(*off);
    *off += 52 + 8;
    l.vecs.push(*off);
    *off += 8 + 32 * b.payload.len() + 64;
}

fn lay_cmsg(m: &ConsensusMessage) -> Layout {
    let mut l = Layout::default();
    let mut off = 4usize;
    match m {
        ConsensusMessage::Propose(b) => lay_block(&mut off, b, &mut l),
        ConsensusMessage::Vote(_) => {
            off += 40;
            l.keys.push(off);
            off += 52 + 64;
        }
        ConsensusMessage::Timeout(t) => {
            lay_qc(&mut off, &t.high_qc, &mut l);
            off += 8;
            l.keys.push(off);
            off += 52 + 64;
        }
        ConsensusMessage::TC(t) => lay_tc(&mut off, t, &mut l),
        ConsensusMessage::SyncRequest(..) => {
            off += 32;
            l.keys.push(off);
            off += 52;
        }
    }
    l.end = off;
    l
}

fn lay_mmsg(m: &MempoolMessage) -> Layout {
    let mut l = Layout::default();
    let mut off = 4usize;
    l.vecs.push(off);
    off += 8;
    match m {
        MempoolMessage::Batch(txs) => {
            for t in txs {
                l.vecs.push(off);
                off += 8 + t.len();
            }
        }
        MempoolMessage::BatchRequest(ds, _) => {
            off += 32 * ds.len();
            l.keys.push(off);
            off += 52;
        }
    }
    l.end = off;
    l
}

struct Corp {
    target: &'static str,
    label: String,
    bytes: Vec<u8>,
    lay: Layout,
}

fn splice(bytes: &[u8], at: usize, remove: usize, insert: &[u8]) -> Vec<u8> {
    let mut v = bytes[..at.min(bytes.len())].to_vec();
    v.extend_from_slice(insert);
    if at + remove <= bytes.len() {
        v.extend_from_slice(&bytes[at + remove..]);
    }
    v
}

fn set_u64(bytes: &[u8], at: usize, v: u64) -> Vec<u8> {
    let mut b = bytes.to_vec();
    if at + 8 <= b.len() {
        b[at..at + 8].copy_from_slice(&v.to_le_bytes());
    }
    b
}

/// Evenly spread selection of at most `n` items.
fn pick<T: Clone>(v: &[T], n: usize) -> Vec<T> {
    if v.len() <= n || n == 0 {
        return v.to_vec();
    }
    (0..n).map(|i| v[i * (v.len() - 1) / (n - 1).max(1)].clone()).collect()
}

impl<'a> Eng<'a> {
    /// One malformed (or not) input against one real decoder and the model.
    fn check_decode(&mut self, target: &str, gen: &str, input: &[u8]) {
        let real = real_decode(target, input);
        if let ROut::Skip = real {
            self.rep.hit(&format!("malformed:{}:skipped-non-utf8", target));
            return;
        }
        self.idx += 1;
        self.rep.evaluations += 1;
        self.rep.hit(&format!("gen:{}", gen));
        self.rep.hit(&format!("malformed:{}:{}", target, real.class()));
        self.note_input(target, input, input.len() >= 4);
        let replay = json!({"engine": "codec", "case": "decode", "target": target, "hex": hex(input)});
        let line = format!("({} {})", model_dec_cmd(target), hx(input));
        let raw = self.model.ask(&line);
        let ans = parse_res(&raw);
        if !outcomes_agree(target, &real, &ans) {
            self.ivm(&format!("C15:decode:{}", target), format!("{} input {}: model {} real {}", gen, short(&hx(input)), short(&raw), real.text()), replay.clone());
        }
        if let ROut::Panic(loc) = &real {
            let kind = panic_kind(loc);
            self.rep.hit(&format!("panic:{}", kind.trim_start_matches("C15:panic:")));
            self.ivp_once(&kind, format!("real decoder `{}` panicked at {} on input {} (generator {})", target, loc, short(&hx(input)), gen), replay);
        }
        if self.idx % 499 == 0 {
            self.rep.sample(json!({"section": "B", "target": target, "gen": gen, "input": short(&hex(input)), "real": real.class(), "model": short(&raw)}));
        }
    }

    /// Replacement texts for a key string (`n` = 32 or 64 key bytes).
    fn key_texts(&mut self, n: usize) -> Vec<(String, Vec<u8>)> {
        let mut v: Vec<(String, Vec<u8>)> = Vec::new();
        let good = self.rbytes(n);
        let good64 = base64::encode(&good);
        let full = good64.len();
        v.push(("key-text:non-base64".into(), vec![b'!'; full]));
        v.push(("key-text:non-base64".into(), b"hello world, this is not base64 at all!!".to_vec()));
        v.push(("key-text:non-utf8".into(), vec![0xff; full]));
        v.push(("key-text:non-utf8".into(), vec![0x80]));
        let mut nu = good64.clone().into_bytes();
        nu[5] = 0xc3; // lone lead byte
        v.push(("key-text:non-utf8".into(), nu));
        let mut u2 = good64.clone().into_bytes();
        u2[4] = 0xc3;
        u2[5] = 0xa9; // "é": valid UTF-8, not base64
        v.push(("key-text:utf8-non-ascii".into(), u2));
        for l in [0usize, 1, 2, 3, 31, n - 1, n / 2] {
            let b = self.rbytes(l);
            v.push((format!("key-text:short-{}", l), base64::encode(&b).into_bytes()));
        }
        for l in [n + 1, n + 2, n + 3, 2 * n, 100] {
            let b = self.rbytes(l);
            v.push((format!("key-text:long-{}", l), base64::encode(&b).into_bytes()));
        }
        for s in ["AA", "AA=", "AA==", "AAA=", "A===", "=AAA", "AA=A", "A", "AAA", "AAAA", "====", "AB==", "AAB="] {
            v.push(("key-text:padding-form".into(), s.as_bytes().to_vec()));
        }
        v.push(("key-text:unpadded".into(), good64.trim_end_matches('=').as_bytes().to_vec()));
        v.push(("key-text:extra-pad".into(), format!("{}=", good64).into_bytes()));
        v.push(("key-text:trailing-space".into(), format!("{} ", good64).into_bytes()));
        v.push(("key-text:newline".into(), format!("{}\n", good64).into_bytes()));
        v.push(("key-text:leading-space".into(), format!(" {}", good64).into_bytes()));
        v.push(("key-text:urlsafe".into(), good64.replace('+', "-").replace('/', "_").replacen('A', "-", 1).into_bytes()));
        // non-zero trailing bits in the last symbol
        let mut tb = good64.clone().into_bytes();
        if let Some(p) = tb.iter().rposition(|c| *c != b'=') {
            tb[p] = if tb[p] == b'B' { b'C' } else { b'B' };
        }
        v.push(("key-text:trailing-bits".into(), tb));
        let mut one = good64.clone().into_bytes();
        let p = self.rng.gen_range(0, one.len());
        one[p] = b"*=. -_"[self.rng.gen_range(0, 6)];
        v.push(("key-text:one-char".into(), one));
        v.push(("key-text:valid".into(), good64.into_bytes()));
        v
    }

    fn corpus(&mut self) -> Vec<Corp> {
        let mut out: Vec<Corp> = Vec::new();
        let mut cm: Vec<(String, ConsensusMessage)> = Vec::new();
        let (h, r) = (self.rd(), self.rround());
        cm.push(("vote".into(), ConsensusMessage::Vote(self.mk_vote(h, r, 0))));
        let h = self.rd();
        cm.push(("sync".into(), ConsensusMessage::SyncRequest(h, self.kp[1].0)));
        cm.push(("timeout-genesis".into(), ConsensusMessage::Timeout(self.mk_timeout(QC::genesis(), 5, 2))));
        let s = self.signers(3);
        let h = self.rd();
        let q3 = self.mk_qc(h, 4, &s, 0);
        cm.push(("timeout-q3".into(), ConsensusMessage::Timeout(self.mk_timeout(q3.clone(), 5, 3))));
        let e: Vec<(usize, u64)> = self.signers(3).iter().map(|k| (*k, 3u64)).collect();
        let tc3 = self.mk_tc(6, &e, 0);
        cm.push(("tc-3".into(), ConsensusMessage::TC(tc3.clone())));
        cm.push(("tc-0".into(), ConsensusMessage::TC(TC { round: 9, votes: vec![] })));
        let b0 = self.mk_block(QC::genesis(), None, 0, 1, vec![]);
        let p = self.payload(2);
        let b1 = self.mk_block(q3.clone(), Some(tc3), 1, 7, p);
        let p = self.payload(3);
        let b2 = self.mk_block(QC::genesis(), None, 2, 2, p);
        let (b3, _, _) = {
            let (qs, np) = (self.rng.gen_range(0, 8), self.rng.gen_range(0, 6));
            let ts = if self.rng.gen() { Some(self.rng.gen_range(0, 5)) } else { None };
            self.gen_block(qs, ts, np, 2)
        };
        for (l, b) in [("block-min", &b0), ("block-qc-tc", &b1), ("block-payload", &b2), ("block-random", &b3)] {
            let bytes = bincode::serialize(b).unwrap_or_default();
            let mut lay = Layout::default();
            let mut off = 0usize;
            lay_block(&mut off, b, &mut lay);
            lay.end = off;
            out.push(Corp { target: "block", label: l.to_string(), bytes, lay });
            cm.push((format!("propose-{}", l), ConsensusMessage::Propose(b.clone())));
        }
        for (l, m) in cm {
            let bytes = bincode::serialize(&m).unwrap_or_default();
            out.push(Corp { target: "cmsg", label: l, bytes, lay: lay_cmsg(&m) });
        }
        let mm: Vec<(&str, MempoolMessage)> = vec![
            ("batch-0", MempoolMessage::Batch(vec![])),
            ("batch-3", MempoolMessage::Batch(vec![vec![], vec![1, 2, 3], self.rbytes(40)])),
            ("batchreq-0", MempoolMessage::BatchRequest(vec![], self.kp[0].0)),
            ("batchreq-2", MempoolMessage::BatchRequest(self.payload(2), self.kp[3].0)),
        ];
        for (l, m) in mm {
            let bytes = bincode::serialize(&m).unwrap_or_default();
            out.push(Corp { target: "mmsg", label: l.to_string(), bytes, lay: lay_mmsg(&m) });
        }
        out
    }

    fn section_b(&mut self) {
        let thorough = self.o.thorough();
        let corpus = self.corpus();
        let every_max = if thorough { 1400 } else { 600 };
        let (n_trunc, n_flip, n_over, n_keys) = if thorough { (400, 4000, 1500, 6) } else { (100, 250, 100, 3) };
        for c in corpus.iter() {
            let t = c.target;
            let bytes = &c.bytes;
            let len = bytes.len();
            if c.lay.end != len {
                self.rep.hit("layout-mismatch");
                continue;
            }
            self.rep.hit(&format!("corpus:{}:{}", t, c.label));
            self.check_decode(t, "valid", bytes);
            // (a) truncation
            if len <= every_max {
                for k in 0..len {
                    self.check_decode(t, "truncate-every", &bytes[..k]);
                }
            } else {
                let mut cuts: BTreeSet<usize> = BTreeSet::new();
                for o in c.lay.keys.iter().chain(c.lay.vecs.iter()).chain(c.lay.opt.iter()) {
                    for d in [0usize, 1, 7, 8, 9, 51, 52] {
                        if o + d < len {
                            cuts.insert(o + d);
                        }
                    }
                    if *o > 0 {
                        cuts.insert(o - 1);
                    }
                }
                cuts.insert(len - 1);
                cuts.insert(len - 64);
                let cuts: Vec<usize> = cuts.into_iter().collect();
                for k in pick(&cuts, if thorough { 400 } else { 60 }) {
                    self.check_decode(t, "truncate-boundary", &bytes[..k]);
                }
                for _ in 0..n_trunc {
                    let k = self.rng.gen_range(0, len);
                    self.check_decode(t, "truncate-random", &bytes[..k]);
                }
            }
            // (b) bit flips, (c) byte overwrites
            for _ in 0..n_flip {
                let mut b = bytes.clone();
                if len == 0 {
                    break;
                }
                let bit = self.rng.gen_range(0, len * 8);
                b[bit / 8] ^= 1 << (bit % 8);
                self.check_decode(t, "bitflip", &b);
            }
            // bit flips inside the length prefixes, tags and key strings (where decoding decisions are made)
            let mut hot: Vec<usize> = Vec::new();
            for o in c.lay.vecs.iter() {
                hot.extend(*o..*o + 8);
            }
            for o in pick(&c.lay.keys, n_keys) {
                hot.extend(o..o + 52);
            }
            hot.extend(c.lay.opt.iter());
            if t != "block" {
                hot.extend(0..4);
            }
            for _ in 0..n_flip {
                if hot.is_empty() {
                    break;
                }
                let mut b = bytes.clone();
                let p = hot[self.rng.gen_range(0, hot.len())];
                b[p] ^= 1 << self.rng.gen_range(0, 8);
                self.check_decode(t, "bitflip-hot", &b);
            }
            for i in 0..n_over {
                if len == 0 || hot.is_empty() {
                    break;
                }
                let mut b = bytes.clone();
                let p = if i % 2 == 0 { self.rng.gen_range(0, len) } else { hot[self.rng.gen_range(0, hot.len())] };
                b[p] = match i % 5 {
                    0 => 0,
                    1 => 0xff,
                    2 => 0x80,
                    3 => b'=',
                    _ => self.rng.gen(),
                };
                self.check_decode(t, "byte-overwrite", &b);
            }
            // (d) Option tag of block.tc
            if let Some(o) = c.lay.opt {
                let tags: Vec<u8> = if thorough { (0..=255u8).collect() } else { vec![0, 1, 2, 3, 127, 128, 254, 255] };
                for tag in tags {
                    let mut b = bytes.clone();
                    b[o] = tag;
                    self.check_decode(t, "option-tag", &b);
                }
            }
            // (e) enum variant index
            if t != "block" {
                for v in [0u32, 1, 2, 3, 4, 5, 6, 255, 256, 1 << 16, 1 << 31, u32::MAX] {
                    let b = splice(bytes, 0, 4, &v.to_le_bytes());
                    self.check_decode(t, "variant-index", &b);
                }
            }
            // (f) key string length prefix, (g) key string replaced
            for o in pick(&c.lay.keys, n_keys) {
                for v in [0u64, 1, 2, 3, 4, 43, 45, 48, 52, 1 << 32, 1 << 63, u64::MAX] {
                    self.check_decode(t, "key-length-prefix", &set_u64(bytes, o, v));
                }
                for (label, text) in self.key_texts(32) {
                    let mut ins = (text.len() as u64).to_le_bytes().to_vec();
                    ins.extend_from_slice(&text);
                    self.check_decode(t, &label, &splice(bytes, o, 52, &ins));
                }
            }
            // (h) Vec length prefixes
            for o in pick(&c.lay.vecs, if thorough { 8 } else { 3 }) {
                let mut cur = [0u8; 8];
                cur.copy_from_slice(&bytes[o..o + 8]);
                let cur = u64::from_le_bytes(cur);
                for v in [0u64, cur.wrapping_sub(1), cur + 1, cur + 2, 255, 4096, 4097, 1 << 32, 1 << 63, u64::MAX] {
                    self.check_decode(t, "vec-length-prefix", &set_u64(bytes, o, v));
                }
            }
        }
        // (i) generic inputs for the three bincode targets
        let n_rand = if thorough { 30000 } else { 1500 };
        for t in ["cmsg", "mmsg", "block"] {
            self.check_decode(t, "empty", &[]);
            for b in [0u8, 1, 2, 3, 4, 5, 255] {
                self.check_decode(t, "tiny", &[b]);
                self.check_decode(t, "tiny", &[b, 0]);
                self.check_decode(t, "tiny", &[b, 0, 0]);
                self.check_decode(t, "tiny", &[b, 0, 0, 0]);
                self.check_decode(t, "tiny", &[b, 0, 0, 0, 0]);
            }
            for i in 0..n_rand {
                let l = match i % 4 {
                    0 => self.rng.gen_range(0, 16),
                    1 => self.rng.gen_range(16, 120),
                    _ => self.rng.gen_range(100, 400),
                };
                let mut b = self.rbytes(l);
                if i % 2 == 1 && l >= 4 && t != "block" {
                    let v: u32 = self.rng.gen_range(0, if t == "cmsg" { 5 } else { 2 });
                    b[..4].copy_from_slice(&v.to_le_bytes());
                }
                if i % 8 == 3 {
                    // mostly zero bytes: short vectors, `None`, empty strings
                    for x in b.iter_mut() {
                        if self.rng.gen_range(0, 4) != 0 {
                            *x = 0;
                        }
                    }
                }
                self.check_decode(t, "random-bytes", &b);
            }
        }
        // key decoders
        for (t, n) in [("pk", 32usize), ("sk", 64usize)] {
            for round in 0..(if thorough { 40 } else { 4 }) {
                for (label, text) in self.key_texts(n) {
                    self.check_decode(t, &label, &text);
                }
                let good = base64::encode(self.rbytes(n));
                if round == 0 {
                    for k in 0..=good.len() {
                        self.check_decode(t, "key-truncate-every", &good.as_bytes()[..k]);
                    }
                }
                for _ in 0..(if thorough { 300 } else { 60 }) {
                    let mut g = good.clone().into_bytes();
                    let p = self.rng.gen_range(0, g.len());
                    g[p] = ALPHA[self.rng.gen_range(0, ALPHA.len())];
                    self.check_decode(t, "key-one-char", &g);
                }
            }
            for _ in 0..(if thorough { 60000 } else { 4000 }) {
                let l = self.rng.gen_range(0, 101);
                let s = self.rtext(l);
                self.check_decode(t, "key-random-text", &s);
            }
        }
    }

    /// Random text, biased to the base64 alphabet with a few intruders; always valid UTF-8.
    fn rtext(&mut self, l: usize) -> Vec<u8> {
        let clean = self.rng.gen_range(0, 3) != 0;
        let mut s: Vec<u8> = Vec::with_capacity(l + 2);
        while s.len() < l {
            let c = if clean || self.rng.gen_range(0, 12) != 0 {
                B64[self.rng.gen_range(0, 64)]
            } else {
                ALPHA[self.rng.gen_range(0, ALPHA.len())]
            };
            s.push(c);
        }
        // padding in the tail, sometimes
        match self.rng.gen_range(0, 6) {
            0 if l >= 1 => s[l - 1] = b'=',
            1 if l >= 2 => {
                s[l - 1] = b'=';
                s[l - 2] = b'=';
            }
            2 if l >= 1 => {
                // make the trailing bits zero so that short clean strings decode
                s[l - 1] = b"AQgw"[self.rng.gen_range(0, 4)];
            }
            3 if l >= 3 => {
                s[l - 1] = b'=';
                s[l - 2] = b"AEIMQUYcgkosw048"[self.rng.gen_range(0, 16)];
            }
            _ => {}
        }
        if !clean && self.rng.gen_range(0, 10) == 0 {
            s.extend_from_slice("é".as_bytes());
        }
        s
    }
}

const B64: &[u8; 64] = b"ABCDEFGHIJKLMNOPQRSTUVWXYZabcdefghijklmnopqrstuvwxyz0123456789+/";
const ALPHA: &[u8] = b"AB/+=Qgw \n-_*.\0~";

// ------------------------------------------------------------------------------------------------
// Section C: signatures, key codecs, base64, JSON files (C18)
// ------------------------------------------------------------------------------------------------

impl<'a> Eng<'a> {
    fn c18(&mut self, kind: &str, detail: String, what: &str) {
        let r = self.seeded(what);
        self.ivp(kind, detail, r);
    }

    fn verify_case(&mut self, what: &str, d: &Digest, pk: &PublicKey, sig: &Signature, expect_ok: bool) {
        self.rep.evaluations += 1;
        let mut inp = d.0.to_vec();
        inp.extend_from_slice(&pk.0);
        inp.extend_from_slice(&sig_bytes(sig));
        self.note_input("verify", &inp, true);
        let r = guarded(|| sig.verify(d, pk).is_ok());
        match r {
            Ok(ok) if ok == expect_ok => self.rep.hit(if ok { "verify-case:accepted" } else { "verify-case:rejected" }),
            Ok(ok) => {
                let kind = if expect_ok { "C18:sign-verify".to_string() } else { format!("C18:bitflip-accepted:{}", what) };
                self.c18(&kind, format!("verify gives ok={} (expected {}) digest {} key {} sig {}", ok, expect_ok, hex(&d.0), hex(&pk.0), hex(&sig_bytes(sig))), what);
            }
            Err(loc) => self.c18("C18:panic", format!("Signature::verify panicked at {} digest {} key {} sig {}", loc, hex(&d.0), hex(&pk.0), hex(&sig_bytes(sig))), what),
        }
    }

    /// `verify_batch` accepts iff every member verifies individually (and `expect`, when given).
    fn batch_case(&mut self, what: &str, d: &Digest, votes: &[(PublicKey, Signature)], expect: Option<bool>) {
        self.rep.evaluations += 1;
        let mut inp = d.0.to_vec();
        for (k, s) in votes {
            inp.extend_from_slice(&k.0);
            inp.extend_from_slice(&sig_bytes(s));
        }
        self.note_input("batch", &inp, !votes.is_empty());
        let r = guarded(|| (Signature::verify_batch(d, votes).is_ok(), votes.iter().all(|(k, s)| s.verify(d, k).is_ok())));
        match r {
            Ok((batch, each)) => {
                self.rep.hit(if batch { "batch:accepted" } else { "batch:rejected" });
                if batch != each || expect.map_or(false, |e| e != batch) {
                    let vs: Vec<String> = votes.iter().map(|(k, s)| format!("({} {})", hex(&k.0), hex(&sig_bytes(s)))).collect();
                    self.c18(
                        "C18:batch-mismatch",
                        format!("{}: verify_batch ok={} all-individually-ok={} expected {:?}; digest {} votes {}", what, batch, each, expect, hex(&d.0), short(&vs.join(" "))),
                        what,
                    );
                }
            }
            Err(loc) => self.c18("C18:panic", format!("{}: verify_batch panicked at {}", what, loc), what),
        }
    }

    fn b64dec_case(&mut self, gen: &str, input: &[u8]) {
        self.rep.evaluations += 1;
        self.note_input("b64dec", input, input.len() >= 4);
        let real = match guarded(|| base64::decode(input)) {
            Ok(Ok(b)) => format!("(ok {})", hx(&b)),
            Ok(Err(_)) => "(err)".to_string(),
            Err(loc) => format!("(panic {})", loc),
        };
        self.rep.hit(if real.starts_with("(ok") { "b64dec:ok" } else { "b64dec:err" });
        self.rep.hit(&format!("b64gen:{}", gen));
        let got = self.model.ask(&format!("(b64dec {})", hx(input)));
        if got.trim() != real {
            let r = json!({"engine": "codec", "case": "seeded", "prop": self.o.prop, "seed": self.o.seed, "tier": self.o.tier, "index": self.idx, "what": "b64dec", "input_hex": hex(input)});
            self.ivm("C18:base64-decode", format!("{} input {} ({:?}): model {} real {}", gen, hx(input), String::from_utf8_lossy(input), short(&got), short(&real)), r);
        }
    }

    fn b64enc_case(&mut self, input: &[u8]) {
        self.rep.evaluations += 1;
        self.note_input("b64enc", input, input.len() >= 4);
        self.rep.hit("b64enc");
        let real = base64::encode(input);
        match self.ask_hex(&format!("(b64enc {})", hx(input))) {
            Ok(b) if b == real.as_bytes() => {}
            other => {
                let r = self.seeded("b64enc");
                self.ivm("C18:base64-encode", format!("input {}: model {:?} real {}", hx(input), other.map(|b| String::from_utf8_lossy(&b).to_string()), real), r);
            }
        }
    }

    fn exhaustive(&mut self, alphabet: &[u8], len: usize, gen: &str) {
        let n = alphabet.len();
        let mut idx = vec![0usize; len];
        loop {
            let s: Vec<u8> = idx.iter().map(|i| alphabet[*i]).collect();
            self.b64dec_case(gen, &s);
            let mut p = 0;
            loop {
                if p == len {
                    return;
                }
                idx[p] += 1;
                if idx[p] < n {
                    break;
                }
                idx[p] = 0;
                p += 1;
            }
        }
    }

    fn section_c(&mut self) {
        let thorough = self.o.thorough();
        let k_keys = if thorough { 60 } else { 6 };
        let mut pool: Vec<(PublicKey, SecretKey)> = Vec::new();
        for k in 0..(k_keys.max(17) as u64) {
            let mut r = StdRng::seed_from_u64(self.o.seed ^ (0xc18_0000 + k));
            pool.push(crypto::generate_keypair(&mut r));
        }

        // ---- sign / verify / single bit flips
        for i in 0..k_keys {
            self.idx += 1;
            let d = self.rd();
            let (pk, sk) = (&pool[i].0, &pool[i].1);
            let sig = Signature::new(&d, sk);
            self.verify_case("honest", &d, pk, &sig, true);
            for bit in 0..256 {
                let mut d2 = d.clone();
                d2.0[bit / 8] ^= 1 << (bit % 8);
                self.verify_case("digest", &d2, pk, &sig, false);
                let mut k2 = *pk;
                k2.0[bit / 8] ^= 1 << (bit % 8);
                self.verify_case("key", &d, &k2, &sig, false);
            }
            let sb = sig_bytes(&sig);
            for bit in 0..512 {
                let mut s2 = sb.clone();
                s2[bit / 8] ^= 1 << (bit % 8);
                self.verify_case("sig", &d, pk, &sig_from(&s2), false);
            }
            // another key's signature, signature over another digest
            let other = &pool[(i + 1) % pool.len()];
            self.verify_case("sig", &d, &other.0, &sig, false);
            let d3 = self.rd();
            self.verify_case("digest", &d3, pk, &sig, false);
            self.verify_case("sig", &d, pk, &Signature::default(), false);

            // ---- key codecs
            self.rep.evaluations += 4;
            self.rep.hit("keycodec");
            let e = pk.encode_base64();
            match guarded(|| PublicKey::decode_base64(&e)) {
                Ok(Ok(k)) if k == *pk => {}
                other => self.c18("C18:key-roundtrip", format!("PublicKey {} → {} → {:?}", hex(&pk.0), e, other.map(|r| r.map(|k| hex(&k.0)))), "pk-roundtrip"),
            }
            let se = sk.encode_base64();
            match guarded(|| SecretKey::decode_base64(&se)) {
                Ok(Ok(s2)) => {
                    if s2.encode_base64() != se || sig_bytes(&Signature::new(&d, &s2)) != sb {
                        self.c18("C18:key-roundtrip", format!("SecretKey of {} re-encodes or signs differently after decode_base64", hex(&pk.0)), "sk-roundtrip");
                    }
                }
                other => self.c18("C18:key-roundtrip", format!("SecretKey of {}: decode_base64(encode_base64()) fails: {:?}", hex(&pk.0), other.map(|r| r.map(|_| ()))), "sk-roundtrip"),
            }
            match serde_json::to_string(pk) {
                Ok(j) if j == format!("\"{}\"", e) && serde_json::from_str::<PublicKey>(&j).ok() == Some(*pk) => {}
                other => self.c18("C18:json-roundtrip", format!("PublicKey {}: JSON {:?} is not the quoted base64 {} or does not read back", hex(&pk.0), other, e), "pk-json"),
            }
            match serde_json::to_string(sk) {
                Ok(j) if j == format!("\"{}\"", se) && serde_json::from_str::<SecretKey>(&j).map(|s| s.encode_base64()).ok() == Some(se.clone()) => {}
                _ => self.c18("C18:json-roundtrip", format!("SecretKey of {}: JSON is not the quoted base64 or does not read back", hex(&pk.0)), "sk-json"),
            }
            // model tie
            let skb = sk_bytes(sk);
            self.cmp_bytes(format!("(b64enc {})", hx(&pk.0)), e.as_bytes(), "C18:keycodec", "b64enc-pk");
            self.cmp_bytes(format!("(keyenc {})", hx(&pk.0)), e.as_bytes(), "C18:keycodec", "keyenc-pk");
            self.cmp_bytes(format!("(keyenc {})", hx(&skb)), se.as_bytes(), "C18:keycodec", "keyenc-sk");
            for (cmd, text, want) in [("keydec", &e, pk.0.to_vec()), ("skeydec", &se, skb.clone())] {
                self.rep.evaluations += 1;
                let raw = self.model.ask(&format!("({} {})", cmd, hx(text.as_bytes())));
                if parse_res(&raw) != MAns::Ok(vec![Some(want.clone())]) {
                    let r = self.seeded(cmd);
                    self.ivm("C18:keycodec", format!("({} {}): model {} real (ok {})", cmd, text, short(&raw), hx(&want)), r);
                }
            }
            if i == 0 {
                self.rep.sample(json!({"section": "C", "pk": e, "digest": hex(&d.0), "sig": hex(&sb)}));
            }
        }

        // ---- batches
        let rounds = if thorough { 12 } else { 2 };
        for round in 0..rounds {
            self.idx += 1;
            let d = self.rd();
            let d_other = self.rd();
            for n in 0..=16usize {
                let start = self.rng.gen_range(0, pool.len());
                let members: Vec<usize> = (0..n).map(|j| (start + j) % pool.len()).collect();
                let honest: Vec<(PublicKey, Signature)> = members.iter().map(|m| (pool[*m].0, Signature::new(&d, &pool[*m].1))).collect();
                self.batch_case("all-honest", &d, &honest, Some(true));
                for pos in 0..n {
                    let outsider = &pool[(start + n) % pool.len()];
                    for c in 0..4 {
                        let mut v = honest.clone();
                        let what = match c {
                            0 => {
                                let mut sb = sig_bytes(&v[pos].1);
                                let bit = self.rng.gen_range(0, 512);
                                sb[bit / 8] ^= 1 << (bit % 8);
                                v[pos].1 = sig_from(&sb);
                                "one-bit-of-signature"
                            }
                            1 => {
                                v[pos].1 = Signature::new(&d, &outsider.1);
                                "signature-by-another-key"
                            }
                            2 => {
                                v[pos].1 = Signature::new(&d_other, &pool[members[pos]].1);
                                "signature-over-another-digest"
                            }
                            _ => {
                                v[pos].0 = if n >= 2 { honest[(pos + 1) % n].0 } else { outsider.0 };
                                "key-of-another-member"
                            }
                        };
                        self.batch_case(what, &d, &v, Some(false));
                    }
                }
                // duplicated honest member: still all individually valid
                if n >= 1 {
                    let mut v = honest.clone();
                    v.push(honest[0].clone());
                    self.batch_case("duplicate-member", &d, &v, Some(true));
                }
                // random subset corrupted
                if round > 0 && n >= 2 {
                    let mut v = honest.clone();
                    let mut any = false;
                    for p in 0..n {
                        if self.rng.gen_range(0, 3) == 0 {
                            v[p].1 = Signature::new(&d_other, &pool[members[p]].1);
                            any = true;
                        }
                    }
                    self.batch_case("random-subset", &d, &v, Some(!any));
                }
            }
        }

        // ---- base64 encode on random byte strings of length 0..100
        for l in 0..=100usize {
            for _ in 0..(if thorough { 20 } else { 3 }) {
                let b = self.rbytes(l);
                self.b64enc_case(&b);
                // and the decoder on the valid encoding and on mutations of it
                let e = base64::encode(&b).into_bytes();
                self.b64dec_case("valid", &e);
                if !e.is_empty() {
                    let mut m = e.clone();
                    let p = self.rng.gen_range(0, m.len());
                    m[p] = ALPHA[self.rng.gen_range(0, ALPHA.len())];
                    self.b64dec_case("one-char", &m);
                    let mut m = e.clone();
                    let p = self.rng.gen_range(0, m.len());
                    m[p] = B64[self.rng.gen_range(0, 64)];
                    self.b64dec_case("one-symbol", &m);
                    let stripped: Vec<u8> = e.iter().cloned().filter(|c| *c != b'=').collect();
                    self.b64dec_case("padding-removed", &stripped);
                    let mut m = stripped.clone();
                    m.push(b'=');
                    self.b64dec_case("padding-partial", &m);
                    let mut m = e.clone();
                    m.push(b'=');
                    self.b64dec_case("padding-added", &m);
                    m.push(b'=');
                    self.b64dec_case("padding-added", &m);
                    // non-zero trailing bits
                    let mut m = e.clone();
                    if let Some(p) = m.iter().rposition(|c| *c != b'=') {
                        m[p] = B64[self.rng.gen_range(0, 64)];
                        self.b64dec_case("trailing-bits", &m);
                    }
                    let k = self.rng.gen_range(0, e.len());
                    self.b64dec_case("truncated", &e[..k]);
                }
            }
        }
        for s in ["AB==", "AAB=", "AA==", "AAA=", "AA=", "AA", "AAA", "A", "A===", "=AAA", "AA=A", "====", "=", "==", "A=", "A==", "AAAA=", "AAAA==", "AAAAAA==", "AAAAAAA=", "AAAAAAAAAA==", "AQ==", "AR==", "AAE=", "AAF="] {
            self.b64dec_case("padding-form", s.as_bytes());
        }
        // lengths 5..13 around the 8-byte chunk boundary with '=' at every position (and two adjacent '=')
        for l in 5..=13usize {
            for fill in [b'A', b'Q', b'/'] {
                let base = vec![fill; l];
                self.b64dec_case("chunk-boundary", &base);
                for p in 0..l {
                    let mut m = base.clone();
                    m[p] = b'=';
                    self.b64dec_case("chunk-boundary", &m);
                    if p + 1 < l {
                        m[p + 1] = b'=';
                        self.b64dec_case("chunk-boundary", &m);
                    }
                    let mut m = base.clone();
                    m[p] = 0x80;
                    self.b64dec_case("chunk-boundary", &m);
                    let mut m = base.clone();
                    m[p] = b'B';
                    self.b64dec_case("chunk-boundary", &m);
                }
            }
        }
        if thorough {
            for l in 14..=40usize {
                let base = vec![b'A'; l];
                for p in 0..l {
                    let mut m = base.clone();
                    m[p] = b'=';
                    self.b64dec_case("chunk-boundary-long", &m);
                    if p + 1 < l {
                        m[p + 1] = b'=';
                        self.b64dec_case("chunk-boundary-long", &m);
                    }
                }
            }
        }
        // exhaustive small strings
        let full: &[u8] = &[b'A', b'B', b'/', b'+', b'=', b'Q', b'g', b'w', b' ', b'\n', b'-', b'_', 0x80];
        let small: &[u8] = &[b'A', b'B', b'/', b'=', b'Q', b' ', 0x80];
        for l in 0..=3 {
            self.exhaustive(full, l, "exhaustive-13");
        }
        self.exhaustive(full, 4, "exhaustive-13");
        self.exhaustive(small, 5, "exhaustive-7");
        self.exhaustive(small, 6, "exhaustive-7");
        if thorough {
            self.exhaustive(full, 5, "exhaustive-13");
            self.exhaustive(small, 7, "exhaustive-7");
            self.exhaustive(&[b'A', b'Q', b'=', b'/'], 9, "exhaustive-4");
        }
        // random text
        for _ in 0..(if thorough { 200000 } else { 10000 }) {
            let l = self.rng.gen_range(0, 101);
            let mut s = self.rtext(l);
            if self.rng.gen_range(0, 20) == 0 && !s.is_empty() {
                let p = self.rng.gen_range(0, s.len());
                s[p] = self.rng.gen();
            }
            self.b64dec_case("random-text", &s);
        }

        // ---- JSON files through the real Export::write / Export::read
        self.json_files(&pool);
    }

    fn json_files(&mut self, pool: &[(PublicKey, SecretKey)]) {
        let dir = std::path::Path::new(&self.o.out).parent().map(|p| p.to_path_buf()).filter(|p| !p.as_os_str().is_empty()).unwrap_or_else(|| std::path::PathBuf::from("."));
        let n = if self.o.thorough() { pool.len() } else { 6.min(pool.len()) };
        for i in 0..n {
            self.idx += 1;
            self.rep.evaluations += 1;
            self.rep.hit("json:secret-file");
            let path = dir.join(format!("codec_secret_{}_{}.json", std::process::id(), i)).to_string_lossy().to_string();
            let _ = std::fs::remove_file(&path);
            let (pk, sk) = (&pool[i].0, &pool[i].1);
            let secret = match SecretKey::decode_base64(&sk.encode_base64()) {
                Ok(s) => node_config::Secret { name: *pk, secret: s },
                Err(_) => continue,
            };
            let res = guarded(|| -> Result<(PublicKey, String), String> {
                secret.write(&path).map_err(|e| e.to_string())?;
                let back = node_config::Secret::read(&path).map_err(|e| e.to_string())?;
                Ok((back.name, back.secret.encode_base64()))
            });
            let _ = std::fs::remove_file(&path);
            match res {
                Ok(Ok((name, s))) if name == *pk && s == sk.encode_base64() => {}
                other => self.c18("C18:json-roundtrip", format!("Secret file of {}: {:?}", hex(&pk.0), other.map(|r| r.map(|(n, _)| hex(&n.0)))), "secret-file"),
            }
        }
        let sizes: Vec<usize> = if self.o.thorough() { vec![1, 2, 4, 7, 10, 17] } else { vec![1, 4, 10] };
        for (ci, size) in sizes.iter().enumerate() {
            self.idx += 1;
            self.rep.evaluations += 1;
            self.rep.hit("json:committee-file");
            let epoch: u128 = [0u128, 1, u64::MAX as u128][ci % 3];
            let cons = consensus::Committee::new(
                (0..*size).map(|j| (pool[j].0, 1 + (j as u32 % 3), format!("127.0.0.1:{}", 7000 + j).parse().unwrap())).collect(),
                epoch,
            );
            let memp = mempool::Committee::new(
                (0..*size)
                    .map(|j| (pool[j].0, 1 + (j as u32 % 3), format!("127.0.0.1:{}", 7100 + j).parse().unwrap(), format!("10.0.0.{}:{}", j + 1, 7200 + j).parse().unwrap()))
                    .collect(),
                epoch,
            );
            let c = node_config::Committee { consensus: cons, mempool: memp };
            let path = dir.join(format!("codec_committee_{}_{}.json", std::process::id(), ci)).to_string_lossy().to_string();
            let _ = std::fs::remove_file(&path);
            let res = guarded(|| -> Result<(Value, Value, bool), String> {
                c.write(&path).map_err(|e| e.to_string())?;
                let back = node_config::Committee::read(&path).map_err(|e| e.to_string())?;
                let stakes = (0..*size).all(|j| back.consensus.stake(&pool[j].0) == 1 + (j as u32 % 3) && back.mempool.stake(&pool[j].0) == 1 + (j as u32 % 3));
                Ok((serde_json::to_value(&c).map_err(|e| e.to_string())?, serde_json::to_value(&back).map_err(|e| e.to_string())?, stakes))
            });
            let _ = std::fs::remove_file(&path);
            match res {
                Ok(Ok((a, b, stakes))) if a == b && stakes => {}
                other => self.c18("C18:json-roundtrip", format!("Committee file of size {}: {}", size, short(&format!("{:?}", other))), "committee-file"),
            }
        }
    }
}

// ------------------------------------------------------------------------------------------------
// entry points
// ------------------------------------------------------------------------------------------------

const RULE: &str = "inputs are (A) seeded valid messages of every wire type (Propose with/without TC, QCs in 8 styles incl. genesis, quorum, sub-quorum, 200 junk votes, bad signature, duplicate signer; TCs in 5 styles; Vote, Timeout, TC, SyncRequest, Batch, BatchRequest) over boundary rounds {0,1,2,255,256,2^32-1,2^32,2^32+1,2^63-1,2^63,2^64-2,2^64-1} and payloads of 0..1500 digests, signed by a committee of 4 real key pairs, (B) mutations of valid encodings (truncation at every/boundary/random offset, bit flips, byte overwrites, Option tag, variant index, key string length/content, Vec length prefixes) plus tiny and random inputs and random/alphabet-biased key texts, (C) every single-bit flip of digest/key/signature for seeded keys, batches of 0..16 with one corrupted member at each position, base64 strings (exhaustive over small alphabets, padding forms, chunk boundaries, random); a case is distinct by a 64-bit hash of (decoder or check, input bytes) and counted as non-trivial when the valid message has at least one non-empty variable-length part or the malformed/text input has at least 4 bytes";

fn wants(o: &Opts, p: &str) -> bool {
    let known = ["C20", "C18", "C15"];
    !known.contains(&o.prop.as_str()) || o.prop == p
}

pub fn run(o: &Opts) -> Report {
    if let Some(path) = &o.replay {
        return replay(o, path);
    }
    install_hook();
    let mut e = Eng::new(o);
    e.rep.rule = RULE.into();
    if wants(o, "C20") {
        e.section_a(false);
    } else if wants(o, "C15") {
        // C15 needs the valid stream for the decode agreement; a lighter version keeps the budget for section B
        e.section_a(!o.thorough());
    }
    if wants(o, "C15") {
        e.section_b();
    }
    if wants(o, "C18") {
        e.section_c();
    }
    e.rep.distinct_nontrivial = e.distinct.len() as u64;
    e.rep.model_requests = e.model.requests;
    e.rep
}

fn replay(o: &Opts, path: &str) -> Report {
    let mut rep = Report::new("codec", &o.prop, &o.tier, o.seed);
    rep.rule = "replay of one recorded input on the real code".into();
    let v: Value = match std::fs::read_to_string(path).ok().and_then(|s| serde_json::from_str(&s).ok()) {
        Some(v) => v,
        None => {
            rep.hit("replay:unreadable");
            return rep;
        }
    };
    // accept either the bare replay object or a finding / report that contains it
    let v = if v.get("case").is_some() { v } else if let Some(r) = v.get("replay") { r.clone() } else { v };
    match v.get("case").and_then(|c| c.as_str()) {
        Some("decode") => {
            let target = v.get("target").and_then(|t| t.as_str()).unwrap_or("cmsg").to_string();
            let input = v.get("hex").and_then(|h| h.as_str()).and_then(unhex).unwrap_or_default();
            let real = real_decode(&target, &input);
            rep.evaluations = 1;
            rep.hit(&format!("replay:{}:{}", target, real.class()));
            rep.sample(json!({"target": target, "input": short(&hex(&input)), "real": real.text()}));
            if let ROut::Panic(loc) = &real {
                rep.finding(
                    "impl_vs_property",
                    &panic_kind(loc),
                    format!("real decoder `{}` panicked at {} on input {}", target, loc, short(&hx(&input))),
                    v.clone(),
                );
            }
            rep
        }
        Some("seeded") => {
            let o2 = Opts {
                engine: "codec".into(),
                prop: v.get("prop").and_then(|p| p.as_str()).unwrap_or(&o.prop).to_string(),
                tier: v.get("tier").and_then(|p| p.as_str()).unwrap_or(&o.tier).to_string(),
                seed: v.get("seed").and_then(|p| p.as_u64()).unwrap_or(o.seed),
                out: o.out.clone(),
                replay: None,
            };
            let mut r = run(&o2);
            // a replay reports the monitors on the real code
            r.findings.retain(|f| f.class == "impl_vs_property");
            r
        }
        _ => {
            rep.hit("replay:unknown-case");
            rep
        }
    }
}
