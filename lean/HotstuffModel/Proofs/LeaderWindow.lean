import HotstuffModel.Proofs.Leader
/-
Leader rotation versus faulty authorities (C06, second sentence): a set of `m` faulty authorities
can occupy at most `m` consecutive rounds; the next round is led by somebody else.
-/
namespace HS

/-- Pigeonhole: a duplicate-free list all of whose elements lie in `l'` is no longer than `l'`. -/
theorem nodup_subset_length_le : ∀ (l l' : List Nat), l.Nodup → (∀ x ∈ l, x ∈ l') → l.length ≤ l'.length := by
  intro l
  induction l with
  | nil => intro l' _ _; simp
  | cons a l ih =>
    intro l' hnd hsub
    have ha : a ∈ l' := hsub a (by simp)
    have hnd' := List.nodup_cons.mp hnd
    have := ih (l'.erase a) hnd'.2 (by
      intro x hx
      have hxa : x ≠ a := by intro e; subst e; exact hnd'.1 hx
      exact (List.mem_erase_of_ne hxa).mpr (hsub x (by simp [hx])))
    rw [List.length_erase_of_mem ha] at this
    have hpos : 0 < l'.length := List.length_pos_of_mem ha
    simp only [List.length_cons]
    omega

theorem nodup_map_of_inj_on (f : Nat → Nat) : ∀ (l : List Nat), l.Nodup →
    (∀ x ∈ l, ∀ y ∈ l, f x = f y → x = y) → (l.map f).Nodup := by
  intro l
  induction l with
  | nil => intro _ _; simp
  | cons a l ih =>
    intro hnd hinj
    have hnd' := List.nodup_cons.mp hnd
    simp only [List.map_cons, List.nodup_cons]
    refine ⟨?_, ih hnd'.2 (fun x hx y hy => hinj x (by simp [hx]) y (by simp [hy]))⟩
    intro hmem
    obtain ⟨y, hy, hfy⟩ := List.mem_map.mp hmem
    have := hinj y (by simp [hy]) a (by simp) hfy
    subst this
    exact hnd'.1 hy

/-- Leaders of fewer than `n` consecutive rounds are pairwise different. -/
theorem leaders_distinct (c : Committee) (hw : c.WF) (h : c.keys ≠ []) (r0 i j : Nat)
    (hi : i < c.keys.length) (hj : j < c.keys.length) (e : c.leader (r0 + i) = c.leader (r0 + j)) : i = j := by
  have hm := leader_mem c h (r0 + i)
  obtain ⟨i0, _, _, huniq⟩ := every_authority_leads_once c hw h r0 (c.leader (r0 + i)) hm
  have h1 := huniq i hi rfl
  have h2 := huniq j hj e.symm
  omega

/-- Any `m` authorities lead at most `m` rounds in a row (when `m < n`): among the rounds
`r0, …, r0 + m` at least one is led by an authority outside the set. -/
theorem leader_outside_within (c : Committee) (hw : c.WF) (h : c.keys ≠ []) (faulty : List Nat)
    (hm : faulty.length < c.keys.length) (r0 : Nat) :
    ∃ i, i ≤ faulty.length ∧ c.leader (r0 + i) ∉ faulty := by
  apply Classical.byContradiction
  intro hno
  have hall : ∀ i, i ≤ faulty.length → c.leader (r0 + i) ∈ faulty := by
    intro i hi
    apply Classical.byContradiction
    intro hn
    exact hno ⟨i, hi, hn⟩
  let L := (List.range (faulty.length + 1)).map (fun i => c.leader (r0 + i))
  have hnd : L.Nodup := by
    apply nodup_map_of_inj_on _ _ List.nodup_range
    intro x hx y hy e
    have hx' : x < faulty.length + 1 := List.mem_range.mp hx
    have hy' : y < faulty.length + 1 := List.mem_range.mp hy
    exact leaders_distinct c hw h r0 x y (by omega) (by omega) e
  have hsub : ∀ x ∈ L, x ∈ faulty := by
    intro x hx
    obtain ⟨i, hi, rfl⟩ := List.mem_map.mp hx
    exact hall i (by have := List.mem_range.mp hi; omega)
  have := nodup_subset_length_le L faulty hnd hsub
  simp [L] at this
  omega

end HS

namespace HS

theorem length_filter_split (p : Nat → Bool) (l : List Nat) :
    l.length = (l.filter p).length + (l.filter (fun x => !p x)).length := by
  induction l with
  | nil => simp
  | cons a l ih =>
    simp only [List.filter_cons]
    by_cases h : p a = true
    · simp [h]; omega
    · simp [h]; omega

/-- Counting: a map from `l` into a duplicate-free `R` whose fibres have at most `k` elements. -/
theorem length_le_of_fibres (k : Nat) (f : Nat → Nat) : ∀ (R l : List Nat), R.Nodup →
    (∀ x ∈ l, f x ∈ R) → (∀ y ∈ R, (l.filter (fun x => f x == y)).length ≤ k) →
    l.length ≤ k * R.length := by
  intro R
  induction R with
  | nil =>
    intro l _ hin _
    cases l with
    | nil => simp
    | cons a l => exact absurd (hin a (by simp)) (by simp)
  | cons y R ih =>
    intro l hnd hin hfib
    have hnd' := List.nodup_cons.mp hnd
    have hsplit := length_filter_split (fun x => f x == y) l
    have hrest := ih (l.filter (fun x => !(f x == y))) hnd'.2
      (by
        intro x hx
        have hx' := List.mem_filter.mp hx
        have hne : f x ≠ y := by simpa using hx'.2
        rcases List.mem_cons.mp (hin x hx'.1) with h | h
        · exact absurd h hne
        · exact h)
      (by
        intro z hz
        have hzy : z ≠ y := by intro e; subst e; exact hnd'.1 hz
        have : ((l.filter (fun x => !(f x == y))).filter (fun x => f x == z)).length ≤ (l.filter (fun x => f x == z)).length := by
          exact ((List.filter_sublist (l := l) (p := fun x => !(f x == y))).filter (fun x => f x == z)).length_le
        exact Nat.le_trans this (hfib z (by simp [hz])))
    have hy := hfib y (by simp)
    simp only [List.length_cons]
    rw [hsplit]
    have : k * (R.length + 1) = k * R.length + k := by rw [Nat.mul_add, Nat.mul_one]
    omega

end HS

namespace HS

theorem leader_congr_mod (c : Committee) (r r' : Nat) (h : r % c.keys.length = r' % c.keys.length) :
    c.leader r = c.leader r' := by
  unfold Committee.leader Committee.leader?
  rw [leaderIndex_eq, leaderIndex_eq, h]

/-- `i + k ≡ y (mod n)` with `i < n`, `k < 3` pins `i` down. -/
theorem residue_back (n i k y : Nat) (hn : 0 < n) (hi : i < n) (hk : k < 3) (h : (i + k) % n = y) :
    i = (y + 3 * n - k) % n := by
  have hdiv := Nat.div_add_mod (i + k) n
  rw [h] at hdiv
  -- i + k = n * q + y
  have hq : (i + k) / n ≤ 3 := by
    have : (i + k) / n ≤ (i + k) := Nat.div_le_self _ _
    have h1 : (i + k) / n * n ≤ i + k := Nat.div_mul_le_self _ _
    apply Classical.byContradiction
    intro hc
    have h4 : 4 ≤ (i + k) / n := by omega
    have : 4 * n ≤ (i + k) / n * n := Nat.mul_le_mul_right n h4
    omega
  have hy : y < n := by rw [← h]; exact Nat.mod_lt _ hn
  have e : y + 3 * n - k = i + (3 - (i + k) / n) * n := by
    have hmul : n * ((i + k) / n) + (3 - (i + k) / n) * n = 3 * n := by
      rw [Nat.mul_comm n, ← Nat.add_mul]
      congr 1; omega
    omega
  rw [e, Nat.add_mul_mod_self_right, Nat.mod_eq_of_lt hi]

/-- THREE CONSECUTIVE NON-FAULTY LEADERS.  With `n ≥ 3m + 1` authorities, any `m` of them being
faulty, every window of `n` consecutive rounds contains three consecutive rounds none of which is led
by a faulty authority — the three rounds a 2-chain commit needs. -/
theorem three_consecutive_outside (c : Committee) (hw : c.WF) (h : c.keys ≠ []) (faulty : List Nat)
    (hm : 3 * faulty.length < c.keys.length) (r0 : Nat) :
    ∃ i, i < c.keys.length ∧ c.leader (r0 + i) ∉ faulty ∧ c.leader (r0 + i + 1) ∉ faulty ∧
      c.leader (r0 + i + 2) ∉ faulty := by
  have hn : 0 < c.keys.length := List.length_pos_iff.mpr h
  apply Classical.byContradiction
  intro hno
  let n := c.keys.length
  let isF : Nat → Bool := fun j => decide (c.leader (r0 + j) ∈ faulty)
  have hcover : ∀ i, i < n → isF i = true ∨ isF (i + 1) = true ∨ isF (i + 2) = true := by
    intro i hi
    apply Classical.byContradiction
    intro hc
    apply hno
    refine ⟨i, hi, ?_, ?_, ?_⟩ <;> intro hmem <;> apply hc
    · left; simp [isF, hmem]
    · right; left; simp only [isF, decide_eq_true_eq]; rw [← Nat.add_assoc]; exact hmem
    · right; right; simp only [isF, decide_eq_true_eq]; rw [← Nat.add_assoc]; exact hmem
  have isF_mod : ∀ x, isF (x % n) = isF x := by
    intro x
    simp only [isF]
    congr 2
    apply leader_congr_mod
    show (r0 + x % n) % n = (r0 + x) % n
    rw [Nat.add_mod, Nat.mod_mod, ← Nat.add_mod]
  let ρ : Nat → Nat := fun i => if isF i then i % n else if isF (i + 1) then (i + 1) % n else (i + 2) % n
  let R := (List.range n).filter isF
  have hRnd : R.Nodup := List.nodup_range.filter _
  have hρ : ∀ i ∈ List.range n, ρ i ∈ R := by
    intro i hi
    have hi' : i < n := List.mem_range.mp hi
    simp only [ρ, R]
    rcases hcover i hi' with h0 | h1 | h2
    · simp only [h0, if_true]
      exact List.mem_filter.mpr ⟨List.mem_range.mpr (Nat.mod_lt _ hn), by rw [isF_mod]; exact h0⟩
    · by_cases h0 : isF i = true
      · simp only [h0, if_true]
        exact List.mem_filter.mpr ⟨List.mem_range.mpr (Nat.mod_lt _ hn), by rw [isF_mod]; exact h0⟩
      · simp only [h0, h1, if_true, Bool.false_eq_true, if_false]
        exact List.mem_filter.mpr ⟨List.mem_range.mpr (Nat.mod_lt _ hn), by rw [isF_mod]; exact h1⟩
    · by_cases h0 : isF i = true
      · simp only [h0, if_true]
        exact List.mem_filter.mpr ⟨List.mem_range.mpr (Nat.mod_lt _ hn), by rw [isF_mod]; exact h0⟩
      · by_cases h1 : isF (i + 1) = true
        · simp only [h0, h1, if_true, Bool.false_eq_true, if_false]
          exact List.mem_filter.mpr ⟨List.mem_range.mpr (Nat.mod_lt _ hn), by rw [isF_mod]; exact h1⟩
        · simp only [h0, h1, Bool.false_eq_true, if_false]
          exact List.mem_filter.mpr ⟨List.mem_range.mpr (Nat.mod_lt _ hn), by rw [isF_mod]; exact h2⟩
  -- |R| ≤ |faulty|
  have hRlen : R.length ≤ faulty.length := by
    have hmapnd : (R.map (fun j => c.leader (r0 + j))).Nodup := by
      apply nodup_map_of_inj_on _ _ hRnd
      intro x hx y hy e
      have hx' := List.mem_range.mp (List.mem_filter.mp hx).1
      have hy' := List.mem_range.mp (List.mem_filter.mp hy).1
      exact leaders_distinct c hw h r0 x y hx' hy' e
    have := nodup_subset_length_le _ faulty hmapnd (by
      intro x hx
      obtain ⟨j, hj, rfl⟩ := List.mem_map.mp hx
      have := (List.mem_filter.mp hj).2
      simpa [isF] using this)
    simpa using this
  -- fibres have at most three elements
  have hfib : ∀ y ∈ R, ((List.range n).filter (fun x => ρ x == y)).length ≤ 3 := by
    intro y _
    have hnd : ((List.range n).filter (fun x => ρ x == y)).Nodup := List.nodup_range.filter _
    have := nodup_subset_length_le _ [(y + 3 * n - 0) % n, (y + 3 * n - 1) % n, (y + 3 * n - 2) % n] hnd (by
      intro i hi
      have hi' := List.mem_filter.mp hi
      have hin : i < n := List.mem_range.mp hi'.1
      have hρy : ρ i = y := by simpa using hi'.2
      simp only [ρ] at hρy
      simp only [List.mem_cons, List.mem_nil_iff, or_false]
      by_cases h0 : isF i = true
      · simp only [h0, if_true] at hρy
        left; exact residue_back n i 0 y hn hin (by omega) (by simpa using hρy)
      · by_cases h1 : isF (i + 1) = true
        · simp only [h0, h1, if_true, Bool.false_eq_true, if_false] at hρy
          right; left; exact residue_back n i 1 y hn hin (by omega) hρy
        · simp only [h0, h1, Bool.false_eq_true, if_false] at hρy
          right; right; exact residue_back n i 2 y hn hin (by omega) hρy)
    simpa using this
  have := length_le_of_fibres 3 ρ R (List.range n) hRnd hρ hfib
  simp only [List.length_range] at this
  have : n ≤ 3 * faulty.length := Nat.le_trans this (Nat.mul_le_mul_left 3 hRlen)
  omega

end HS
