import HotstuffModel.Proofs.Leader
/-
Leader rotation versus faulty authorities (C06, second sentence): a set of `m` faulty authorities
can occupy at most `m` consecutive rounds; the next round is led by somebody else.
-/
namespace HS

/-- Pigeonhole: a duplicate-free list all of whose elements lie in `l'` is no longer than `l'`. -/
theorem nodup_subset_length_le : ∀ (l l' : List Nat), l.Nodup → (∀ x ∈ l, x ∈ l') → l.length ≤ l'.length := by
  intro l
  induction l with
  | nil => intro l' _ _; simp
  | cons a l ih =>
    intro l' hnd hsub
    have ha : a ∈ l' := hsub a (by simp)
    have hnd' := List.nodup_cons.mp hnd
    have := ih (l'.erase a) hnd'.2 (by
      intro x hx
      have hxa : x ≠ a := by intro e; subst e; exact hnd'.1 hx
      exact (List.mem_erase_of_ne hxa).mpr (hsub x (by simp [hx])))
    rw [List.length_erase_of_mem ha] at this
    have hpos : 0 < l'.length := List.length_pos_of_mem ha
    simp only [List.length_cons]
    omega

theorem nodup_map_of_inj_on (f : Nat → Nat) : ∀ (l : List Nat), l.Nodup →
    (∀ x ∈ l, ∀ y ∈ l, f x = f y → x = y) → (l.map f).Nodup := by
  intro l
  induction l with
  | nil => intro _ _; simp
  | cons a l ih =>
    intro hnd hinj
    have hnd' := List.nodup_cons.mp hnd
    simp only [List.map_cons, List.nodup_cons]
    refine ⟨?_, ih hnd'.2 (fun x hx y hy => hinj x (by simp [hx]) y (by simp [hy]))⟩
    intro hmem
    obtain ⟨y, hy, hfy⟩ := List.mem_map.mp hmem
    have := hinj y (by simp [hy]) a (by simp) hfy
    subst this
    exact hnd'.1 hy

/-- Leaders of fewer than `n` consecutive rounds are pairwise different. -/
theorem leaders_distinct (c : Committee) (hw : c.WF) (h : c.keys ≠ []) (r0 i j : Nat)
    (hi : i < c.keys.length) (hj : j < c.keys.length) (e : c.leader (r0 + i) = c.leader (r0 + j)) : i = j := by
  have hm := leader_mem c h (r0 + i)
  obtain ⟨i0, _, _, huniq⟩ := every_authority_leads_once c hw h r0 (c.leader (r0 + i)) hm
  have h1 := huniq i hi rfl
  have h2 := huniq j hj e.symm
  omega

/-- Any `m` authorities lead at most `m` rounds in a row (when `m < n`): among the rounds
`r0, …, r0 + m` at least one is led by an authority outside the set. -/
theorem leader_outside_within (c : Committee) (hw : c.WF) (h : c.keys ≠ []) (faulty : List Nat)
    (hm : faulty.length < c.keys.length) (r0 : Nat) :
    ∃ i, i ≤ faulty.length ∧ c.leader (r0 + i) ∉ faulty := by
  apply Classical.byContradiction
  intro hno
  have hall : ∀ i, i ≤ faulty.length → c.leader (r0 + i) ∈ faulty := by
    intro i hi
    apply Classical.byContradiction
    intro hn
    exact hno ⟨i, hi, hn⟩
  let L := (List.range (faulty.length + 1)).map (fun i => c.leader (r0 + i))
  have hnd : L.Nodup := by
    apply nodup_map_of_inj_on _ _ List.nodup_range
    intro x hx y hy e
    have hx' : x < faulty.length + 1 := List.mem_range.mp hx
    have hy' : y < faulty.length + 1 := List.mem_range.mp hy
    exact leaders_distinct c hw h r0 x y (by omega) (by omega) e
  have hsub : ∀ x ∈ L, x ∈ faulty := by
    intro x hx
    obtain ⟨i, hi, rfl⟩ := List.mem_map.mp hx
    exact hall i (by have := List.mem_range.mp hi; omega)
  have := nodup_subset_length_le L faulty hnd hsub
  simp [L] at this
  omega

end HS
