import HotstuffModel.Proofs.NodeInv1
/-
Layer 1b: ordering invariants over the ghost history (newest first), for arbitrary inputs.
-/
namespace HS
open Node

/-- Every `voted b` is newer than all votes and timeouts of rounds `≥ b.round`. -/
def votesOrd : List Out → Prop
  | [] => True
  | .voted b :: rest =>
    (∀ b', Out.voted b' ∈ rest → b'.round < b.round) ∧
    (∀ t, Out.timeout t ∈ rest → t.round < b.round) ∧ votesOrd rest
  | _ :: rest => votesOrd rest

def makesOrd : List Out → Prop
  | [] => True
  | .make r _ _ :: rest => (∀ r' q t, Out.make r' q t ∈ rest → r' < r) ∧ makesOrd rest
  | _ :: rest => makesOrd rest

def propsOrd : List Out → Prop
  | [] => True
  | .propose b :: rest => (∀ b', Out.propose b' ∈ rest → b'.round < b.round) ∧ propsOrd rest
  | _ :: rest => propsOrd rest

def enteredOrd : List Out → Prop
  | [] => True
  | .entered r _ :: rest => (∀ r' e, Out.entered r' e ∈ rest → r' < r) ∧ enteredOrd rest
  | _ :: rest => enteredOrd rest

/-- Every timeout carries a QC at least as high as the QC of any block voted for before and as
any QC sent before (in own proposals, earlier timeouts, helper replies). -/
def toutsOrd : List Out → Prop
  | [] => True
  | .timeout t :: rest =>
    (∀ b, Out.voted b ∈ rest → b.qc.round ≤ t.highQC.round) ∧
    (∀ b, Out.propose b ∈ rest → b.qc.round ≤ t.highQC.round) ∧
    (∀ t', Out.timeout t' ∈ rest → t'.highQC.round ≤ t.highQC.round) ∧
    (∀ to b, Out.helperReply to b ∈ rest → b.qc.round ≤ t.highQC.round) ∧ toutsOrd rest
  | _ :: rest => toutsOrd rest

def makeRound : PMsg → Option Nat
  | .make r _ _ => some r
  | .cleanup _ => none

/-- Queue order: an earlier `Make` is for a lower round than a later one. -/
def MakeLt (a b : PMsg) : Prop := ∀ r r', makeRound a = some r → makeRound b = some r' → r < r'

structure Inv2 (s : Node) : Prop where
  votes : votesOrd s.hist
  makes : makesOrd s.hist
  props : propsOrd s.hist
  entered : enteredOrd s.hist
  touts : toutsOrd s.hist
  enteredLe : ∀ r e, Out.entered r e ∈ s.hist → r ≤ s.round
  qSorted : s.propQ.Pairwise MakeLt
  qGt : ∀ b, Out.propose b ∈ s.hist → ∀ r q t, PMsg.make r q t ∈ s.propQ → b.round < r
  qMem : ∀ r qc tc, PMsg.make r qc tc ∈ s.propQ → Out.make r qc tc ∈ s.hist
  propMade : ∀ b, Out.propose b ∈ s.hist → Out.make b.round b.qc b.tc ∈ s.hist

/-- All earlier `Make`s were for rounds below the current one (so a new one may be issued). -/
def CanPropose (s : Node) : Prop := ∀ r q t, Out.make r q t ∈ s.hist → r < s.round

/-- Outputs that none of the four orderings constrains. -/
def Out.plain : Out → Bool
  | .voted _ => false
  | .timeout _ => false
  | .make _ _ _ => false
  | .propose _ => false
  | .entered _ _ => false
  | _ => true

theorem ords_plain (o : Out) (h : List Out) (ho : o.plain = true) :
    (votesOrd (o :: h) ↔ votesOrd h) ∧ (makesOrd (o :: h) ↔ makesOrd h) ∧
    (propsOrd (o :: h) ↔ propsOrd h) ∧ (enteredOrd (o :: h) ↔ enteredOrd h) ∧
    (toutsOrd (o :: h) ↔ toutsOrd h) := by
  cases o <;> simp [Out.plain] at ho <;> simp [votesOrd, makesOrd, propsOrd, enteredOrd, toutsOrd]

theorem inv2_emit_plain (s : Node) (o : Out) (ho : o.plain = true) (h : Inv2 s) :
    Inv2 (s.emit o) := by
  have := ords_plain o s.hist ho
  cases o <;> simp [Out.plain] at ho <;>
    (constructor <;> simp [votesOrd, makesOrd, propsOrd, enteredOrd, toutsOrd] <;> grind [Inv2])

theorem inv2_fail (s : Node) (p : PanicSite) (h : Inv2 s) : Inv2 (s.fail p) := by
  unfold fail; constructor <;> simp <;> grind [Inv2]

theorem inv2_setAgg (s : Node) (a : Aggregator) (h : Inv2 s) : Inv2 { s with agg := a } := by
  constructor <;> simp <;> grind [Inv2]

theorem inv2_advanceRound (s : Node) (r : Nat) (ev : Evidence) (h : Inv2 s) :
    Inv2 (s.advanceRound r ev) := by
  unfold advanceRound
  split
  · exact h
  · constructor <;> simp [votesOrd, makesOrd, propsOrd, enteredOrd, toutsOrd] <;> grind [Inv2]

theorem inv2_updateHighQC (s : Node) (qc : QC) (h : Inv2 s) : Inv2 (s.updateHighQC qc) := by
  unfold updateHighQC
  split
  · constructor <;> simp <;> grind [Inv2]
  · exact h

theorem inv2_processQC (s : Node) (qc : QC) (h : Inv2 s) : Inv2 (s.processQC qc) :=
  inv2_updateHighQC _ _ (inv2_advanceRound _ _ _ h)

theorem inv2_generateProposal (s : Node) (tc : Option TC) (h1 : Inv1 s) (h : Inv2 s)
    (hc : CanPropose s) : Inv2 (s.generateProposal tc) := by
  unfold generateProposal
  have hq : ∀ r q t, PMsg.make r q t ∈ s.propQ → r < s.round :=
    fun r q t hm => hc _ _ _ (h.qMem _ _ _ hm)
  have hp : ∀ b, Out.propose b ∈ s.hist → b.round < s.round := fun b hb => hc _ _ _ (h.propMade b hb)
  constructor
  · simpa [votesOrd] using h.votes
  · simp only [emit_hist, makesOrd]; exact ⟨fun r' q t hm => hc r' q t hm, h.makes⟩
  · simpa [propsOrd] using h.props
  · simpa [enteredOrd] using h.entered
  · simpa [toutsOrd] using h.touts
  · intro r e hm; simp at hm; exact h.enteredLe r e hm
  · simp only [emit_propQ]
    rw [List.pairwise_append]
    refine ⟨h.qSorted, by simp, ?_⟩
    intro a ha b hb
    simp at hb; subst hb
    intro r r' hr hr'
    simp [makeRound] at hr'
    subst hr'
    cases a with
    | make r0 q t => simp [makeRound] at hr; subst hr; exact hq _ _ _ ha
    | cleanup _ => simp [makeRound] at hr
  · intro b hb r q t hr
    simp at hb
    simp only [emit_propQ, List.mem_append, List.mem_singleton] at hr
    rcases hr with hr | hr
    · exact h.qGt b hb r q t hr
    · simp at hr; rw [hr.1]; exact hp b hb
  · intro r qc tc' hm
    simp at hm
    rcases hm with hm | hm
    · simp; right; exact h.qMem _ _ _ hm
    · simp; left; exact hm
  · intro b hb
    simp at hb
    simp; right; exact h.propMade b hb

/-- `s'` has issued no `Make` that `s` had not. -/
def NoNewMakes (s s' : Node) : Prop := ∀ r q t, Out.make r q t ∈ s'.hist → Out.make r q t ∈ s.hist

theorem NoNewMakes.refl (s : Node) : NoNewMakes s s := fun _ _ _ h => h
theorem NoNewMakes.trans {a b c : Node} (h1 : NoNewMakes a b) (h2 : NoNewMakes b c) : NoNewMakes a c :=
  fun r q t h => h1 r q t (h2 r q t h)

theorem noNew_advanceRound (s : Node) (r : Nat) (ev : Evidence) : NoNewMakes s (s.advanceRound r ev) := by
  unfold advanceRound NoNewMakes
  split <;> simp

theorem noNew_processQC (s : Node) (qc : QC) : NoNewMakes s (s.processQC qc) := by
  unfold processQC updateHighQC
  split
  · exact noNew_advanceRound s _ _
  · exact noNew_advanceRound s _ _

theorem canPropose_of (s s' : Node) (h : Inv1 s) (hn : NoNewMakes s s') (hr : s.round < s'.round) :
    CanPropose s' := by
  intro r q t hm
  have := h.makesHist r q t (hn r q t hm)
  omega

theorem addVote_qc (a a' : Aggregator) (c : Committee) (v : Vote) (qc : QC)
    (h : a.addVote c v = .ok (a', some qc)) : qc.round = v.round ∧ qc.hash = v.hash := by
  unfold Aggregator.addVote at h
  split at h
  · simp at h
  · rename_i m r hm
    simp only [Except.ok.injEq, Prod.mk.injEq] at h
    unfold QCMaker.append at hm
    split at hm
    · simp at hm
    · simp only [] at hm
      split at hm
      · simp only [Except.ok.injEq, Prod.mk.injEq] at hm
        have := hm.2.trans h.2
        simp only [Option.some.injEq] at this
        rw [← this]; exact ⟨rfl, rfl⟩
      · simp only [Except.ok.injEq, Prod.mk.injEq] at hm
        rw [← hm.2] at h; simp at h

theorem addTimeout_tc (a a' : Aggregator) (c : Committee) (t : Timeout) (tc : TC)
    (h : a.addTimeout c t = .ok (a', some tc)) : tc.round = t.round := by
  unfold Aggregator.addTimeout at h
  split at h
  · simp at h
  · rename_i m r hm
    simp only [Except.ok.injEq, Prod.mk.injEq] at h
    unfold TCMaker.append at hm
    split at hm
    · simp at hm
    · simp only [] at hm
      split at hm
      · simp only [Except.ok.injEq, Prod.mk.injEq] at hm
        have := hm.2.trans h.2
        simp only [Option.some.injEq] at this
        rw [← this]
      · simp only [Except.ok.injEq, Prod.mk.injEq] at hm
        rw [← hm.2] at h; simp at h

theorem inv2_handleVote (c : Committee) (s : Node) (v : Vote) (h1 : Inv1 s) (h : Inv2 s) :
    Inv2 (s.handleVote c v) := by
  unfold handleVote
  split
  · exact h
  · rename_i hround
    split
    · exact h
    · split
      · exact h
      · exact inv2_setAgg _ _ h
      · rename_i agg qc hadd
        have hq := addVote_qc _ _ _ _ _ hadd
        simp only []
        split
        · apply inv2_generateProposal
          · exact inv1_processQC _ _ (inv1_setAgg s agg h1)
          · exact inv2_processQC _ _ (inv2_setAgg s agg h)
          · apply canPropose_of { s with agg := agg } _ (inv1_setAgg s agg h1) (noNew_processQC _ _)
            have := processQC_facts { s with agg := agg } qc
            simp at this ⊢
            omega
        · exact inv2_processQC _ _ (inv2_setAgg s agg h)

theorem inv2_handleTC (c : Committee) (s : Node) (tc : TC) (h1 : Inv1 s) (h : Inv2 s) :
    Inv2 (s.handleTC c tc) := by
  unfold handleTC
  split
  · exact h
  · split
    · exact h
    · simp only []
      split
      · apply inv2_generateProposal
        · exact inv1_advanceRound _ _ _ h1
        · exact inv2_advanceRound _ _ _ h
        · apply canPropose_of s _ h1 (noNew_advanceRound _ _ _)
          have := advanceRound_round_gt s tc.round (.tc tc)
          omega
      · exact inv2_advanceRound _ _ _ h

theorem inv2_handleTimeout (c : Committee) (s : Node) (t : Timeout) (h1 : Inv1 s) (h : Inv2 s) :
    Inv2 (s.handleTimeout c t) := by
  unfold handleTimeout
  split
  · exact h
  · rename_i hround
    split
    · exact h
    · have i0 := inv1_processQC s t.highQC h1
      have j0 := inv2_processQC s t.highQC h
      simp only []
      split
      · exact j0
      · exact inv2_setAgg _ _ j0
      · rename_i agg tc hadd
        have htc := addTimeout_tc _ _ _ _ _ hadd
        have i1 := inv1_emit_tc _ tc (inv1_advanceRound _ tc.round (.tc tc) (inv1_setAgg _ agg i0))
        have j1 := inv2_emit_plain _ (.tc tc) rfl (inv2_advanceRound _ tc.round (.tc tc) (inv2_setAgg _ agg j0))
        split
        · apply inv2_generateProposal _ _ i1 j1
          apply canPropose_of s _ h1
          · intro r q t' hm
            simp at hm
            have := noNew_advanceRound { (s.processQC t.highQC) with agg := agg } tc.round (.tc tc) r q t' hm
            exact noNew_processQC s t.highQC r q t' (by simpa using this)
          · have := advanceRound_round_gt { (s.processQC t.highQC) with agg := agg } tc.round (.tc tc)
            simp at this ⊢
            omega
        · exact j1

theorem inv2_localTimeout (c : Committee) (s : Node) (h1 : Inv1 s) (h : Inv2 s) :
    Inv2 (s.localTimeout c) := by
  unfold localTimeout
  apply inv2_handleTimeout
  · constructor <;> simp [Node.pendingBlocks] <;> grind [Inv1, Node.pendingBlocks]
  · have a1 := h1.voted
    have a2 := h1.proposed
    have a3 := h1.touts
    have a4 := h1.replied
    constructor <;> simp [votesOrd, makesOrd, propsOrd, enteredOrd, toutsOrd] <;> grind [Inv2]

theorem inv2_foldl_commit (l : List Block) (s : Node) (h : Inv2 s) :
    Inv2 (l.foldl (fun s x => s.emit (.commit x)) s) := by
  induction l generalizing s with
  | nil => exact h
  | cons a l ih => exact ih _ (inv2_emit_plain s _ rfl h)

theorem inv2_commit (c : Committee) (s : Node) (b : Block) (h : Inv2 s) : Inv2 (commit c s b).1 := by
  unfold commit
  split
  · exact h
  · split
    · exact inv2_fail _ _ h
    · exact h
    · apply inv2_foldl_commit
      constructor <;> simp <;> grind [Inv2]

theorem inv2_makeVote (s : Node) (b : Block) (h1 : Inv1 s) (h : Inv2 s) : Inv2 (s.makeVote b).1 := by
  unfold makeVote
  split
  · exact inv2_fail _ _ h
  · split
    · rename_i hcond
      simp only [Bool.and_eq_true, decide_eq_true_eq] at hcond
      have hv := h1.voted
      have ht := h1.touts
      constructor <;> simp [votesOrd, makesOrd, propsOrd, enteredOrd, toutsOrd] <;> grind [Inv2]
    · exact h

theorem inv2_mempoolCleanup (s : Node) (r : Nat) (h : Inv2 s) : Inv2 (s.mempoolCleanup r) := by
  unfold mempoolCleanup
  apply inv2_emit_plain _ _ rfl
  constructor <;> simp <;> grind [Inv2]

theorem inv2_park (c : Committee) (s : Node) (b : Block) (h : Inv2 s) : Inv2 (park c s b) := by
  unfold park
  split
  · exact h
  · split
    · constructor <;> simp <;> grind [Inv2]
    · have h2 : Inv2 { s with syncPending := s.syncPending ++ [b],
                              syncRequests := s.syncRequests ++ [b.parent] } := by
        constructor <;> simp <;> grind [Inv2]
      split
      · exact inv2_emit_plain _ _ rfl h2
      · exact inv2_fail _ _ h2

theorem inv2_getParent (c : Committee) (s : Node) (b : Block) (h : Inv2 s) :
    Inv2 (getParent c s b).1 := by
  unfold getParent
  split
  · exact h
  · split
    · exact h
    · exact h
    · exact inv2_park c s b h

theorem inv2_sendVote (c : Committee) (s : Node) (v : Vote) (h1 : Inv1 s) (h : Inv2 s) :
    Inv2 (sendVote c s v) := by
  unfold sendVote
  split
  · exact inv2_handleVote c _ v (inv1_emit_untracked s _ rfl h1) (inv2_emit_plain s _ rfl h)
  · split
    · exact inv2_emit_plain s _ rfl h
    · exact inv2_fail _ _ h

theorem inv2_voteStage (c : Committee) (s : Node) (ok : Bool) (b : Block) (h1 : Inv1 s) (h : Inv2 s)
    (hb : b.qc.round < s.round ∧ b.qc.round ≤ s.highQC.round) : Inv2 (voteStage c s ok b) := by
  unfold voteStage
  split
  · exact h
  · split
    · exact h
    · rename_i hr
      have hr' : b.round = s.round := by simpa using hr
      have hm1 := inv1_makeVote s b h1 hb.1 hb.2 hr'
      have hm := inv2_makeVote s b h1 h
      split
      · rename_i s' heq
        rw [heq] at hm; exact hm
      · rename_i s' v heq
        rw [heq] at hm hm1
        exact inv2_sendVote c s' v hm1 hm

theorem inv2_afterStore (s : Node) (b0 b1 b : Block) (h : Inv2 s) : Inv2 (afterStore s b0 b1 b) := by
  unfold afterStore storeBlock
  constructor <;> simp <;> try grind [Inv2]
  · have := h.qSorted
    rw [List.pairwise_append]
    refine ⟨this, by simp, ?_⟩
    intro a _ b' hb'
    simp at hb'; subst hb'
    intro r r' _ hr'
    simp [makeRound] at hr'

theorem inv2_beforeCommit (s : Node) (b0 b1 b : Block) (h : Inv2 s) :
    Inv2 (beforeCommit s b0 b1 b) := by
  unfold beforeCommit
  exact inv2_emit_plain _ _ rfl (inv2_mempoolCleanup _ _ (inv2_afterStore s b0 b1 b h))

theorem inv2_processBlockTail (c : Committee) (s : Node) (b0 b1 b : Block) (h1 : Inv1 s) (h : Inv2 s)
    (hb : b.qc.round < s.round ∧ b.qc.round ≤ s.highQC.round) :
    Inv2 (processBlockTail c s b0 b1 b) := by
  unfold processBlockTail
  split
  · apply inv2_voteStage
    · exact inv1_commit c _ b0 (inv1_beforeCommit s b0 b1 b h1 hb)
    · exact inv2_commit c _ b0 (inv2_beforeCommit s b0 b1 b h)
    · have c1 := SameCore.trans (sameCore_beforeCommit s b0 b1 b) (sameCore_commit c (beforeCommit s b0 b1 b) b0)
      unfold SameCore at c1
      rw [c1.1, c1.2.1]; exact hb
  · apply inv2_voteStage
    · exact inv1_afterStore s b0 b1 b h1 hb
    · exact inv2_afterStore s b0 b1 b h
    · exact hb

theorem inv2_processBlock (c : Committee) (s : Node) (b : Block) (h1 : Inv1 s) (h : Inv2 s)
    (hb : b.qc.round < s.round ∧ b.qc.round ≤ s.highQC.round) : Inv2 (processBlock c s b) := by
  unfold processBlock
  have i1 := inv1_getParent c s b h1 hb
  have j1 := inv2_getParent c s b h
  have c1 := sameCore_getParent c s b
  split
  · exact j1
  · exact j1
  · rename_i b1 hb1
    have hb1s : b1.qc.round < s.round ∧ b1.qc.round ≤ s.highQC.round := by
      rcases getParent_found c s b b1 hb1 with rfl | hmem
      · simp [Block.genesis, QC.genesis]; have := h1.hq_lt; omega
      · apply h1.blocks
        simp [Node.pendingBlocks]
        right; right; right
        simpa using hmem
    have hb1' : b1.qc.round < (getParent c s b).1.round ∧
        b1.qc.round ≤ (getParent c s b).1.highQC.round := by
      unfold SameCore at c1; rw [c1.1, c1.2.1]; exact hb1s
    have i2 := inv1_getParent c _ b1 i1 hb1'
    have j2 := inv2_getParent c _ b1 j1
    have c2 := SameCore.trans c1 (sameCore_getParent c (getParent c s b).1 b1)
    split
    · exact inv2_fail _ _ j2
    · exact j2
    · apply inv2_processBlockTail c _ _ _ _ i2 j2
      unfold SameCore at c2; rw [c2.1, c2.2.1]; exact hb

theorem inv2_setPay (s : Node) (p : List (Block × List Nat)) (h : Inv2 s) :
    Inv2 { s with payPending := p } := by
  constructor <;> simp <;> grind [Inv2]

theorem inv2_payloadVerify (s : Node) (b : Block) (h : Inv2 s) : Inv2 (s.payloadVerify b).1 := by
  unfold payloadVerify
  simp only []
  split
  · exact h
  · split
    · exact inv2_emit_plain _ _ rfl h
    · exact inv2_setPay _ _ (inv2_emit_plain _ _ rfl h)

theorem inv2_proposalTail (c : Committee) (s : Node) (b : Block) (h1 : Inv1 s) (h : Inv2 s)
    (hb : b.qc.round < s.round ∧ b.qc.round ≤ s.highQC.round) : Inv2 (proposalTail c s b) := by
  unfold proposalTail
  have ip := inv1_payloadVerify s b h1 hb
  have jp := inv2_payloadVerify s b h
  have cp := sameCore_payloadVerify s b
  split
  · rename_i s3 heq; rw [heq] at jp; exact jp
  · rename_i s3 heq
    rw [heq] at ip jp cp
    apply inv2_processBlock c s3 b ip jp
    unfold SameCore at cp; rw [cp.1, cp.2.1]; exact hb

theorem inv2_advanceTC (s : Node) (tc : Option TC) (h : Inv2 s) : Inv2 (s.advanceTC tc) := by
  unfold advanceTC
  split
  · exact inv2_advanceRound _ _ _ h
  · exact h

theorem inv2_handleProposal (c : Committee) (s : Node) (b : Block) (h1 : Inv1 s) (h : Inv2 s) :
    Inv2 (s.handleProposal c b) := by
  unfold handleProposal
  split
  · exact h
  · split
    · exact h
    · have f1 := processQC_facts s b.qc
      have f2 := advanceTC_facts (s.processQC b.qc) b.tc
      apply inv2_proposalTail c _ b (inv1_advanceTC _ _ (inv1_processQC s b.qc h1))
        (inv2_advanceTC _ _ (inv2_processQC s b.qc h))
      rw [f2.2]; omega

theorem inv2_proposerStep (s : Node) (order : List Nat) (h1 : Inv1 s) (h : Inv2 s) :
    Inv2 (s.proposerStep order) := by
  unfold proposerStep
  split
  · exact h
  · rename_i ds rest hq
    have hs := h.qSorted
    rw [hq] at hs
    have hs' := (List.pairwise_cons.mp hs).2
    have hmem : ∀ m, m ∈ rest → m ∈ s.propQ := fun m hm => by rw [hq]; exact List.mem_cons_of_mem _ hm
    constructor <;> simp <;> grind [Inv2]
  · rename_i r qc tc rest hq
    split
    · exact h
    · have hs := h.qSorted
      rw [hq] at hs
      have hs' := List.pairwise_cons.mp hs
      have hmem : ∀ m, m ∈ rest → m ∈ s.propQ := fun m hm => by rw [hq]; exact List.mem_cons_of_mem _ hm
      have hhead : PMsg.make r qc tc ∈ s.propQ := by rw [hq]; simp
      have hmade := h.qMem r qc tc hhead
      constructor
      · simpa [votesOrd] using h.votes
      · simpa [makesOrd] using h.makes
      · simp only [emit_hist, propsOrd]
        refine ⟨?_, h.props⟩
        intro b' hb'
        exact h.qGt b' hb' r qc tc hhead
      · simpa [enteredOrd] using h.entered
      · simpa [toutsOrd] using h.touts
      · intro r' e hm; simp at hm; exact h.enteredLe r' e hm
      · simpa using hs'.2
      · intro b hb r' q t hm
        simp at hb hm
        rcases hb with hb | hb
        · subst hb
          have := hs'.1 _ hm r r' (by simp [makeRound]) (by simp [makeRound])
          simpa using this
        · exact h.qGt b hb r' q t (hmem _ hm)
      · intro r' q t hm
        simp at hm ⊢
        exact h.qMem r' q t (hmem _ hm)
      · intro b hb
        simp at hb
        rcases hb with hb | hb
        · subst hb; simp; exact hmade
        · simp; exact h.propMade b hb

theorem inv2_helperStep (c : Committee) (s : Node) (d : Digest) (o : Nat) (h : Inv2 s) :
    Inv2 (s.helperStep c d o) := by
  unfold helperStep
  split
  · exact h
  · split
    · exact inv2_emit_plain _ _ rfl h
    · exact h
    · split
      · exact h
      · exact inv2_fail _ _ h

theorem inv2_storeBatch (s : Node) (d : Nat) (h : Inv2 s) : Inv2 (s.storeBatch d) := by
  unfold storeBatch
  split
  · exact h
  · constructor <;> simp <;> grind [Inv2]

theorem inv2_digestStep (s : Node) (d : Nat) (h : Inv2 s) : Inv2 (s.digestStep d) := by
  unfold digestStep
  have h1 := inv2_storeBatch s d h
  split
  · exact h1
  · constructor <;> simp <;> grind [Inv2]

theorem inv2_step (c : Committee) (s : Node) (e : Event) (h1 : Inv1 s) (h : Inv2 s) :
    Inv2 (step c s e) := by
  unfold step
  split
  · exact h
  · split
    · exact inv2_handleProposal c s _ h1 h
    · exact inv2_handleVote c s _ h1 h
    · exact inv2_handleTimeout c s _ h1 h
    · exact inv2_handleTC c s _ h1 h
    · exact inv2_localTimeout c s h1 h
    · split
      · exact h
      · rename_i b rest hq
        have hb := h1.blocks b (by simp [Node.pendingBlocks, hq])
        refine inv2_processBlock c _ b ?_ ?_ hb
        · constructor <;> simp [Node.pendingBlocks] <;> grind [Inv1, Node.pendingBlocks]
        · constructor <;> simp <;> grind [Inv2]
    · exact inv2_proposerStep s _ h1 h
    · exact inv2_digestStep s _ h
    · exact inv2_storeBatch s _ h
    · split
      · exact h
      · split
        · exact h
        · constructor <;> simp <;> grind [Inv2]
    · split
      · exact h
      · split
        · constructor <;> simp <;> grind [Inv2]
        · exact h
    · split
      · exact inv2_emit_plain _ _ rfl h
      · exact h
    · exact inv2_helperStep c s _ _ h

theorem inv2_init (c : Committee) (name : Nat) : Inv2 (Node.init c name) := by
  unfold Node.init
  simp only []
  split <;> (constructor <;> simp [votesOrd, makesOrd, propsOrd, enteredOrd, toutsOrd, MakeLt])

theorem inv12_run (c : Committee) (s : Node) (es : List Event) (h1 : Inv1 s) (h : Inv2 s) :
    Inv1 (run c s es) ∧ Inv2 (run c s es) := by
  unfold run
  induction es generalizing s with
  | nil => exact ⟨h1, h⟩
  | cons e es ih => exact ih _ (inv1_step c s e h1) (inv2_step c s e h1 h)

end HS
