import HotstuffModel.Proofs.Bridge
import HotstuffModel.Proofs.CommitSeq
import HotstuffModel.Properties.C01
/-
C02, global part: in every reachable global state the delivery sequence of every honest node is
its committed chain from genesis — each delivered block's parent is the block delivered just
before it.  Combines the per-step specification of the commit channel (CommitSeq) with agreement.
-/
namespace HS
open Node

namespace Abs
variable {β : Type} (c : Ctx) (H : Hist β) (g : β)

theorem certified_parent (L : LocalInv c H g) {d : β} (hd : Certified c H d) :
    H.round (H.parent d) < H.round d ∧ (H.parent d = g ∨ Certified c H (H.parent d)) := by
  obtain ⟨S, hn, hs, hq, hv⟩ := hd
  obtain ⟨x, hx, hbx⟩ := quorum_has_honest c S hn hs hq
  have := L.justified x d hbx (hv x hx hbx)
  exact ⟨this.1, this.2.1⟩

theorem anc_genesis (hg : H.parent g = g) : ∀ k, anc H k g = g := by
  intro k; induction k with
  | zero => rfl
  | succ k ih => simp only [anc, hg]; exact ih

/-- Below a certified block every non-genesis ancestor is certified and rounds strictly decrease. -/
theorem anc_round (L : LocalInv c H g) (hg : H.parent g = g) :
    ∀ (k : Nat) (d e : β), Certified c H d → anc H k d = e → e ≠ g →
      H.round e + k ≤ H.round d ∧ Certified c H e := by
  intro k
  induction k with
  | zero => intro d e hd h _; simp only [anc] at h; subst h; exact ⟨by omega, hd⟩
  | succ k ih =>
    intro d e hd h hne
    simp only [anc] at h
    obtain ⟨hlt, hp⟩ := certified_parent c H g L hd
    rcases hp with hp | hp
    · rw [hp, anc_genesis H g hg] at h; exact absurd h.symm hne
    · have := ih (H.parent d) e hp h hne
      exact ⟨by omega, this.2⟩

/-- The junction argument: a newly delivered certified block `first` whose round exceeds the round of
the previously delivered certified block `prev`, and which attaches at that watermark, has `prev`
as its parent. -/
theorem junction (L : LocalInv c H g) (hg : H.parent g = g) {first prev : β}
    (hf : Certified c H first) (hp : Certified c H prev)
    (hcmp : Extends H first prev ∨ Extends H prev first)
    (hlt : H.round prev < H.round first)
    (hatt : H.round first = H.round prev + 1 ∨ H.round (H.parent first) ≤ H.round prev) :
    H.parent first = prev := by
  have hpne : prev ≠ g := by
    intro e; have := certified_round_pos c H g L hp; rw [e, L.genesis_round] at this; omega
  have hfne : first ≠ g := by
    intro e; have := certified_round_pos c H g L hf; rw [e, L.genesis_round] at this; omega
  rcases hcmp with ⟨k, hk⟩ | ⟨k, hk⟩
  · cases k with
    | zero => simp only [anc] at hk; rw [hk] at hlt; omega
    | succ k =>
      simp only [anc] at hk
      obtain ⟨hlt2, hpp⟩ := certified_parent c H g L hf
      rcases hpp with hpp | hpp
      · rw [hpp, anc_genesis H g hg] at hk; exact absurd hk.symm hpne
      · have := (anc_round c H g L hg k _ _ hpp hk hpne).1
        have hk0 : k = 0 := by rcases hatt with h | h <;> omega
        subst hk0
        simpa [anc] using hk
  · have := (anc_round c H g L hg k _ _ hp hk hfne).1
    omega

/-- … and the very first delivery sits directly on genesis. -/
theorem junction_first (L : LocalInv c H g) {first : β} (hf : Certified c H first)
    (hatt : H.round first = 1 ∨ H.round (H.parent first) = 0) : H.parent first = g := by
  obtain ⟨hlt, hpp⟩ := certified_parent c H g L hf
  rcases hpp with hpp | hpp
  · exact hpp
  · have := certified_round_pos c H g L hpp
    rcases hatt with h | h <;> omega

end Abs

/-- Oldest first: the first block sits on genesis and every block's parent hash is the digest of
the block delivered before it. -/
def ChainFromGenesis : List Block → Prop
  | [] => True
  | x :: l => x.qc.hash = Digest.zero ∧ Linked (x :: l)

theorem linked_append {A B : List Block} (hA : Linked A) (hB : Linked B)
    (hj : ∀ a b, A.getLast? = some a → B.head? = some b → b.qc.hash = a.digest) : Linked (A ++ B) := by
  induction A with
  | nil => simpa using hB
  | cons x A ih =>
    cases A with
    | nil =>
      cases B with
      | nil => simp [Linked]
      | cons y B =>
        simp only [List.cons_append, List.nil_append, Linked]
        exact ⟨hj x y (by simp) (by simp), hB⟩
    | cons x' A' =>
      simp only [List.cons_append, Linked] at hA ⊢
      refine ⟨hA.1, ?_⟩
      apply ih hA.2
      intro a b ha hb
      apply hj a b _ hb
      simpa [List.getLast?_cons_cons] using ha

/-- A delivered block is certified in the abstract history (it is a non-genesis ancestor of a
certified block). -/
theorem delivered_is_certified (X : World) (G : GState) (hR : Reach X G) (i : Nat) (hi : X.honest i)
    (x : Block) (hx : Out.commit x ∈ (G i).hist) :
    Abs.Certified (absCtx X) (absHist X G) x.digest := by
  obtain ⟨D, hcD, _, k, hk⟩ := C01.delivered_is_committed X G hR i hi x hx
  have L := reach_localInv X G hR
  exact (Abs.anc_round (absCtx X) (absHist X G) Digest.zero L rfl k D x.digest hcD hk
    (by simp [Block.digest])).2

/-- The delivery log of an honest node: the committed chain from genesis, and the watermark is the
round of its last entry. -/
def GoodLog (s : Node) : Prop :=
  ChainFromGenesis (commitsOf s.hist).reverse ∧
  s.lastCommitted = ((commitsOf s.hist).head?.map (·.round)).getD 0

theorem goodLog_init (c : Committee) (i : Nat) : GoodLog (Node.init c i) := by
  unfold Node.init GoodLog
  simp only []
  split <;> simp [commitsOf, ChainFromGenesis]

theorem reach_goodLog (X : World) (G : GState) (hR : Reach X G) : ∀ i, X.honest i → GoodLog (G i) := by
  induction hR with
  | init => intro i _; exact goodLog_init X.c i
  | step G j e hr hj hev ih =>
    intro i hi
    by_cases hij : i = j
    · subst hij
      rw [upd_same]
      have hR' : Reach X (upd G i (step X.c (G i) e)) := Reach.step G i e hr hj hev
      obtain ⟨_, _, _, h4, _⟩ := reach_local X G hr i hi
      obtain ⟨D, hc, hempty, hne⟩ := (cspec_step X.c (G i) e h4).run
      obtain ⟨hchain, hlc⟩ := ih i hi
      by_cases hD : D = []
      · subst hD
        simp only [List.reverse_nil, List.nil_append] at hc
        unfold GoodLog
        rw [hc, hempty rfl]
        exact ⟨hchain, hlc⟩
      · obtain ⟨hl, ⟨last, hlast, hlc'⟩, hall, first, rest, hDeq, hatt⟩ := hne hD
        -- static facts in the new global state
        have L := reach_localInv X _ hR'
        have hmemD : ∀ x ∈ D, Out.commit x ∈ (upd G i (step X.c (G i) e) i).hist := by
          intro x hx
          rw [upd_same]
          apply mem_commitsOf.mp
          rw [hc]; simp [hx]
        have hcertD : ∀ x ∈ D, Abs.Certified (absCtx X) (absHist X _) x.digest :=
          fun x hx => delivered_is_certified X _ hR' i hi x (hmemD x hx)
        have hfirst : first ∈ D := by rw [hDeq]; simp
        have hcf := hcertD first hfirst
        unfold GoodLog
        rw [hc, List.reverse_append, List.reverse_reverse]
        refine ⟨?_, ?_⟩
        · -- chain from genesis across the junction
          cases hold : (commitsOf (G i).hist) with
          | nil =>
            -- first delivery ever: it sits on genesis
            rw [hold] at hlc
            simp only [List.head?_nil, Option.map_none, Option.getD_none] at hlc
            simp only [List.reverse_nil, List.nil_append]
            rw [hDeq]
            refine ⟨?_, by rw [← hDeq]; exact hl⟩
            have hpar := Abs.junction_first (absCtx X) (absHist X _) Digest.zero L hcf (by
              rcases hatt with h | ⟨p, hp, hpr⟩
              · left; simp only [absHist, dRound_block]; omega
              · right
                simp only [absHist, dParent_block]
                rcases hp with ⟨hg, _⟩ | hp
                · have : first.qc.hash = .zero := by
                    have : first.qc.hash = .zero ∧ first.qc.round = 0 := by
                      simpa [QC.isGenesis, QC.same, QC.genesis] using hg
                    exact this.1
                  rw [this]; rfl
                · rw [← hp, dRound_block]; omega)
            simpa [absHist] using hpar
          | cons prev older =>
            rw [hold] at hlc hchain
            simp only [List.head?_cons, Option.map_some, Option.getD_some] at hlc
            have hprevmem : Out.commit prev ∈ (upd G i (step X.c (G i) e) i).hist := by
              rw [upd_same]
              apply mem_commitsOf.mp
              rw [hc, hold]; simp
            have hcp := delivered_is_certified X _ hR' i hi prev hprevmem
            have hcmp := C01.agreement X _ hR' i i hi hi first prev (hmemD first hfirst) hprevmem
            have hlt : prev.round < first.round := by rw [← hlc]; exact (hall first hfirst).1
            have hpar := Abs.junction (absCtx X) (absHist X _) Digest.zero L rfl hcf hcp
              (by
                rcases hcmp with h | h
                · left; exact extends_of_mem_chain X _ h
                · right; exact extends_of_mem_chain X _ h)
              (by simpa [absHist] using hlt)
              (by
                rcases hatt with h | ⟨p, hp, hpr⟩
                · left; simp only [absHist, dRound_block]; omega
                · right
                  simp only [absHist, dParent_block, dRound_block]
                  rcases hp with ⟨hg, _⟩ | hp
                  · have : first.qc.hash = .zero := by
                      have : first.qc.hash = .zero ∧ first.qc.round = 0 := by
                        simpa [QC.isGenesis, QC.same, QC.genesis] using hg
                      exact this.1
                    rw [this]; simp [dRound]
                  · rw [← hp, dRound_block]; omega)
            have hjoin : first.qc.hash = prev.digest := by simpa [absHist] using hpar
            -- assemble
            have hrev : (prev :: older).reverse = older.reverse ++ [prev] := by simp
            rw [hrev]
            have holdchain : ChainFromGenesis (older.reverse ++ [prev]) := by rw [← hrev]; exact hchain
            have hlinked : Linked ((older.reverse ++ [prev]) ++ D) := by
              apply linked_append
              · cases hh : older.reverse ++ [prev] with
                | nil => simp at hh
                | cons y l => rw [hh] at holdchain; exact holdchain.2
              · exact hl
              · intro a b ha hb
                have : a = prev := by simpa using ha.symm
                have hb' : b = first := by rw [hDeq] at hb; simpa using hb.symm
                rw [this, hb']; exact hjoin
            cases hh : older.reverse ++ [prev] with
            | nil => simp at hh
            | cons y l =>
              rw [hh] at holdchain hlinked
              simp only [List.cons_append] at hlinked ⊢
              exact ⟨holdchain.1, hlinked⟩
        · -- watermark
          rw [hlc']
          have : (D.reverse ++ commitsOf (G i).hist).head? = some last := by
            have hr : D.reverse.head? = D.getLast? := by simp [List.head?_reverse]
            cases hdr : D.reverse with
            | nil => simp at hdr; exact absurd hdr hD
            | cons z l =>
              rw [hdr] at hr
              simp only [List.cons_append, List.head?_cons] at hr ⊢
              rw [hr, hlast]
          rw [this]; rfl
    · rw [upd_other _ _ _ _ hij]; exact ih i hi

end HS
