import HotstuffModel.Model.Preimage
import HotstuffModel.Proofs.Bincode
/-!
Injectivity and length lemmas for the digest pre-images.
-/
namespace HS.Wire

/-- Length of a concatenation of 32-byte strings. -/
theorem flatten_length_32 (p : List (List UInt8)) (h : ∀ d ∈ p, d.length = 32) :
    p.flatten.length = 32 * p.length := by
  induction p with
  | nil => rfl
  | cons d p ih =>
    simp only [List.flatten_cons, List.length_append, List.length_cons]
    rw [h d (by simp), ih (fun x hx => h x (by simp [hx]))]
    omega

/-- A concatenation of 32-byte strings determines the strings. -/
theorem flatten_inj_32 (p q : List (List UInt8)) (hp : ∀ d ∈ p, d.length = 32)
    (hq : ∀ d ∈ q, d.length = 32) (h : p.flatten = q.flatten) : p = q := by
  induction p generalizing q with
  | nil =>
    cases q with
    | nil => rfl
    | cons e q =>
      have := congrArg List.length h
      rw [flatten_length_32 _ hq] at this
      simp at this
  | cons d p ih =>
    cases q with
    | nil =>
      have := congrArg List.length h
      rw [flatten_length_32 _ hp] at this
      simp at this
    | cons e q =>
      simp only [List.flatten_cons] at h
      have hd := hp d (by simp)
      have he := hq e (by simp)
      obtain ⟨h1, h2⟩ := List.append_inj h (by rw [hd, he])
      rw [h1, ih q (fun x hx => hp x (by simp [hx])) (fun x hx => hq x (by simp [hx])) h2]

theorem blockPre_length (a : List UInt8) (r : Nat) (p : List (List UInt8)) (q : List UInt8)
    (ha : a.length = 32) (hp : ∀ d ∈ p, d.length = 32) (hq : q.length = 32) :
    (blockPre a r p q).length = 72 + 32 * p.length := by
  unfold blockPre
  simp only [List.length_append, le64_length, flatten_length_32 p hp, ha, hq]
  omega

theorem votePre_length (h : List UInt8) (r : Nat) (hh : h.length = 32) : (votePre h r).length = 40 := by
  unfold votePre
  simp [hh]

theorem timeoutPre_length (r q : Nat) : (timeoutPre r q).length = 16 := by
  unfold timeoutPre
  simp

theorem blockPre_inj (a a' : List UInt8) (r r' : Nat) (p p' : List (List UInt8)) (q q' : List UInt8)
    (ha : a.length = 32) (ha' : a'.length = 32) (hr : r < 2 ^ 64) (hr' : r' < 2 ^ 64)
    (hp : ∀ d ∈ p, d.length = 32) (hp' : ∀ d ∈ p', d.length = 32)
    (hq : q.length = 32) (hq' : q'.length = 32)
    (h : blockPre a r p q = blockPre a' r' p' q') : a = a' ∧ r = r' ∧ p = p' ∧ q = q' := by
  have hlen := congrArg List.length h
  rw [blockPre_length a r p q ha hp hq, blockPre_length a' r' p' q' ha' hp' hq'] at hlen
  unfold blockPre at h
  simp only [List.append_assoc] at h
  obtain ⟨h1, h⟩ := List.append_inj h (by rw [ha, ha'])
  obtain ⟨h2, h⟩ := List.append_inj h (by simp)
  have hfl : p.flatten.length = p'.flatten.length := by
    rw [flatten_length_32 p hp, flatten_length_32 p' hp']; omega
  obtain ⟨h3, h4⟩ := List.append_inj h hfl
  exact ⟨h1, le64_inj r r' hr hr' h2, flatten_inj_32 p p' hp hp' h3, h4⟩

theorem votePre_inj (h h' : List UInt8) (r r' : Nat) (hh : h.length = 32) (hh' : h'.length = 32)
    (hr : r < 2 ^ 64) (hr' : r' < 2 ^ 64) (e : votePre h r = votePre h' r') : h = h' ∧ r = r' := by
  unfold votePre at e
  obtain ⟨h1, h2⟩ := List.append_inj e (by rw [hh, hh'])
  exact ⟨h1, le64_inj r r' hr hr' h2⟩

theorem timeoutPre_inj (r r' q q' : Nat) (hr : r < 2 ^ 64) (hr' : r' < 2 ^ 64) (hq : q < 2 ^ 64)
    (hq' : q' < 2 ^ 64) (e : timeoutPre r q = timeoutPre r' q') : r = r' ∧ q = q' := by
  unfold timeoutPre at e
  obtain ⟨h1, h2⟩ := List.append_inj e (by simp)
  exact ⟨le64_inj r r' hr hr' h1, le64_inj q q' hq hq' h2⟩

end HS.Wire
