import HotstuffModel.Model.ReliableSender
/-!
# Invariants of the reliable-sender model (helper lemmas for Properties/C14.lean)

`InvH` — what the sender holds (`held = pending ++ writing ++ buffer ++ chan`) against the hand-over
order; `InvP` — frames / consumed responses / resolutions per connection.  Both hold in `init` and are
preserved by every event, hence hold in every reachable state.
-/
namespace HS.RS

theorem dropWhile_filter_not (p : Nat → Bool) (l : List Nat) :
    (l.dropWhile p).filter (fun x => !p x) = l.filter (fun x => !p x) := by
  induction l with
  | nil => rfl
  | cons a t ih => by_cases h : p a <;> simp [h, ih]

theorem mem_dropWhile_of_not (p : Nat → Bool) (l : List Nat) (x : Nat) (hx : x ∈ l) (hp : p x = false) :
    x ∈ l.dropWhile p := by
  induction l with
  | nil => cases hx
  | cons a t ih =>
    by_cases h : p a
    · simp [h]
      rcases List.mem_cons.1 hx with rfl | hx
      · simp [h] at hp
      · exact ih hx
    · simpa [h] using hx

theorem head_dropWhile_not (p : Nat → Bool) (l : List Nat) (m : Nat) (rest : List Nat)
    (h : l.dropWhile p = m :: rest) : p m = false := by
  induction l with
  | nil => simp at h
  | cons a t ih =>
    by_cases ha : p a
    · simp [ha] at h; exact ih h
    · simp [ha] at h; rcases h with ⟨rfl, _⟩; simpa using ha

/-- Shape of one step as far as `held`, `handed`, `closed` and the consumed responses are concerned. -/
inductive Shape (s s' : State) (o : List Out) : Prop
  | quiet (hh : s'.handed = s.handed) (hc : s'.closed = s.closed) (ha : acked o = [])
      (sub : s'.held.Sublist s.held) (keep : ∀ m ∈ s.held, m ∉ s.closed → m ∈ s'.held)
  | ack (m : Nat) (rest : List Nat) (hh : s'.handed = s.handed) (hc : s'.closed = s.closed) (ha : acked o = [m])
      (hd : s.held = m :: rest) (sub : s'.held.Sublist rest) (keep : ∀ x ∈ rest, x ∉ s.closed → x ∈ s'.held)
      (hres : m ∉ s.closed → ∃ b, Out.resolve m b ∈ o)
  | send (id : Nat) (hid : id ∉ s.handed) (hh : s'.handed = s.handed ++ [id]) (hc : s'.closed = s.closed)
      (ha : acked o = []) (hd : s'.held = s.held ++ [id])
  | cancel (id : Nat) (hh : s'.handed = s.handed) (hc : s'.closed = id :: s.closed) (ha : acked o = [])
      (hd : s'.held = s.held)

local macro "quiet_refl" : tactic =>
  `(tactic| exact Shape.quiet rfl rfl rfl (List.Sublist.refl _) (fun _ h _ => h))

theorem shape_step (s : State) (e : Event) : Shape s (step s e) (outs s e) := by
  cases e with
  | send id =>
    by_cases h : id ∈ s.handed
    · simp only [step, outs, stepCore, h, if_true]
      exact .quiet rfl rfl rfl (List.Sublist.refl _) (fun _ h _ => h)
    · simp only [step, outs, stepCore, h, if_false]
      exact .send id h rfl rfl rfl (by simp [State.held])
  | cancel id =>
    by_cases h : id ∈ s.handed ∧ id ∉ s.closed
    · simp only [step, outs, stepCore, h]
      exact .cancel id rfl rfl rfl rfl
    · simp only [step, outs, stepCore, h, if_false]
      exact .quiet rfl rfl rfl (List.Sublist.refl _) (fun _ h _ => h)
  | connectOk =>
    simp only [step, outs, stepCore]
    split <;> exact .quiet rfl rfl rfl (List.Sublist.refl _) (fun _ h _ => h)
  | connectFail =>
    simp only [step, outs, stepCore]
    split <;> exact .quiet rfl rfl rfl (List.Sublist.refl _) (fun _ h _ => h)
  | timerFired =>
    simp only [step, outs, stepCore]
    split <;> exact .quiet rfl rfl rfl (List.Sublist.refl _) (fun _ h _ => h)
  | recvMsg =>
    simp only [step, outs, stepCore]
    split
    · quiet_refl
    · rename_i m rest hch
      split
      · quiet_refl
      · -- waiting: push_back + retain
        refine .quiet rfl rfl rfl ?_ ?_
        · simp only [State.held, hch]
          have : ((s.buffer ++ [m]).filter (fun x => !s.isClosed x) ++ rest).Sublist (s.buffer ++ m :: rest) := by
            have h1 : ((s.buffer ++ [m]).filter (fun x => !s.isClosed x)).Sublist (s.buffer ++ [m]) := List.filter_sublist
            have := h1.append (List.Sublist.refl rest)
            simpa using this
          simpa [List.append_assoc] using (List.Sublist.refl (s.pending ++ s.writing.toList)).append this
        · intro x hx hcl
          simp only [State.held, hch, List.mem_append, List.mem_cons, List.mem_filter] at hx ⊢
          simp only [State.isClosed, hcl, decide_false, Bool.not_false, and_true]
          rcases hx with ((hx | hx) | hx) | hx
          · exact Or.inl (Or.inl (Or.inl hx))
          · exact Or.inl (Or.inl (Or.inr hx))
          · exact Or.inl (Or.inr (Or.inl hx))
          · rcases hx with rfl | hx
            · exact Or.inl (Or.inr (Or.inr (Or.inl rfl)))
            · exact Or.inr hx
      · split
        · rename_i hw hd
          refine .quiet rfl rfl rfl ?_ ?_
          · simp only [State.held, hch, hw]
            simp [List.append_assoc]
          · intro x hx hcl
            simp only [State.held, hch, hw, List.mem_append, List.mem_cons] at hx ⊢
            rcases hx with ((hx | hx) | hx) | hx
            · exact Or.inl (Or.inl (Or.inl hx))
            · exact Or.inl (Or.inl (Or.inr hx))
            · have := mem_dropWhile_of_not s.isClosed s.buffer x hx (by simp [State.isClosed, hcl])
              simp only [State.drained] at hd
              rw [hd] at this; cases this
            · rcases hx with rfl | hx
              · exact Or.inl (Or.inr (Or.inl rfl))
              · exact Or.inr hx
        · quiet_refl
  | writeBegin =>
    simp only [step, outs, stepCore]
    split
    · rename_i hm hw
      split
      · rename_i hd
        refine .quiet rfl rfl rfl ?_ ?_
        · simp only [State.held, hw]
          simp [List.append_assoc]
        · intro x hx hcl
          simp only [State.held, hw, List.mem_append] at hx ⊢
          rcases hx with ((hx | hx) | hx) | hx
          · exact Or.inl (Or.inl (Or.inl hx))
          · exact Or.inl (Or.inl (Or.inr hx))
          · have := mem_dropWhile_of_not s.isClosed s.buffer x hx (by simp [State.isClosed, hcl])
            simp only [State.drained] at hd
            rw [hd] at this; cases this
          · exact Or.inr hx
      · rename_i m rest hd
        simp only [State.drained] at hd
        refine .quiet rfl rfl rfl ?_ ?_
        · simp only [State.held, hw]
          have : (m :: rest).Sublist s.buffer := hd ▸ List.dropWhile_sublist _
          simpa [List.append_assoc] using
            ((List.Sublist.refl s.pending).append this).append (List.Sublist.refl s.chan)
        · intro x hx hcl
          simp only [State.held, hw, List.mem_append] at hx ⊢
          rcases hx with ((hx | hx) | hx) | hx
          · exact Or.inl (Or.inl (Or.inl hx))
          · simp at hx
          · have := mem_dropWhile_of_not s.isClosed s.buffer x hx (by simp [State.isClosed, hcl])
            rw [hd] at this
            rcases List.mem_cons.1 this with rfl | h
            · exact Or.inl (Or.inl (Or.inr (by simp)))
            · exact Or.inl (Or.inr h)
          · exact Or.inr hx
    · quiet_refl
  | writeOk =>
    simp only [step, outs, stepCore]
    split
    · rename_i m hm hw
      refine .quiet rfl rfl rfl ?_ ?_
      · simp [State.held, hw]
      · intro x hx _
        simpa [State.held, hw] using hx
    · quiet_refl
  | writeFail =>
    simp only [step, outs, stepCore]
    split
    · rename_i m hm hw
      refine .quiet rfl rfl rfl ?_ ?_
      · simp [State.held, hw, teardown]
      · intro x hx _
        simpa [State.held, hw, teardown] using hx
    · quiet_refl
  | ackRead b =>
    simp only [step, outs, stepCore]
    split
    · rename_i hm hw hd
      simp only [State.drained] at hd
      have hbuf : ∀ x ∈ s.buffer, x ∉ s.closed → False := by
        intro x hx hcl
        have := mem_dropWhile_of_not s.isClosed s.buffer x hx (by simp [State.isClosed, hcl])
        rw [hd] at this; cases this
      split
      · rename_i hp
        refine .quiet rfl rfl rfl ?_ ?_
        · simp [State.held, hw, hp, teardown]
        · intro x hx hcl
          simp only [State.held, hw, hp, teardown, List.mem_append] at hx ⊢
          rcases hx with ((hx | hx) | hx) | hx
          · cases hx
          · simp at hx
          · exact (hbuf x hx hcl).elim
          · exact Or.inr hx
      · rename_i m rest hp
        refine .ack m (rest ++ s.buffer ++ s.chan) rfl rfl ?_ ?_ ?_ ?_
          (fun hcl => ⟨b, by simp [State.isClosed, hcl]⟩)
        · simp only [acked]; split <;> simp
        · simp [State.held, hw, hp]
        · simp only [State.held, hw]
          simp
        · intro x hx hcl
          simp only [State.held, List.mem_append] at hx ⊢
          rcases hx with (hx | hx) | hx
          · simp [hx]
          · exact (hbuf x hx hcl).elim
          · exact Or.inr hx
    · quiet_refl
  | readClosed =>
    simp only [step, outs, stepCore]
    split
    · rename_i hm hw hd
      simp only [State.drained] at hd
      have hbuf : ∀ x ∈ s.buffer, x ∉ s.closed → False := by
        intro x hx hcl
        have := mem_dropWhile_of_not s.isClosed s.buffer x hx (by simp [State.isClosed, hcl])
        rw [hd] at this; cases this
      refine .quiet rfl rfl rfl ?_ ?_
      · simp [State.held, hw, teardown]
      · intro x hx hcl
        simp only [State.held, hw, teardown, List.mem_append] at hx ⊢
        rcases hx with ((hx | hx) | hx) | hx
        · simp [hx]
        · simp at hx
        · exact (hbuf x hx hcl).elim
        · exact Or.inr hx
    · quiet_refl


theorem step_trace (s : State) (e : Event) : (step s e).trace = s.trace ++ outs s e := rfl

theorem acked_append (a b : List Out) : acked (a ++ b) = acked a ++ acked b := by
  simp [acked, List.filterMap_append]

structure InvH (s : State) : Prop where
  nodupH : s.handed.Nodup
  sub : s.held.Sublist s.handed
  keep : ∀ m ∈ s.handed, m ∉ s.closed → m ∉ acked s.trace → m ∈ s.held
  fresh : ∀ m ∈ s.held, m ∉ acked s.trace
  ackedNodup : (acked s.trace).Nodup
  ackedH : ∀ m ∈ acked s.trace, m ∈ s.handed

theorem invH_init : InvH init := by
  constructor <;> simp [init, State.held, acked]

theorem invH_step (s : State) (e : Event) (h : InvH s) : InvH (step s e) := by
  have hs := shape_step s e
  have ht := step_trace s e
  cases hs with
  | quiet hh hc ha sub keep =>
    have hacked : acked (step s e).trace = acked s.trace := by rw [ht, acked_append, ha]; simp
    constructor
    · rw [hh]; exact h.nodupH
    · rw [hh]; exact sub.trans h.sub
    · intro m hm hcl hak
      rw [hh] at hm; rw [hc] at hcl; rw [hacked] at hak
      exact keep m (h.keep m hm hcl hak) hcl
    · intro m hm; rw [hacked]; exact h.fresh m (sub.subset hm)
    · rw [hacked]; exact h.ackedNodup
    · intro m hm; rw [hacked] at hm; rw [hh]; exact h.ackedH m hm
  | ack m rest hh hc ha hd sub keep _ =>
    have hacked : acked (step s e).trace = acked s.trace ++ [m] := by rw [ht, acked_append, ha]
    have hnd : (m :: rest).Nodup := hd ▸ h.nodupH.sublist h.sub
    have hmheld : m ∈ s.held := by rw [hd]; simp
    constructor
    · rw [hh]; exact h.nodupH
    · rw [hh]; exact (sub.trans (List.sublist_cons_self m rest)).trans (hd ▸ h.sub)
    · intro x hx hcl hak
      rw [hh] at hx; rw [hc] at hcl; rw [hacked] at hak
      simp only [List.mem_append, List.mem_singleton, not_or] at hak
      have := h.keep x hx hcl hak.1
      rw [hd] at this
      rcases List.mem_cons.1 this with rfl | hr
      · exact (hak.2 rfl).elim
      · exact keep x hr hcl
    · intro x hx
      rw [hacked]
      have hxr := sub.subset hx
      simp only [List.mem_append, List.mem_singleton, not_or]
      refine ⟨h.fresh x (by rw [hd]; exact List.mem_cons_of_mem _ hxr), ?_⟩
      rintro rfl
      exact (List.nodup_cons.1 hnd).1 hxr
    · rw [hacked]
      refine List.nodup_append.2 ⟨h.ackedNodup, by simp, ?_⟩
      intro a hx b hb
      simp only [List.mem_singleton] at hb
      rintro rfl
      subst hb
      exact h.fresh _ hmheld hx
    · intro x hx; rw [hacked] at hx; rw [hh]
      rcases List.mem_append.1 hx with hx | hx
      · exact h.ackedH x hx
      · simp only [List.mem_singleton] at hx; subst hx; exact h.sub.subset hmheld
  | send id hid hh hc ha hd =>
    have hacked : acked (step s e).trace = acked s.trace := by rw [ht, acked_append, ha]; simp
    constructor
    · rw [hh]; exact List.nodup_append.2 ⟨h.nodupH, by simp, by
        intro a hx b hb; simp only [List.mem_singleton] at hb; rintro rfl; subst hb; exact hid hx⟩
    · rw [hh, hd]; exact h.sub.append (List.Sublist.refl _)
    · intro m hm hcl hak
      rw [hh] at hm; rw [hc] at hcl; rw [hacked] at hak; rw [hd]
      rcases List.mem_append.1 hm with hm | hm
      · exact List.mem_append_left _ (h.keep m hm hcl hak)
      · exact List.mem_append_right _ hm
    · intro m hm; rw [hacked]; rw [hd] at hm
      rcases List.mem_append.1 hm with hm | hm
      · exact h.fresh m hm
      · simp only [List.mem_singleton] at hm; subst hm
        exact fun hc => hid (h.ackedH _ hc)
    · rw [hacked]; exact h.ackedNodup
    · intro m hm; rw [hacked] at hm; rw [hh]; exact List.mem_append_left _ (h.ackedH m hm)
  | cancel id hh hc ha hd =>
    have hacked : acked (step s e).trace = acked s.trace := by rw [ht, acked_append, ha]; simp
    constructor
    · rw [hh]; exact h.nodupH
    · rw [hh, hd]; exact h.sub
    · intro m hm hcl hak
      rw [hh] at hm; rw [hc] at hcl; rw [hacked] at hak; rw [hd]
      exact h.keep m hm (fun hx => hcl (List.mem_cons_of_mem _ hx)) hak
    · intro m hm; rw [hacked]; rw [hd] at hm; exact h.fresh m hm
    · rw [hacked]; exact h.ackedNodup
    · intro m hm; rw [hacked] at hm; rw [hh]; exact h.ackedH m hm


def allAcks (tr : List Out) : List (Nat × Nat) :=
  tr.filterMap (fun o => match o with | .ackd _ id b => some (id, b) | _ => none)

structure InvP (s : State) : Prop where
  idle : s.mode ≠ .connected → s.pending = [] ∧ s.writing = none
  future : ∀ c, s.connNo < c → framesOn c s.trace = [] ∧ acksOn c s.trace = []
  cur : s.mode = .connected → framesOn s.connNo s.trace = (acksOn s.connNo s.trace).map Prod.fst ++ s.pending
  pref : ∀ c, (acksOn c s.trace).map Prod.fst <+: framesOn c s.trace
  pendW : ∀ m ∈ s.pending, m ∈ written s.trace
  ackW : ∀ m ∈ acked s.trace, m ∈ written s.trace
  res : ∀ p ∈ resolved s.trace, ∃ c, p ∈ acksOn c s.trace
  resSub : (resolved s.trace).Sublist (allAcks s.trace)

theorem invP_init : InvP init := by
  constructor <;> simp [init, framesOn, acksOn, written, acked, resolved, allAcks]

theorem sameTraceP (s s' : State) (h : InvP s) (ht : s'.trace = s.trace ++ [])
    (hidle : s'.mode ≠ .connected → s'.pending = [] ∧ s'.writing = none)
    (hfut : ∀ c, s'.connNo < c → framesOn c s.trace = [] ∧ acksOn c s.trace = [])
    (hcur : s'.mode = .connected →
      framesOn s'.connNo s.trace = (acksOn s'.connNo s.trace).map Prod.fst ++ s'.pending)
    (hpend : ∀ m ∈ s'.pending, m ∈ written s.trace) : InvP s' := by
  simp only [List.append_nil] at ht
  constructor
  · exact hidle
  · rw [ht]; exact hfut
  · rw [ht]; exact hcur
  · rw [ht]; exact h.pref
  · rw [ht]; exact hpend
  · rw [ht]; exact h.ackW
  · rw [ht]; exact h.res
  · rw [ht]; exact h.resSub

theorem quietP (s s' : State) (h : InvP s) (ht : s'.trace = s.trace ++ []) (hp : s'.pending = s.pending)
    (hw : s'.writing = s.writing) (hm : s'.mode = s.mode) (hc : s'.connNo = s.connNo) : InvP s' :=
  sameTraceP s s' h ht (by rw [hm, hp, hw]; exact h.idle) (by rw [hc]; exact h.future)
    (by rw [hm, hc, hp]; exact h.cur) (by rw [hp]; exact h.pendW)

theorem framesOn_append (c : Nat) (a b : List Out) : framesOn c (a ++ b) = framesOn c a ++ framesOn c b := by
  simp [framesOn, List.filterMap_append]
theorem acksOn_append (c : Nat) (a b : List Out) : acksOn c (a ++ b) = acksOn c a ++ acksOn c b := by
  simp [acksOn, List.filterMap_append]
theorem written_append (a b : List Out) : written (a ++ b) = written a ++ written b := by
  simp [written, List.filterMap_append]
theorem resolved_append (a b : List Out) : resolved (a ++ b) = resolved a ++ resolved b := by
  simp [resolved, List.filterMap_append]
theorem allAcks_append (a b : List Out) : allAcks (a ++ b) = allAcks a ++ allAcks b := by
  simp [allAcks, List.filterMap_append]

@[simp] theorem framesOn_nil (c : Nat) : framesOn c [] = [] := rfl
@[simp] theorem framesOn_frame (c c' id : Nat) (l : List Out) :
    framesOn c (.frame c' id :: l) = if c' = c then id :: framesOn c l else framesOn c l := by
  simp only [framesOn]; split <;> simp_all
@[simp] theorem framesOn_ackd (c c' id b : Nat) (l : List Out) : framesOn c (.ackd c' id b :: l) = framesOn c l := by
  simp [framesOn]
@[simp] theorem framesOn_resolve (c id b : Nat) (l : List Out) : framesOn c (.resolve id b :: l) = framesOn c l := by
  simp [framesOn]
@[simp] theorem acksOn_nil (c : Nat) : acksOn c [] = [] := rfl
@[simp] theorem acksOn_frame (c c' id : Nat) (l : List Out) : acksOn c (.frame c' id :: l) = acksOn c l := by
  simp [acksOn]
@[simp] theorem acksOn_ackd (c c' id b : Nat) (l : List Out) :
    acksOn c (.ackd c' id b :: l) = if c' = c then (id, b) :: acksOn c l else acksOn c l := by
  simp only [acksOn]; split <;> simp_all
@[simp] theorem acksOn_resolve (c id b : Nat) (l : List Out) : acksOn c (.resolve id b :: l) = acksOn c l := by
  simp [acksOn]
@[simp] theorem written_nil : written [] = [] := rfl
@[simp] theorem written_frame (c id : Nat) (l : List Out) : written (.frame c id :: l) = id :: written l := by
  simp [written]
@[simp] theorem written_ackd (c id b : Nat) (l : List Out) : written (.ackd c id b :: l) = written l := by
  simp [written]
@[simp] theorem written_resolve (id b : Nat) (l : List Out) : written (.resolve id b :: l) = written l := by
  simp [written]
@[simp] theorem acked_nil : acked [] = [] := rfl
@[simp] theorem acked_frame (c id : Nat) (l : List Out) : acked (.frame c id :: l) = acked l := by
  simp [acked]
@[simp] theorem acked_ackd (c id b : Nat) (l : List Out) : acked (.ackd c id b :: l) = id :: acked l := by
  simp [acked]
@[simp] theorem acked_resolve (id b : Nat) (l : List Out) : acked (.resolve id b :: l) = acked l := by
  simp [acked]
@[simp] theorem resolved_nil : resolved [] = [] := rfl
@[simp] theorem resolved_frame (c id : Nat) (l : List Out) : resolved (.frame c id :: l) = resolved l := by
  simp [resolved]
@[simp] theorem resolved_ackd (c id b : Nat) (l : List Out) : resolved (.ackd c id b :: l) = resolved l := by
  simp [resolved]
@[simp] theorem resolved_resolve (id b : Nat) (l : List Out) : resolved (.resolve id b :: l) = (id, b) :: resolved l := by
  simp [resolved]
@[simp] theorem allAcks_nil : allAcks [] = [] := rfl
@[simp] theorem allAcks_frame (c id : Nat) (l : List Out) : allAcks (.frame c id :: l) = allAcks l := by
  simp [allAcks]
@[simp] theorem allAcks_ackd (c id b : Nat) (l : List Out) : allAcks (.ackd c id b :: l) = (id, b) :: allAcks l := by
  simp [allAcks]
@[simp] theorem allAcks_resolve (id b : Nat) (l : List Out) : allAcks (.resolve id b :: l) = allAcks l := by
  simp [allAcks]

theorem invP_step (s : State) (e : Event) (h : InvP s) : InvP (step s e) := by
  cases e with
  | send id =>
    simp only [step, stepCore]; split <;> exact quietP s _ h rfl rfl rfl rfl rfl
  | cancel id =>
    simp only [step, stepCore]; split <;> exact quietP s _ h rfl rfl rfl rfl rfl
  | connectFail =>
    simp only [step, stepCore]; split
    · rename_i hm
      have hi := h.idle (by simp [hm])
      exact sameTraceP s _ h rfl (fun _ => hi) h.future (by simp) h.pendW
    · exact quietP s _ h rfl rfl rfl rfl rfl
  | timerFired =>
    simp only [step, stepCore]; split
    · rename_i hm
      have hi := h.idle (by simp [hm])
      exact sameTraceP s _ h rfl (fun _ => hi) h.future (by simp) h.pendW
    · exact quietP s _ h rfl rfl rfl rfl rfl
  | connectOk =>
    simp only [step, stepCore]; split
    · rename_i hm
      have hi := h.idle (by simp [hm])
      have hf := h.future (s.connNo + 1) (by omega)
      refine sameTraceP s _ h rfl (by simp) (fun c hc => h.future c (by simp at hc; omega)) ?_ h.pendW
      intro _; simp [hf.1, hf.2, hi.1]
    · exact quietP s _ h rfl rfl rfl rfl rfl
  | recvMsg =>
    simp only [step, stepCore]; split
    · exact quietP s _ h rfl rfl rfl rfl rfl
    · split
      · exact quietP s _ h rfl rfl rfl rfl rfl
      · exact quietP s _ h rfl rfl rfl rfl rfl
      · split <;> exact quietP s _ h rfl rfl rfl rfl rfl
  | writeBegin =>
    simp only [step, stepCore]; split
    · rename_i hm hw
      split
      · exact quietP s _ h rfl rfl rfl rfl rfl
      · exact sameTraceP s _ h rfl (by simp [hm]) h.future h.cur h.pendW
    · exact quietP s _ h rfl rfl rfl rfl rfl
  | writeFail =>
    simp only [step, stepCore]; split
    · exact sameTraceP s _ h rfl (by simp [teardown]) h.future (by simp [teardown]) (by simp [teardown])
    · exact quietP s _ h rfl rfl rfl rfl rfl
  | readClosed =>
    simp only [step, stepCore]; split
    · rename_i hm hw hd
      exact sameTraceP s _ h rfl (by simp [teardown, hw]) h.future (by simp [teardown]) (by simp [teardown])
    · exact quietP s _ h rfl rfl rfl rfl rfl
  | writeOk =>
    simp only [step, stepCore]; split
    · rename_i m hm hw
      constructor <;> dsimp only
      · simp [hm]
      · intro c hc
        have := h.future c hc
        have hne : ¬ s.connNo = c := by omega
        simp [framesOn_append, acksOn_append, this.1, this.2, hne]
      · intro _
        simp [framesOn_append, acksOn_append, h.cur hm]
      · intro c
        simp only [framesOn_append, acksOn_append, acksOn_frame, acksOn_nil, List.append_nil]
        exact (h.pref c).trans (List.prefix_append _ _)
      · intro x hx
        simp only [written_append, List.mem_append] at hx ⊢
        rcases hx with hx | hx
        · exact Or.inl (h.pendW x hx)
        · right; simp at hx; subst hx; simp
      · intro x hx
        simp only [acked_append, written_append, List.mem_append] at hx ⊢
        rcases hx with hx | hx
        · exact Or.inl (h.ackW x hx)
        · simp at hx
      · intro p hp
        simp only [resolved_append, List.mem_append] at hp
        rcases hp with hp | hp
        · obtain ⟨c, hc⟩ := h.res p hp
          exact ⟨c, by simp [acksOn_append, hc]⟩
        · simp at hp
      · simp only [resolved_append, allAcks_append]
        exact h.resSub.append (by simp)
    · exact quietP s _ h rfl rfl rfl rfl rfl
  | ackRead b =>
    simp only [step, stepCore]; split
    · rename_i hm hw hd
      split
      · exact sameTraceP s _ h rfl (by simp [teardown, hw]) h.future (by simp [teardown]) (by simp [teardown])
      · rename_i m rest hp
        have hcur := h.cur hm
        rw [hp] at hcur
        constructor <;> dsimp only
        · simp [hm]
        · intro c hc
          have := h.future c hc
          have hne : ¬ s.connNo = c := by omega
          simp only [framesOn_append, acksOn_append, this.1, this.2]
          split <;> simp [hne]
        · intro _
          simp only [framesOn_append, acksOn_append, hcur]
          split <;> simp
        · intro c
          simp only [framesOn_append, acksOn_append]
          by_cases hc : s.connNo = c
          · subst hc
            rw [hcur]
            split <;> simp
          · have h1 : ∀ l, acksOn c (Out.ackd s.connNo m b :: l) = acksOn c l := by
              intro l; simp [hc]
            rw [h1]
            split
            · simpa using h.pref c
            · simpa using h.pref c
        · intro x hx
          simp only [written_append, List.mem_append]
          exact Or.inl (h.pendW x (by rw [hp]; exact List.mem_cons_of_mem _ hx))
        · intro x hx
          simp only [acked_append, written_append, List.mem_append] at hx ⊢
          rcases hx with hx | hx
          · exact Or.inl (h.ackW x hx)
          · have : x = m := by
              revert hx; split <;> simp
            subst this
            exact Or.inl (h.pendW x (by rw [hp]; simp))
        · intro p hpp
          simp only [resolved_append, List.mem_append] at hpp
          rcases hpp with hpp | hpp
          · obtain ⟨c, hc⟩ := h.res p hpp
            exact ⟨c, by simp [acksOn_append, hc]⟩
          · refine ⟨s.connNo, ?_⟩
            revert hpp
            split <;> simp [acksOn_append]
            intro hpp; right; exact hpp
        · simp only [resolved_append, allAcks_append]
          refine h.resSub.append ?_
          split <;> simp
    · exact quietP s _ h rfl rfl rfl rfl rfl

/-! ### Every reachable state satisfies both invariants -/

theorem run_append (s : State) (es es' : List Event) : run s (es ++ es') = run (run s es) es' := by
  induction es generalizing s with
  | nil => rfl
  | cons e es ih => exact ih (step s e)

theorem invH_run (s : State) (es : List Event) (h : InvH s) : InvH (run s es) := by
  induction es generalizing s with
  | nil => exact h
  | cons e es ih => exact ih (step s e) (invH_step s e h)

theorem invP_run (s : State) (es : List Event) (h : InvP s) : InvP (run s es) := by
  induction es generalizing s with
  | nil => exact h
  | cons e es ih => exact ih (step s e) (invP_step s e h)

theorem Reachable.invH {s : State} (h : Reachable s) : InvH s := by
  obtain ⟨es, rfl⟩ := h; exact invH_run init es invH_init

theorem Reachable.invP {s : State} (h : Reachable s) : InvP s := by
  obtain ⟨es, rfl⟩ := h; exact invP_run init es invP_init

theorem Reachable.step {s : State} (h : Reachable s) (e : Event) : Reachable (step s e) := by
  obtain ⟨es, rfl⟩ := h
  exact ⟨es ++ [e], by rw [run_append]; rfl⟩

theorem Reachable.run {s : State} (h : Reachable s) (es : List Event) : Reachable (run s es) := by
  obtain ⟨es0, rfl⟩ := h
  exact ⟨es0 ++ es, by rw [run_append]⟩

theorem run_trace (s : State) (es : List Event) : (run s es).trace = s.trace ++ runO s es := by
  induction es generalizing s with
  | nil => simp [run, runO]
  | cons e es ih => simp [run, runO, ih, step_trace, List.append_assoc]

/-! ### List facts and step specifications used by Properties/C14.lean -/

/-- A sublist of a duplicate-free list is that list filtered by membership. -/
theorem sublist_eq_filter {l₁ l : List Nat} (h : l₁.Sublist l) (hn : l.Nodup) :
    l₁ = l.filter (fun x => decide (x ∈ l₁)) := by
  induction h with
  | slnil => rfl
  | @cons l₁ t a h ih =>
    have hnt := (List.nodup_cons.1 hn)
    have : a ∉ l₁ := fun ha => hnt.1 (h.subset ha)
    simp only [List.filter_cons, this, decide_false]
    exact ih hnt.2
  | @cons_cons l₁ t a h ih =>
    have hnt := (List.nodup_cons.1 hn)
    simp only [List.filter_cons, List.mem_cons, true_or, decide_true, if_true]
    congr 1
    have hc : t.filter (fun x => decide (x = a ∨ x ∈ l₁)) = t.filter (fun x => decide (x ∈ l₁)) := by
      apply List.filter_congr
      intro x hx
      have : x ≠ a := fun hxa => hnt.1 (hxa ▸ hx)
      simp [this]
    rw [hc]
    exact ih hnt.2

theorem split_unique {X Y X' Y' : List Nat} {m : Nat} (h : X ++ m :: Y = X' ++ m :: Y')
    (h1 : m ∉ X) (h2 : m ∉ X') : X = X' := by
  induction X generalizing X' with
  | nil =>
    cases X' with
    | nil => rfl
    | cons a t => simp at h; exact (h2 (by simp [h.1])).elim
  | cons a t ih =>
    cases X' with
    | nil => simp at h; exact (h1 (by simp [h.1])).elim
    | cons b t' =>
      simp at h
      obtain ⟨rfl, h⟩ := h
      congr 1
      exact ih h (fun hm => h1 (List.mem_cons_of_mem _ hm)) (fun hm => h2 (List.mem_cons_of_mem _ hm))

theorem allAcks_map_fst (tr : List Out) : (allAcks tr).map Prod.fst = acked tr := by
  induction tr with
  | nil => rfl
  | cons o t ih => cases o <;> simp [ih]


theorem filter_live_of_drained_nil (s : State) (h : s.drained = []) :
    s.buffer.filter (fun x => !s.isClosed x) = [] := by
  have := dropWhile_filter_not s.isClosed s.buffer
  simp only [State.drained] at h
  rw [h] at this
  simpa using this.symm

theorem filter_live_of_drained_cons (s : State) (m : Nat) (rest : List Nat) (h : s.drained = m :: rest) :
    s.buffer.filter (fun x => !s.isClosed x) = m :: rest.filter (fun x => !s.isClosed x) := by
  have := dropWhile_filter_not s.isClosed s.buffer
  simp only [State.drained] at h
  rw [h] at this
  have hm := head_dropWhile_not s.isClosed s.buffer m rest h
  rw [← this]
  simp [hm]

/-- The fields the drain loop reads or writes. -/
structure Core (s s' : State) (buffer pending : List Nat) (writing : Option Nat) : Prop where
  buffer : s'.buffer = buffer
  pending : s'.pending = pending
  writing : s'.writing = writing
  mode : s'.mode = s.mode
  connNo : s'.connNo = s.connNo
  closed : s'.closed = s.closed
  chan : s'.chan = s.chan

theorem writeBegin_nil (s : State) (hm : s.mode = .connected) (hw : s.writing = none) (hd : s.drained = []) :
    Core s (step s .writeBegin) [] s.pending none ∧ outs s .writeBegin = [] := by
  refine ⟨?_, ?_⟩
  · constructor <;> simp [step, stepCore, hm, hw, hd]
  · simp [outs, stepCore, hm, hw, hd]

theorem writeBegin_cons (s : State) (hm : s.mode = .connected) (hw : s.writing = none) (m : Nat)
    (rest : List Nat) (hd : s.drained = m :: rest) :
    Core s (step s .writeBegin) rest s.pending (some m) ∧ outs s .writeBegin = [] := by
  refine ⟨?_, ?_⟩
  · constructor <;> simp [step, stepCore, hm, hw, hd]
  · simp [outs, stepCore, hm, hw, hd]

theorem writeOk_none (s : State) (hw : s.writing = none) :
    Core s (step s .writeOk) s.buffer s.pending none ∧ outs s .writeOk = [] := by
  refine ⟨?_, ?_⟩
  · constructor <;> simp only [step, stepCore] <;> split <;> simp_all
  · simp only [outs, stepCore]; split <;> simp_all

theorem writeOk_some (s : State) (hm : s.mode = .connected) (m : Nat) (hw : s.writing = some m) :
    Core s (step s .writeOk) s.buffer (s.pending ++ [m]) none ∧ outs s .writeOk = [.frame s.connNo m] := by
  refine ⟨?_, ?_⟩
  · constructor <;> simp [step, stepCore, hm, hw]
  · simp [outs, stepCore, hm, hw]

theorem isClosed_congr (s s' : State) (h : s'.closed = s.closed) : s'.isClosed = s.isClosed := by
  funext x; simp [State.isClosed, h]

/-- Drain loop on an established connection, all writes succeeding. -/
theorem flush_spec (n : Nat) (s : State) (hm : s.mode = .connected) (hw : s.writing = none)
    (hn : s.buffer.length ≤ n) :
    Core s (run s (flush n)) [] (s.pending ++ s.buffer.filter (fun x => !s.isClosed x)) none ∧
    runO s (flush n) = (s.buffer.filter (fun x => !s.isClosed x)).map (Out.frame s.connNo) := by
  induction n generalizing s with
  | zero =>
    have : s.buffer = [] := List.eq_nil_of_length_eq_zero (by omega)
    refine ⟨?_, ?_⟩
    · constructor <;> simp [flush, run, this, hw]
    · simp [flush, runO, this]
  | succ n ih =>
    simp only [flush, run, runO]
    cases hd : s.drained with
    | nil =>
      have hf := filter_live_of_drained_nil s hd
      obtain ⟨c1, o1⟩ := writeBegin_nil s hm hw hd
      obtain ⟨c2, o2⟩ := writeOk_none (step s .writeBegin) c1.writing
      have hm2 : (step (step s .writeBegin) .writeOk).mode = .connected := by rw [c2.mode, c1.mode, hm]
      obtain ⟨c3, o3⟩ := ih (step (step s .writeBegin) .writeOk) hm2 c2.writing (by rw [c2.buffer, c1.buffer]; simp)
      rw [c2.buffer, c1.buffer] at c3 o3
      rw [c2.pending, c1.pending] at c3
      refine ⟨?_, ?_⟩
      · constructor
        · exact c3.buffer
        · rw [hf]; simpa using c3.pending
        · exact c3.writing
        · rw [c3.mode, c2.mode, c1.mode]
        · rw [c3.connNo, c2.connNo, c1.connNo]
        · rw [c3.closed, c2.closed, c1.closed]
        · rw [c3.chan, c2.chan, c1.chan]
      · rw [o1, o2, o3, hf]; simp
    | cons m rest =>
      have hf := filter_live_of_drained_cons s m rest hd
      have hlen : rest.length < s.buffer.length := by
        have : (m :: rest).Sublist s.buffer := by
          simp only [State.drained] at hd; exact hd ▸ List.dropWhile_sublist _
        have := this.length_le
        simp at this; omega
      obtain ⟨c1, o1⟩ := writeBegin_cons s hm hw m rest hd
      have hm1 : (step s .writeBegin).mode = .connected := by rw [c1.mode, hm]
      obtain ⟨c2, o2⟩ := writeOk_some (step s .writeBegin) hm1 m c1.writing
      have hm2 : (step (step s .writeBegin) .writeOk).mode = .connected := by rw [c2.mode, hm1]
      obtain ⟨c3, o3⟩ := ih (step (step s .writeBegin) .writeOk) hm2 c2.writing (by rw [c2.buffer, c1.buffer]; omega)
      have hcl : (step (step s .writeBegin) .writeOk).isClosed = s.isClosed :=
        isClosed_congr _ _ (by rw [c2.closed, c1.closed])
      rw [c2.buffer, c1.buffer, hcl] at c3 o3
      rw [c2.pending, c1.pending] at c3
      rw [c2.connNo, c1.connNo] at o3
      rw [c1.connNo] at o2
      refine ⟨?_, ?_⟩
      · constructor
        · exact c3.buffer
        · rw [hf]; simpa [List.append_assoc] using c3.pending
        · exact c3.writing
        · rw [c3.mode, c2.mode, c1.mode]
        · rw [c3.connNo, c2.connNo, c1.connNo]
        · rw [c3.closed, c2.closed, c1.closed]
        · rw [c3.chan, c2.chan, c1.chan]
      · rw [o1, o2, o3, hf]; simp

structure ConnOk (s s' : State) : Prop where
  buffer : s'.buffer = s.buffer
  pending : s'.pending = s.pending
  writing : s'.writing = s.writing
  mode : s'.mode = .connected
  connNo : s'.connNo = s.connNo + 1
  closed : s'.closed = s.closed
  chan : s'.chan = s.chan

theorem connectOk_spec (s : State) (hm : s.mode = .connecting) :
    ConnOk s (step s .connectOk) ∧ outs s .connectOk = [] := by
  refine ⟨?_, ?_⟩
  · constructor <;> simp [step, stepCore, hm]
  · simp [outs, stepCore, hm]


theorem ackRead_spec (s : State) (hm : s.mode = .connected) (hw : s.writing = none) (hb : s.buffer = [])
    (m : Nat) (rest : List Nat) (hp : s.pending = m :: rest) (b : Nat) :
    Core s (step s (.ackRead b)) [] rest none ∧
      outs s (.ackRead b) = .ackd s.connNo m b :: (if decide (m ∈ s.closed) then [] else [.resolve m b]) := by
  have hd : s.drained = [] := by simp [State.drained, hb]
  refine ⟨?_, ?_⟩
  · constructor <;> simp [step, stepCore, hm, hw, hd, hp]
  · simp [outs, stepCore, hm, hw, hd, hp, State.isClosed]

theorem mem_ackOuts_resolve (c : Nat) (closed ms bs : List Nat) (i : Nat) (m b : Nat)
    (hm : ms[i]? = some m) (hb : bs[i]? = some b) (hlive : m ∉ closed) :
    Out.resolve m b ∈ ackOuts c closed ms bs := by
  induction ms generalizing bs i with
  | nil => simp at hm
  | cons m0 ms ih =>
    cases bs with
    | nil => simp at hb
    | cons b0 bs =>
      cases i with
      | zero =>
        simp at hm hb; subst hm; subst hb
        simp [ackOuts, hlive]
      | succ i =>
        simp at hm hb
        have := ih bs i hm hb
        simp only [ackOuts, List.mem_cons, List.mem_append]
        exact Or.inr (Or.inr this)

end HS.RS
