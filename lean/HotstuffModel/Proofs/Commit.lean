import HotstuffModel.Proofs.NodeInv5
/-
What one call of `Core::commit` delivers (C02, local part).
-/
namespace HS
open Node

def Out.isCommitOut : Out → Bool
  | .commit _ => true
  | _ => false

/-- Oldest first: every block's parent hash is the digest of the block before it. -/
def Linked : List Block → Prop
  | [] => True
  | [_] => True
  | x :: y :: l => y.qc.hash = x.digest ∧ Linked (y :: l)

theorem foldl_commit_hist (l : List Block) (s : Node) :
    (l.foldl (fun s x => s.emit (.commit x)) s).hist = (l.reverse.map Out.commit) ++ s.hist := by
  induction l generalizing s with
  | nil => simp
  | cons a l ih => simp [ih]

theorem foldl_commit_lc (l : List Block) (s : Node) :
    (l.foldl (fun s x => s.emit (.commit x)) s).lastCommitted = s.lastCommitted := by
  induction l generalizing s with
  | nil => rfl
  | cons a l ih => simp [ih]

theorem digestDepth_block (b : Block) : digestDepth b.digest = digestDepth b.qc.hash + 1 := by
  simp [Block.digest, digestDepth]

/-- The walk: linked, above the watermark, and it stops only for one of the code's two reasons
(never because the fuel ran out: a hash chain cannot be longer than the depth of its top digest). -/
theorem commitWalk_linked (c : Committee) (s : Node) (h4 : Inv4 s) (top : Block) :
    ∀ (fuel : Nat) (cur : Block) (acc anc : List Block) (rest : List Block),
      commitWalk c s fuel cur acc = .done anc →
      digestDepth cur.digest < fuel →
      acc.reverse ++ [top] = cur :: rest → Linked (cur :: rest) →
      Linked (anc.reverse ++ [top]) ∧
      ∃ first rest', anc.reverse ++ [top] = first :: rest' ∧
        (first.round ≤ s.lastCommitted + 1 ∨ ∃ p, IsParent p first ∧ p.round ≤ s.lastCommitted) := by
  intro fuel
  induction fuel with
  | zero => intro cur acc anc rest _ hf; omega
  | succ n ih =>
    intro cur acc anc rest h hf hacc hl
    unfold commitWalk at h
    split at h
    · cases hp : (getParent c s cur).2 with
      | found a =>
        simp only [hp] at h
        have hspec := (getParent_found_spec c s cur a hp).2
        have hpar : IsParent a cur := isParent_of_spec (c := c) h4 hspec
        split at h
        · rename_i hle
          simp at h; subst h
          rw [hacc]
          exact ⟨hl, cur, rest, rfl, Or.inr ⟨a, hpar, hle⟩⟩
        · rename_i hr
          have hk : a.digest = cur.qc.hash := by
            rcases hpar with ⟨_, rfl⟩ | hk
            · simp [Block.genesis] at hr
            · exact hk
          apply ih a (acc ++ [a]) anc (cur :: rest) h
          · have := digestDepth_block cur
            rw [hk]; omega
          · simp [hacc]
          · exact ⟨hk.symm ▸ rfl, hl⟩
      | parked => simp [hp] at h
      | error => simp [hp] at h
    · rename_i hstop
      simp at h; subst h
      rw [hacc]
      exact ⟨hl, cur, rest, rfl, Or.inl (by omega)⟩

/-- One successful call of `commit(b)` with `b` above the watermark. -/
theorem commit_spec (c : Committee) (s : Node) (h4 : Inv4 s) (b : Block)
    (hb : b = Block.genesis ∨ ∃ d, (d, b) ∈ s.store)
    (hlt : s.lastCommitted < b.round) (hok : (commit c s b).2 = true) :
    ∃ D : List Block,
      (commit c s b).1.hist = (D.reverse.map Out.commit) ++ s.hist ∧
      (commit c s b).1.lastCommitted = b.round ∧
      Linked D ∧ D.getLast? = some b ∧
      (∀ x ∈ D, s.lastCommitted < x.round ∧ x ≠ Block.genesis) ∧
      ∃ first rest, D = first :: rest ∧
        (first.round = s.lastCommitted + 1 ∨ ∃ p, IsParent p first ∧ p.round ≤ s.lastCommitted) := by
  unfold commit at hok ⊢
  have hnle : ¬ s.lastCommitted ≥ b.round := by omega
  simp only [hnle, if_false] at hok ⊢
  cases hw : commitWalk c s (digestDepth b.digest + 1) b [] with
  | panic => simp [hw] at hok
  | error => simp [hw] at hok
  | done anc =>
    simp only []
    have hgood := commitWalk_spec c s h4 b _ b [] anc hw (self_mem_chain b) (by simp)
    obtain ⟨hlinked, first, rest, hD, hattach⟩ :=
      commitWalk_linked c s h4 b _ b [] anc [] hw (by omega) (by simp) (by simp [Linked])
    refine ⟨anc.reverse ++ [b], ?_, ?_, hlinked, by simp, ?_, first, rest, hD, ?_⟩
    · rw [foldl_commit_hist]
    · rw [foldl_commit_lc]
    · intro x hx
      simp only [List.mem_append, List.mem_reverse, List.mem_singleton] at hx
      rcases hx with hx | rfl
      · have := hgood x hx
        refine ⟨this.2.1, ?_⟩
        intro e; subst e; have := this.2.1; simp [Block.genesis] at this
      · refine ⟨hlt, ?_⟩
        intro e; subst e; simp [Block.genesis] at hlt
    · rcases hattach with hle | hp
      · left
        have hmem : first ∈ anc.reverse ++ [b] := by rw [hD]; simp
        simp only [List.mem_append, List.mem_reverse, List.mem_singleton] at hmem
        rcases hmem with hm | rfl
        · have := (hgood first hm).2.1; omega
        · omega
      · right; exact hp

end HS
