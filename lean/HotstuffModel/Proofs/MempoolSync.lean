import HotstuffModel.Model.MempoolSync
/-!
# Lemmas about the peer-facing side of the mempool (`HS.MS`)

Invariant `Inv`: no digest is twice a key of `pending` (what the `HashMap` of the code gives for
free and the association list of the model has to earn).  Characterisations of every step, the
store as "last write wins", and the trace lemmas used by `Properties/C11.lean` and
`Properties/C13.lean`.
-/
namespace HS.MS

/-! ### Lists -/

theorem snoc_induction {α : Type} {P : List α → Prop} (nil : P [])
    (snoc : ∀ l a, P l → P (l ++ [a])) : ∀ l, P l := by
  have h : ∀ l : List α, P l.reverse := by
    intro l
    induction l with
    | nil => simpa using nil
    | cons a l ih => simpa using snoc _ a ih
  intro l
  simpa using h l.reverse

/-! ### `run` -/

theorem run_append (cfg : Cfg) (s : State) (a b : List Event) :
    run cfg s (a ++ b) =
      ((run cfg (run cfg s a).1 b).1, (run cfg s a).2 ++ (run cfg (run cfg s a).1 b).2) := by
  induction a generalizing s with
  | nil => simp [run]
  | cons e a ih => simp [run, ih, List.append_assoc]

theorem reach_nil (cfg : Cfg) : reach cfg [] = init := rfl

theorem reach_append (cfg : Cfg) (a b : List Event) :
    reach cfg (a ++ b) = (run cfg (reach cfg a) b).1 := by
  simp [reach, run_append]

theorem reach_snoc (cfg : Cfg) (es : List Event) (e : Event) :
    reach cfg (es ++ [e]) = (step cfg (reach cfg es) e).1 := by
  simp [reach_append, run]

theorem outs_snoc (cfg : Cfg) (es : List Event) (e : Event) :
    outs cfg (es ++ [e]) = outs cfg es ++ (step cfg (reach cfg es) e).2 := by
  simp [outs, reach, run_append, run]

/-! ### pending / register -/

theorem isPending_iff (p : List PEntry) (d : Nat) : isPending p d = true ↔ d ∈ pendingDigests p := by
  simp only [isPending, pendingDigests, List.any_eq_true, List.mem_map, beq_iff_eq]

theorem isPending_false_iff (p : List PEntry) (d : Nat) :
    isPending p d = false ↔ d ∉ pendingDigests p := by
  rw [← isPending_iff]; simp

theorem register_pending (round now : Nat) (p : List PEntry) (ds : List Nat) :
    (register round now p ds).1 = p ++ (register round now p ds).2.map (fun d => ⟨d, round, now⟩) := by
  induction ds generalizing p with
  | nil => simp [register]
  | cons d ds ih =>
    simp only [register]
    split
    · exact ih p
    · simp [ih (p ++ [⟨d, round, now⟩])]

theorem mem_register (round now : Nat) (p : List PEntry) (ds : List Nat) (d : Nat) :
    d ∈ (register round now p ds).2 ↔ d ∈ ds ∧ d ∉ pendingDigests p := by
  induction ds generalizing p with
  | nil => simp [register]
  | cons d0 ds ih =>
    simp only [register]
    split
    · rename_i h
      have h0 : d0 ∈ pendingDigests p := (isPending_iff p d0).mp h
      rw [ih p]
      constructor
      · rintro ⟨h1, h2⟩; exact ⟨List.mem_cons_of_mem _ h1, h2⟩
      · rintro ⟨h1, h2⟩
        rcases List.mem_cons.mp h1 with h1 | h1
        · subst h1; exact absurd h0 h2
        · exact ⟨h1, h2⟩
    · rename_i h
      have h0 : d0 ∉ pendingDigests p := (isPending_false_iff p d0).mp (by simpa using h)
      simp only [List.mem_cons, ih (p ++ [⟨d0, round, now⟩])]
      simp only [pendingDigests, List.map_append, List.map_cons, List.map_nil, List.mem_append,
        List.mem_singleton, not_or]
      constructor
      · rintro (h1 | ⟨h1, h2, _⟩)
        · subst h1; exact ⟨Or.inl rfl, h0⟩
        · exact ⟨Or.inr h1, h2⟩
      · rintro ⟨h1 | h1, h2⟩
        · exact Or.inl h1
        · by_cases hd : d = d0
          · exact Or.inl hd
          · exact Or.inr ⟨h1, h2, hd⟩

theorem register_nodup (round now : Nat) (p : List PEntry) (ds : List Nat) :
    (register round now p ds).2.Nodup := by
  induction ds generalizing p with
  | nil => simp [register]
  | cons d0 ds ih =>
    simp only [register]
    split
    · exact ih p
    · refine List.nodup_cons.mpr ⟨?_, ih _⟩
      intro hm
      have := ((mem_register round now _ ds d0).mp hm).2
      exact this (by simp [pendingDigests])

theorem register_sublist (round now : Nat) (p : List PEntry) (ds : List Nat) :
    (register round now p ds).2.Sublist ds := by
  induction ds generalizing p with
  | nil => simp [register]
  | cons d0 ds ih =>
    simp only [register]
    split
    · exact (ih p).cons _
    · exact (ih _).cons_cons _

theorem register_nodup_pending (round now : Nat) (p : List PEntry) (ds : List Nat)
    (h : (pendingDigests p).Nodup) : (pendingDigests (register round now p ds).1).Nodup := by
  induction ds generalizing p with
  | nil => simpa [register] using h
  | cons d0 ds ih =>
    simp only [register]
    split
    · exact ih p h
    · rename_i hn
      have h0 : d0 ∉ pendingDigests p := (isPending_false_iff p d0).mp (by simpa using hn)
      apply ih
      simp only [pendingDigests, List.map_append, List.map_cons, List.map_nil]
      rw [List.nodup_append]
      refine ⟨h, by simp, ?_⟩
      intro a ha b hb
      simp at hb
      subst hb
      intro hab
      subst hab
      exact h0 ha

/-- The pending digests after `register`: the old ones and the digests asked for. -/
theorem mem_pendingDigests_register (round now : Nat) (p : List PEntry) (ds : List Nat) (d : Nat) :
    d ∈ pendingDigests (register round now p ds).1 ↔ d ∈ pendingDigests p ∨ d ∈ ds := by
  rw [register_pending]
  simp only [pendingDigests, List.map_append, List.map_map, List.mem_append]
  have : (List.map ((fun x : PEntry => x.digest) ∘ fun d => (⟨d, round, now⟩ : PEntry))
      (register round now p ds).2) = (register round now p ds).2 := by
    simp [Function.comp_def]
  rw [this, mem_register]
  simp only [pendingDigests]
  constructor
  · rintro (h | ⟨h, _⟩)
    · exact Or.inl h
    · exact Or.inr h
  · rintro (h | h)
    · exact Or.inl h
    · by_cases hp : d ∈ List.map (fun x => x.digest) p
      · exact Or.inl hp
      · exact Or.inr ⟨h, hp⟩

/-! ### The invariant -/

/-- No digest is a key of `pending` twice. -/
def Inv (s : State) : Prop := (pendingDigests s.pending).Nodup

theorem inv_init : Inv init := by simp [Inv, init, pendingDigests]

theorem nodup_filter_digests (p : List PEntry) (f : PEntry → Bool)
    (h : (pendingDigests p).Nodup) : (pendingDigests (p.filter f)).Nodup := by
  unfold pendingDigests at *
  exact List.Nodup.sublist ((List.filter_sublist).map _) h

theorem inv_step (cfg : Cfg) (s : State) (e : Event) (h : Inv s) : Inv (step cfg s e).1 := by
  unfold Inv at *
  cases e with
  | batchFrame b => exact h
  | batchRequest ds o => simp only [step]; split <;> exact h
  | garbage => exact h
  | synchronize ds t now => exact register_nodup_pending _ _ _ _ h
  | cleanup r =>
    simp only [step]; split
    · exact h
    · exact nodup_filter_digests _ _ h
  | timer now peers => simp only [step]; split <;> exact h
  | batchStored d =>
    simp only [step]; split
    · exact nodup_filter_digests _ _ h
    · exact h
  | extWrite d b => exact h

theorem inv_run (cfg : Cfg) (s : State) (es : List Event) (h : Inv s) : Inv (run cfg s es).1 := by
  induction es generalizing s with
  | nil => exact h
  | cons e es ih => exact ih _ (inv_step cfg s e h)

theorem inv_reach (cfg : Cfg) (es : List Event) : Inv (reach cfg es) := inv_run cfg init es inv_init

/-! ### The store: last write wins -/

theorem step_store (cfg : Cfg) (s : State) (e : Event) :
    (step cfg s e).1.store =
      match writeOf cfg e with
      | some kv => kv :: s.store
      | none => s.store := by
  cases e <;> simp only [step, writeOf] <;> (try split) <;> rfl

theorem lookup_run (cfg : Cfg) (s : State) (es : List Event) (d : Nat) :
    lookup (run cfg s es).1.store d =
      match lastWrite cfg d es with
      | some v => some v
      | none => lookup s.store d := by
  induction es generalizing s with
  | nil => simp [run, lastWrite]
  | cons e es ih =>
    simp only [run, lastWrite]
    rw [ih (step cfg s e).1]
    cases hl : lastWrite cfg d es with
    | some v => rfl
    | none =>
      simp only
      rw [step_store]
      cases hw : writeOf cfg e with
      | none => rfl
      | some kv =>
        obtain ⟨k, v⟩ := kv
        simp only [lookup]
        split <;> rfl

theorem lookup_reach (cfg : Cfg) (es : List Event) (d : Nat) :
    lookup (reach cfg es).store d = lastWrite cfg d es := by
  rw [reach, lookup_run]
  cases lastWrite cfg d es <;> simp [init, lookup]

theorem lastWrite_append (cfg : Cfg) (d : Nat) (a b : List Event) :
    lastWrite cfg d (a ++ b) =
      match lastWrite cfg d b with
      | some v => some v
      | none => lastWrite cfg d a := by
  induction a with
  | nil => cases h : lastWrite cfg d b <;> simp [lastWrite, h]
  | cons e a ih =>
    simp only [List.cons_append, lastWrite, ih]
    cases lastWrite cfg d b with
    | some v => rfl
    | none => rfl

/-- A binding never disappears. -/
theorem lookup_step_isSome (cfg : Cfg) (s : State) (e : Event) (d : Nat)
    (h : (lookup s.store d).isSome) : (lookup (step cfg s e).1.store d).isSome := by
  rw [step_store]
  cases writeOf cfg e with
  | none => exact h
  | some kv =>
    obtain ⟨k, v⟩ := kv
    simp only [lookup]
    split
    · rfl
    · exact h

theorem lookup_run_isSome (cfg : Cfg) (s : State) (es : List Event) (d : Nat)
    (h : (lookup s.store d).isSome) : (lookup (run cfg s es).1.store d).isSome := by
  induction es generalizing s with
  | nil => exact h
  | cons e es ih => exact ih _ (lookup_step_isSome cfg s e d h)

/-! ### Outputs of the receiver/processor path -/

theorem announced_append (a b : List Out) : announced (a ++ b) = announced a ++ announced b := by
  induction a with
  | nil => rfl
  | cons o a ih => cases o <;> simp [announced, ih]

theorem storedOuts_append (a b : List Out) : storedOuts (a ++ b) = storedOuts a ++ storedOuts b := by
  induction a with
  | nil => rfl
  | cons o a ih => cases o <;> simp [storedOuts, ih]

theorem frames_append (a b : List Event) : frames (a ++ b) = frames a ++ frames b := by
  induction a with
  | nil => rfl
  | cons e a ih => cases e <;> simp [frames, ih]

theorem announced_replies (st : List (Nat × Nat)) (o : Nat) (ds : List Nat) :
    announced (replies st o ds) = [] ∧ storedOuts (replies st o ds) = [] := by
  induction ds with
  | nil => exact ⟨rfl, rfl⟩
  | cons d ds ih =>
    simp only [replies]
    split
    · exact ⟨by simp [announced, ih.1], by simp [storedOuts, ih.2]⟩
    · exact ih

theorem step_announced (cfg : Cfg) (s : State) (e : Event) :
    announced (step cfg s e).2 = (frames [e]).map cfg.hash ∧
    storedOuts (step cfg s e).2 = (frames [e]).map (fun b => (cfg.hash b, b)) := by
  cases e with
  | batchFrame b => exact ⟨rfl, rfl⟩
  | batchRequest ds o =>
    simp only [step]
    split
    · simp [announced, storedOuts, frames, announced_replies]
    · exact ⟨rfl, rfl⟩
  | garbage => exact ⟨rfl, rfl⟩
  | synchronize ds t now => simp only [step]; split <;> exact ⟨rfl, rfl⟩
  | cleanup r => simp only [step]; split <;> exact ⟨rfl, rfl⟩
  | timer now peers => simp only [step]; split <;> exact ⟨rfl, rfl⟩
  | batchStored d => simp only [step]; split <;> exact ⟨rfl, rfl⟩
  | extWrite d b => exact ⟨rfl, rfl⟩

theorem run_announced (cfg : Cfg) (s : State) (es : List Event) :
    announced (run cfg s es).2 = (frames es).map cfg.hash ∧
    storedOuts (run cfg s es).2 = (frames es).map (fun b => (cfg.hash b, b)) := by
  induction es generalizing s with
  | nil => exact ⟨rfl, rfl⟩
  | cons e es ih =>
    have h1 := step_announced cfg s e
    have h2 := ih (step cfg s e).1
    have hf : frames (e :: es) = frames [e] ++ frames es := by
      rw [← frames_append]; rfl
    refine ⟨?_, ?_⟩
    · simp only [run, announced_append, h1.1, h2.1, hf, List.map_append]
    · simp only [run, storedOuts_append, h1.2, h2.2, hf, List.map_append]

theorem replies_eq (st : List (Nat × Nat)) (o : Nat) (ds : List Nat) :
    replies st o ds = (ds.filterMap (lookup st)).map (Out.reply o) := by
  induction ds with
  | nil => rfl
  | cons d ds ih =>
    simp only [replies, List.filterMap_cons]
    cases lookup st d with
    | none => simpa using ih
    | some v => simp [ih]

/-! ### `pending`, step by step -/

/-- Entry `x` is taken out of `pending` by event `e` in state `s`. -/
def removed (cfg : Cfg) (s : State) (e : Event) (x : PEntry) : Prop :=
  match e with
  | .batchStored d => x.digest = d ∧ (lookup s.store d).isSome
  | .cleanup r => cfg.gcDepth ≤ r ∧ x.round + cfg.gcDepth ≤ r
  | _ => False

/-- Entry `x` is put into `pending` by event `e` in state `s`. -/
def added (s : State) (e : Event) (x : PEntry) : Prop :=
  match e with
  | .synchronize ds _ now =>
    x.digest ∈ ds ∧ x.digest ∉ pendingDigests s.pending ∧ x.round = s.round ∧ x.ts = now
  | _ => False

theorem mem_pending_step (cfg : Cfg) (s : State) (e : Event) (x : PEntry) :
    x ∈ (step cfg s e).1.pending ↔ (x ∈ s.pending ∧ ¬ removed cfg s e x) ∨ added s e x := by
  cases e with
  | batchFrame b => simp [step, removed, added]
  | batchRequest ds o => simp only [step]; split <;> simp [removed, added]
  | garbage => simp [step, removed, added]
  | synchronize ds t now =>
    simp only [step, removed, added, not_false_eq_true, and_true]
    rw [register_pending]
    simp only [List.mem_append, List.mem_map]
    constructor
    · rintro (h | ⟨d, hd, rfl⟩)
      · exact Or.inl h
      · have := (mem_register s.round now s.pending ds d).mp hd
        exact Or.inr ⟨this.1, this.2, rfl, rfl⟩
    · rintro (h | ⟨h1, h2, h3, h4⟩)
      · exact Or.inl h
      · refine Or.inr ⟨x.digest, (mem_register _ _ _ _ _).mpr ⟨h1, h2⟩, ?_⟩
        cases x; simp_all
  | cleanup r =>
    simp only [step, removed, added, or_false]
    split
    · rename_i h
      constructor
      · intro hx; exact ⟨hx, by omega⟩
      · intro hx; exact hx.1
    · rename_i h
      simp only [List.mem_filter, decide_eq_true_eq]
      constructor
      · rintro ⟨hx, hr⟩; exact ⟨hx, by omega⟩
      · rintro ⟨hx, hr⟩; exact ⟨hx, by omega⟩
  | timer now peers => simp only [step]; split <;> simp [removed, added]
  | batchStored d =>
    simp only [step, removed, added, or_false]
    cases hl : lookup s.store d with
    | none => simp
    | some v =>
      simp only [List.mem_filter, bne_iff_ne, ne_eq, Option.isSome_some, and_true]
  | extWrite d b => simp [step, removed, added]

theorem step_round (cfg : Cfg) (s : State) (e : Event) :
    (step cfg s e).1.round = match e with | .cleanup r => r | _ => s.round := by
  cases e <;> simp only [step] <;> (try split) <;> rfl

/-- A pending digest stays pending across any event that is neither its own `batchStored` nor a
`Cleanup`. -/
theorem pending_preserved (cfg : Cfg) (s : State) (e : Event) (d : Nat)
    (h : d ∈ pendingDigests s.pending) (hc : clears d e = false) :
    d ∈ pendingDigests (step cfg s e).1.pending := by
  simp only [pendingDigests, List.mem_map] at h ⊢
  obtain ⟨x, hx, hd⟩ := h
  refine ⟨x, (mem_pending_step cfg s e x).mpr (Or.inl ⟨hx, ?_⟩), hd⟩
  cases e with
  | batchStored d' =>
    simp only [clears, beq_eq_false_iff_ne, ne_eq] at hc
    simp only [removed]
    rintro ⟨h1, _⟩
    exact hc (h1.symm.trans hd)
  | cleanup r => simp [clears] at hc
  | _ => simp [removed]

theorem pending_preserved_run (cfg : Cfg) (s : State) (es : List Event) (d : Nat)
    (h : d ∈ pendingDigests s.pending) (hc : ∀ e ∈ es, clears d e = false) :
    d ∈ pendingDigests (run cfg s es).1.pending := by
  induction es generalizing s with
  | nil => exact h
  | cons e es ih =>
    exact ih _ (pending_preserved cfg s e d h (hc e (by simp))) (fun e' he' => hc e' (by simp [he']))

/-- A digest that is not pending stays so across any event that is not a `Synchronize` naming it. -/
theorem not_pending_preserved (cfg : Cfg) (s : State) (e : Event) (d : Nat)
    (h : d ∉ pendingDigests s.pending)
    (hs : ∀ ds t now, e = .synchronize ds t now → d ∉ ds) :
    d ∉ pendingDigests (step cfg s e).1.pending := by
  intro hm
  simp only [pendingDigests, List.mem_map] at h hm
  obtain ⟨x, hx, hd⟩ := hm
  rcases (mem_pending_step cfg s e x).mp hx with ⟨hx', _⟩ | ha
  · exact h ⟨x, hx', hd⟩
  · cases e with
    | synchronize ds t now =>
      simp only [added] at ha
      exact hs ds t now rfl (hd ▸ ha.1)
    | _ => simp [added] at ha

theorem not_pending_preserved_run (cfg : Cfg) (s : State) (es : List Event) (d : Nat)
    (h : d ∉ pendingDigests s.pending)
    (hs : ∀ ds t now, Event.synchronize ds t now ∈ es → d ∉ ds) :
    d ∉ pendingDigests (run cfg s es).1.pending := by
  induction es generalizing s with
  | nil => exact h
  | cons e es ih =>
    apply ih
    · exact not_pending_preserved cfg s e d h (fun ds t now he => hs ds t now (by simp [he]))
    · intro ds t now hm; exact hs ds t now (by simp [hm])

/-! ### Where a pending entry comes from -/

/-- `x` has been in `pending` ever since the `Synchronize` at position `es1.length` put it there. -/
def OpenSince (cfg : Cfg) (es : List Event) (x : PEntry) : Prop :=
  ∃ es1 ds t es2,
    es = es1 ++ Event.synchronize ds t x.ts :: es2 ∧
    x.digest ∈ ds ∧ x.digest ∉ pendingDigests (reach cfg es1).pending ∧
    x.round = (reach cfg es1).round ∧
    ∀ k, k ≤ es2.length → x ∈ (reach cfg (es1 ++ Event.synchronize ds t x.ts :: es2.take k)).pending

theorem pending_origin (cfg : Cfg) (es : List Event) (x : PEntry)
    (h : x ∈ (reach cfg es).pending) : OpenSince cfg es x := by
  induction es using snoc_induction with
  | nil => simp [reach_nil, init] at h
  | snoc es e ih =>
    rw [reach_snoc] at h
    rcases (mem_pending_step cfg _ e x).mp h with ⟨hx, _⟩ | ha
    · obtain ⟨es1, ds, t, es2, he, h1, h2, h3, h4⟩ := ih hx
      refine ⟨es1, ds, t, es2 ++ [e], by simp [he], h1, h2, h3, ?_⟩
      intro k hk
      by_cases hk' : k ≤ es2.length
      · rw [List.take_append_of_le_length hk']; exact h4 k hk'
      · have : k = (es2 ++ [e]).length := by simp at hk ⊢; omega
        rw [this, List.take_length]
        have : es1 ++ Event.synchronize ds t x.ts :: (es2 ++ [e]) = es ++ [e] := by simp [he]
        rw [this, reach_snoc]; exact h
    · cases e with
      | synchronize ds t now =>
        simp only [added] at ha
        obtain ⟨h1, h2, h3, h4⟩ := ha
        subst h4
        refine ⟨es, ds, t, [], rfl, h1, h2, h3, ?_⟩
        intro k hk
        simp only [List.take_nil]
        rw [reach_snoc]; exact h
      | _ => simp [added] at ha

/-- After a `Synchronize` naming `d`, `d` is pending. -/
theorem pending_after_synchronize (cfg : Cfg) (s : State) (ds : List Nat) (t now d : Nat)
    (h : d ∈ ds) : d ∈ pendingDigests (step cfg s (.synchronize ds t now)).1.pending := by
  simp only [step]
  exact (mem_pendingDigests_register _ _ _ _ _).mpr (Or.inr h)

/-! ### timer, pick -/

theorem mem_due (cfg : Cfg) (p : List PEntry) (now d : Nat) :
    d ∈ due cfg p now ↔ ∃ x ∈ p, x.digest = d ∧ x.ts + cfg.retryDelay < now := by
  simp only [due, List.mem_map, List.mem_filter, decide_eq_true_eq]
  constructor
  · rintro ⟨x, ⟨h1, h2⟩, h3⟩; exact ⟨x, h1, h3, h2⟩
  · rintro ⟨x, h1, h3, h2⟩; exact ⟨x, ⟨h1, h2⟩, h3⟩

theorem mem_others (cfg : Cfg) (p : Nat) : p ∈ others cfg ↔ p ∈ cfg.members ∧ p ≠ cfg.name := by
  simp [others]

theorem pick_legal (cfg : Cfg) (peers : List Nat) :
    (∀ p ∈ pick cfg peers, p ∈ cfg.members ∧ p ≠ cfg.name) ∧
    (pick cfg peers).length = min cfg.retryNodes (others cfg).length := by
  unfold pick
  split
  · rename_i h
    simp only [legalPick, Bool.and_eq_true, List.all_eq_true, List.contains_iff_mem, beq_iff_eq] at h
    exact ⟨fun p hp => (mem_others cfg p).mp (h.1.2 p hp), h.2⟩
  · refine ⟨fun p hp => (mem_others cfg p).mp (List.mem_of_mem_take hp), ?_⟩
    simp [List.length_take]

/-! ### more on the store -/

theorem lastWrite_some (cfg : Cfg) (d : Nat) (es : List Event) (v : Nat)
    (h : lastWrite cfg d es = some v) : ∃ e ∈ es, writeOf cfg e = some (d, v) := by
  induction es with
  | nil => simp [lastWrite] at h
  | cons e es ih =>
    simp only [lastWrite] at h
    cases hl : lastWrite cfg d es with
    | some w =>
      rw [hl] at h
      simp only [Option.some.injEq] at h
      subst h
      obtain ⟨e', he', hw⟩ := ih hl
      exact ⟨e', List.mem_cons_of_mem _ he', hw⟩
    | none =>
      rw [hl] at h
      simp only at h
      cases hw : writeOf cfg e with
      | none => rw [hw] at h; simp at h
      | some kv =>
        obtain ⟨k, w⟩ := kv
        rw [hw] at h
        simp only at h
        split at h
        · rename_i hk
          simp only [Option.some.injEq] at h
          subst h; subst hk
          exact ⟨e, by simp, hw⟩
        · simp at h

theorem lastWrite_isSome (cfg : Cfg) (d : Nat) (es : List Event) (e : Event) (v : Nat)
    (he : e ∈ es) (hw : writeOf cfg e = some (d, v)) : (lastWrite cfg d es).isSome := by
  induction es with
  | nil => simp at he
  | cons e0 es ih =>
    simp only [lastWrite]
    cases hl : lastWrite cfg d es with
    | some w => rfl
    | none =>
      simp only
      rcases List.mem_cons.mp he with h | h
      · subst h; rw [hw]; simp
      · have := ih h; rw [hl] at this; simp at this

/-! ### ACKs -/

/-- Events that are a frame arriving on the mempool port. -/
def isFrame : Event → Bool
  | .batchFrame _ => true
  | .batchRequest _ _ => true
  | .garbage => true
  | _ => false

def acks : List Out → Nat
  | [] => 0
  | .ack :: os => acks os + 1
  | _ :: os => acks os

theorem acks_append (a b : List Out) : acks (a ++ b) = acks a + acks b := by
  induction a with
  | nil => simp [acks]
  | cons o a ih => cases o <;> simp [acks, ih] <;> omega

theorem acks_replies (st : List (Nat × Nat)) (o : Nat) (ds : List Nat) : acks (replies st o ds) = 0 := by
  induction ds with
  | nil => rfl
  | cons d ds ih =>
    simp only [replies]
    split
    · simpa [acks] using ih
    · exact ih

theorem step_acks (cfg : Cfg) (s : State) (e : Event) :
    acks (step cfg s e).2 = if isFrame e then 1 else 0 := by
  cases e with
  | batchFrame b => rfl
  | batchRequest ds o =>
    simp only [step]
    split
    · simp [acks, acks_replies, isFrame]
    · rfl
  | garbage => rfl
  | synchronize ds t now => simp only [step]; split <;> rfl
  | cleanup r => simp only [step]; split <;> rfl
  | timer now peers => simp only [step]; split <;> rfl
  | batchStored d => simp only [step]; split <;> rfl
  | extWrite d b => rfl

theorem run_acks (cfg : Cfg) (s : State) (es : List Event) :
    acks (run cfg s es).2 = (es.filter isFrame).length := by
  induction es generalizing s with
  | nil => rfl
  | cons e es ih =>
    simp only [run, acks_append, step_acks, ih, List.filter_cons]
    split <;> simp <;> omega

end HS.MS
