import HotstuffModel.Model.BatchMaker
/-
Helper lemmas for C11 (BatchMaker, batch encoding).
-/
namespace HS.BM

def sumLen (l : List (List Nat)) : Nat := (l.map List.length).sum

@[simp] theorem sumLen_nil : sumLen [] = 0 := rfl
theorem sumLen_append (a b : List (List Nat)) : sumLen (a ++ b) = sumLen a + sumLen b := by
  simp [sumLen, List.sum_append]

/-- `size` is the byte size of the open batch, and the open batch is below the threshold
(or empty — the only possibility when `batch_size = 0`). -/
def Inv (cfg : Cfg) (s : State) : Prop :=
  s.size = sumLen s.cur ∧ (s.cur = [] ∨ s.size < cfg.batchSize)

theorem inv_init (cfg : Cfg) : Inv cfg init := ⟨rfl, Or.inl rfl⟩

theorem seal_ok (cfg : Cfg) (s s' : State) (outs : List (List (List Nat)))
    (h : sealBatch cfg s = .ok (s', outs)) : s' = { cur := [], size := 0 } ∧ outs = [s.cur] := by
  unfold sealBatch at h
  split at h
  · cases h
  · cases h; exact ⟨rfl, rfl⟩

theorem step_ok (cfg : Cfg) (s s' : State) (e : Ev) (outs : List (List (List Nat)))
    (hi : Inv cfg s) (h : step cfg s e = .ok (s', outs)) :
    Inv cfg s' ∧ outs.flatten ++ s'.cur = s.cur ++ accepted [e] := by
  cases e with
  | tx t =>
    simp only [step] at h
    split at h
    · obtain ⟨h1, h2⟩ := seal_ok cfg _ _ _ h
      subst h1; subst h2
      exact ⟨⟨rfl, Or.inl rfl⟩, by simp [accepted]⟩
    · rename_i hlt
      cases h
      refine ⟨⟨?_, Or.inr (by simpa using hlt)⟩, by simp [accepted]⟩
      simp [sumLen_append, hi.1, sumLen]
  | timer =>
    simp only [step] at h
    split at h
    · obtain ⟨h1, h2⟩ := seal_ok cfg _ _ _ h
      subst h1; subst h2
      exact ⟨⟨rfl, Or.inl rfl⟩, by simp [accepted]⟩
    · cases h; exact ⟨hi, by simp [accepted]⟩

theorem accepted_append (a b : List Ev) : accepted (a ++ b) = accepted a ++ accepted b := by
  induction a with
  | nil => rfl
  | cons e es ih => cases e <;> simp [accepted, ih]

theorem run_ok (cfg : Cfg) (s s' : State) (es : List Ev) (bs : List (List (List Nat)))
    (hi : Inv cfg s) (h : run cfg s es = .ok (s', bs)) :
    Inv cfg s' ∧ bs.flatten ++ s'.cur = s.cur ++ accepted es := by
  induction es generalizing s bs with
  | nil => simp only [run] at h; cases h; exact ⟨hi, by simp [accepted]⟩
  | cons e es ih =>
    simp only [run] at h
    cases hs : step cfg s e with
    | error p => simp [hs] at h
    | ok r =>
      obtain ⟨s1, outs⟩ := r
      simp only [hs] at h
      cases hr : run cfg s1 es with
      | error p => simp [hr] at h
      | ok r2 =>
        obtain ⟨s2, bs2⟩ := r2
        simp only [hr] at h
        cases h
        obtain ⟨i1, c1⟩ := step_ok cfg s s1 e outs hi hs
        obtain ⟨i2, c2⟩ := ih s1 bs2 i1 hr
        refine ⟨i2, ?_⟩
        have : accepted (e :: es) = accepted [e] ++ accepted es := accepted_append [e] es
        rw [this, List.flatten_append, List.append_assoc, c2, ← List.append_assoc, c1, List.append_assoc]

theorem run_append_ok (cfg : Cfg) (s : State) (a b : List Ev) (s2 : State) (bs : List (List (List Nat)))
    (h : run cfg s (a ++ b) = .ok (s2, bs)) :
    ∃ s1 b1 b2, run cfg s a = .ok (s1, b1) ∧ run cfg s1 b = .ok (s2, b2) ∧ bs = b1 ++ b2 := by
  induction a generalizing s bs with
  | nil => exact ⟨s, [], bs, rfl, h, rfl⟩
  | cons e es ih =>
    simp only [List.cons_append, run] at h
    cases hs : step cfg s e with
    | error p => simp [hs] at h
    | ok r =>
      obtain ⟨s1, outs⟩ := r
      simp only [hs] at h
      cases hr : run cfg s1 (es ++ b) with
      | error p => simp [hr] at h
      | ok r2 =>
        obtain ⟨s3, bs3⟩ := r2
        simp only [hr] at h
        cases h
        obtain ⟨t1, c1, c2, k1, k2, k3⟩ := ih s1 bs3 hr
        refine ⟨t1, outs ++ c1, c2, ?_, k2, by simp [k3]⟩
        simp [run, hs, k1]

theorem seal_no_panic (cfg : Cfg) (s : State) (h : scanPanics cfg s.cur = false) :
    sealBatch cfg s = .ok ({ cur := [], size := 0 }, [s.cur]) := by
  simp [sealBatch, h]

theorem step_no_panic (cfg : Cfg) (s : State) (e : Ev)
    (h : ∀ b, scanPanics cfg b = false) : ∃ r, step cfg s e = .ok r := by
  cases e with
  | tx t =>
    simp only [step]
    split
    · exact ⟨_, seal_no_panic cfg _ (h _)⟩
    · exact ⟨_, rfl⟩
  | timer =>
    simp only [step]
    split
    · exact ⟨_, seal_no_panic cfg _ (h _)⟩
    · exact ⟨_, rfl⟩

theorem run_no_panic (cfg : Cfg) (s : State) (es : List Ev)
    (h : ∀ b, scanPanics cfg b = false) : ∃ r, run cfg s es = .ok r := by
  induction es generalizing s with
  | nil => exact ⟨_, rfl⟩
  | cons e es ih =>
    obtain ⟨⟨s1, outs⟩, h1⟩ := step_no_panic cfg s e h
    obtain ⟨⟨s2, bs⟩, h2⟩ := ih s1
    exact ⟨(s2, outs ++ bs), by simp [run, h1, h2]⟩

/-! ### Encoding -/

theorem unle64_le64 (n : Nat) (h : n < 2 ^ 64) (rest : List Nat) :
    unle64 (le64 n ++ rest) = some (n, rest) := by
  simp only [le64, unle64, List.cons_append, List.nil_append]
  congr 2
  omega

theorem decodeTxs_encodeTxs (batch : List (List Nat)) (rest : List Nat)
    (h : ∀ t ∈ batch, t.length < 2 ^ 64) :
    decodeTxs batch.length (encodeTxs batch ++ rest) = some (batch, rest) := by
  induction batch with
  | nil => rfl
  | cons t ts ih =>
    have ht := h t (by simp)
    have ih' := ih (fun x hx => h x (by simp [hx]))
    simp only [encodeTxs, List.length_cons, decodeTxs, List.append_assoc]
    rw [unle64_le64 _ ht]
    simp only
    have hlen : ¬ (t ++ (encodeTxs ts ++ rest)).length < t.length := by simp
    rw [if_neg hlen]
    have hd : (t ++ (encodeTxs ts ++ rest)).drop t.length = encodeTxs ts ++ rest := by simp
    have htk : (t ++ (encodeTxs ts ++ rest)).take t.length = t := by simp
    rw [hd, ih', htk]

end HS.BM
