import HotstuffModel.Proofs.GlobalCommit
/-
Prefix consistency: in every reachable global state the delivery logs of any two honest nodes,
read oldest first and compared by block digest, are prefixes of one another.
(Agreement says delivered blocks lie on one chain; the chain-from-genesis form of each log (C02)
turns that into equality position by position.)
-/
namespace HS
open Node

/-- Two delivered blocks with the same parent are the same block (same digest). -/
theorem same_parent_same_digest (X : World) (G : GState) (hR : Reach X G) (i j : Nat)
    (hi : X.honest i) (hj : X.honest j) (x y : Block)
    (hx : Out.commit x ∈ (G i).hist) (hy : Out.commit y ∈ (G j).hist)
    (hp : x.qc.hash = y.qc.hash) : x.digest = y.digest := by
  have L := reach_localInv X G hR
  have cx := delivered_is_certified X G hR i hi x hx
  have cy := delivered_is_certified X G hR j hj y hy
  -- one direction, used twice
  have key : ∀ (a b : Block), Abs.Certified (absCtx X) (absHist X G) a.digest →
      Abs.Certified (absCtx X) (absHist X G) b.digest → a.qc.hash = b.qc.hash →
      Abs.Extends (absHist X G) a.digest b.digest → a.digest = b.digest := by
    intro a b ca cb hab ⟨k, hk⟩
    cases k with
    | zero => simpa [Abs.anc] using hk
    | succ k =>
      exfalso
      simp only [Abs.anc] at hk
      have hpa : (absHist X G).parent a.digest = a.qc.hash := by simp [absHist, Block.digest, dParent]
      have hpb : (absHist X G).parent b.digest = b.qc.hash := by simp [absHist, Block.digest, dParent]
      have hbne : b.digest ≠ Digest.zero := by simp [Block.digest]
      obtain ⟨hlt, hcp⟩ := Abs.certified_parent (absCtx X) (absHist X G) Digest.zero L cb
      rw [hpa] at hk
      rcases Abs.certified_parent (absCtx X) (absHist X G) Digest.zero L ca |>.2 with h0 | hc
      · rw [hpa] at h0
        rw [h0, Abs.anc_genesis (absHist X G) Digest.zero rfl] at hk
        exact hbne hk.symm
      · rw [hpa] at hc
        have := (Abs.anc_round (absCtx X) (absHist X G) Digest.zero L rfl k _ _ hc hk hbne).1
        rw [hpb, ← hab] at hlt
        omega
  rcases C01.agreement X G hR i j hi hj x y hx hy with h | h
  · exact key x y cx cy hp (extends_of_mem_chain X G h)
  · exact (key y x cy cx hp.symm (extends_of_mem_chain X G h)).symm

/-- Two parent-linked lists of delivered blocks that start from the same parent agree, digest by
digest, as far as both go. -/
theorem linked_lists_agree (X : World) (G : GState) (hR : Reach X G) (i j : Nat)
    (hi : X.honest i) (hj : X.honest j) :
    ∀ (A B : List Block) (p : Digest),
      (∀ x ∈ A, Out.commit x ∈ (G i).hist) → (∀ y ∈ B, Out.commit y ∈ (G j).hist) →
      Linked A → Linked B →
      (∀ a, A.head? = some a → a.qc.hash = p) → (∀ b, B.head? = some b → b.qc.hash = p) →
      A.map Block.digest <+: B.map Block.digest ∨ B.map Block.digest <+: A.map Block.digest := by
  intro A
  induction A with
  | nil => intro B p _ _ _ _ _ _; left; simp
  | cons a A ih =>
    intro B p hA hB lA lB pa pb
    cases B with
    | nil => right; simp
    | cons b B =>
      have hab : a.digest = b.digest := by
        apply same_parent_same_digest X G hR i j hi hj a b (hA a (by simp)) (hB b (by simp))
        rw [pa a rfl, pb b rfl]
      have lA' : Linked A := by
        cases A with
        | nil => trivial
        | cons a' A' => exact lA.2
      have lB' : Linked B := by
        cases B with
        | nil => trivial
        | cons b' B' => exact lB.2
      have := ih B a.digest (fun x hx => hA x (by simp [hx])) (fun y hy => hB y (by simp [hy])) lA' lB'
        (by
          intro a' ha'
          cases A with
          | nil => simp at ha'
          | cons a'' A' => simp at ha'; subst ha'; exact lA.1)
        (by
          intro b' hb'
          cases B with
          | nil => simp at hb'
          | cons b'' B' => simp at hb'; subst hb'; rw [hab]; exact lB.1)
      simp only [List.map_cons, hab]
      rcases this with h | h
      · left; exact (List.prefix_cons_inj _).mpr h
      · right; exact (List.prefix_cons_inj _).mpr h

/-- PREFIX CONSISTENCY of the delivery logs of honest nodes. -/
theorem logs_prefix_consistent (X : World) (G : GState) (hR : Reach X G) (i j : Nat)
    (hi : X.honest i) (hj : X.honest j) :
    (commitsOf (G i).hist).reverse.map Block.digest <+: (commitsOf (G j).hist).reverse.map Block.digest ∨
    (commitsOf (G j).hist).reverse.map Block.digest <+: (commitsOf (G i).hist).reverse.map Block.digest := by
  have ci := (reach_goodLog X G hR i hi).1
  have cj := (reach_goodLog X G hR j hj).1
  apply linked_lists_agree X G hR i j hi hj _ _ Digest.zero
  · intro x hx; exact mem_commitsOf.mp (List.mem_reverse.mp hx)
  · intro y hy; exact mem_commitsOf.mp (List.mem_reverse.mp hy)
  · cases h : (commitsOf (G i).hist).reverse with
    | nil => trivial
    | cons a l => rw [h] at ci; exact ci.2
  · cases h : (commitsOf (G j).hist).reverse with
    | nil => trivial
    | cons a l => rw [h] at cj; exact cj.2
  · intro a ha
    cases h : (commitsOf (G i).hist).reverse with
    | nil => rw [h] at ha; simp at ha
    | cons a' l => rw [h] at ha ci; simp at ha; subst ha; exact ci.1
  · intro b hb
    cases h : (commitsOf (G j).hist).reverse with
    | nil => rw [h] at hb; simp at hb
    | cons b' l => rw [h] at hb cj; simp at hb; subst hb; exact cj.1

end HS
