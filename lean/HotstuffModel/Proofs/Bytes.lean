import HotstuffModel.Model.Bytes
/-!
Lemmas about little-endian integers and the reader monad `Dec`.
-/
namespace HS.Wire

@[simp] theorem leN_length (k n : Nat) : (leN k n).length = k := by
  induction k generalizing n with
  | zero => rfl
  | succ k ih => simp [leN, ih]

@[simp] theorem le64_length (n : Nat) : (le64 n).length = 8 := leN_length 8 n
@[simp] theorem le32_length (n : Nat) : (le32 n).length = 4 := leN_length 4 n

theorem unle_leN (k n : Nat) : unle (leN k n) = n % 256 ^ k := by
  induction k generalizing n with
  | zero => simp [leN, unle, Nat.mod_one]
  | succ k ih =>
    simp only [leN, unle, ih]
    rw [Nat.pow_succ, Nat.mul_comm (256 ^ k) 256, Nat.mod_mul]
    simp [UInt8.toNat_ofNat']

theorem unle_le64 (n : Nat) (h : n < 2 ^ 64) : unle (le64 n) = n := by
  unfold le64; rw [unle_leN]; exact Nat.mod_eq_of_lt (by simpa using h)

theorem unle_le32 (n : Nat) (h : n < 2 ^ 32) : unle (le32 n) = n := by
  unfold le32; rw [unle_leN]; exact Nat.mod_eq_of_lt (by simpa using h)

theorem le64_inj (a b : Nat) (ha : a < 2 ^ 64) (hb : b < 2 ^ 64) (h : le64 a = le64 b) : a = b := by
  rw [← unle_le64 a ha, ← unle_le64 b hb, h]

/-! ### `Res` / `Dec` unfolding lemmas -/

@[simp] theorem Res.bind_ok {α β : Type} (a : α) (f : α → Res β) : (Res.ok a >>= f) = f a := rfl
@[simp] theorem Res.bind_err {α β : Type} (f : α → Res β) : ((Res.err : Res α) >>= f) = Res.err := rfl
@[simp] theorem Res.bind_panic {α β : Type} (f : α → Res β) : ((Res.panic : Res α) >>= f) = Res.panic := rfl
@[simp] theorem Res.pure_eq {α : Type} (a : α) : (pure a : Res α) = Res.ok a := rfl

namespace Dec

@[simp] theorem run_pure {α : Type} (a : α) (bs : List UInt8) : (Pure.pure a : Dec α).run bs = .ok (a, bs) := rfl

theorem run_bind {α β : Type} (d : Dec α) (f : α → Dec β) (bs : List UInt8) :
    (d >>= f).run bs = match d.run bs with
      | .ok (a, r) => (f a).run r
      | .err => .err
      | .panic => .panic := rfl

/-- If the first decoder succeeds, the bind continues on the rest. -/
theorem run_bind_ok {α β : Type} (d : Dec α) (f : α → Dec β) (bs r : List UInt8) (a : α)
    (h : d.run bs = .ok (a, r)) : (d >>= f).run bs = (f a).run r := by
  rw [run_bind, h]

@[simp] theorem run_fail {α : Type} (bs : List UInt8) : (fail : Dec α).run bs = .err := rfl

@[simp] theorem run_lift_ok {α : Type} (a : α) (bs : List UInt8) : (lift (.ok a)).run bs = .ok (a, bs) := rfl

/-- Reading back exactly the bytes that were written. -/
theorem take_append (s rest : List UInt8) (n : Nat) (h : s.length = n) :
    (take n).run (s ++ rest) = .ok (s, rest) := by
  simp only [take, List.length_append]
  rw [if_pos (by omega), List.take_left' h, List.drop_left' h]

theorem u64_le64 (n : Nat) (rest : List UInt8) (h : n < 2 ^ 64) :
    u64.run (le64 n ++ rest) = .ok (n, rest) := by
  unfold u64
  rw [run_bind_ok _ _ _ rest (le64 n) (take_append _ _ _ (le64_length n))]
  simp [unle_le64 n h]

theorem u32_le32 (n : Nat) (rest : List UInt8) (h : n < 2 ^ 32) :
    u32.run (le32 n ++ rest) = .ok (n, rest) := by
  unfold u32
  rw [run_bind_ok _ _ _ rest (le32 n) (take_append _ _ _ (le32_length n))]
  simp [unle_le32 n h]

/-- `many` reads back a concatenation of encodings, element by element. -/
theorem many_flatten {α : Type} (d : Dec α) (e : α → List UInt8) (xs : List α) (rest : List UInt8)
    (h : ∀ x ∈ xs, ∀ r, d.run (e x ++ r) = .ok (x, r)) :
    (many d xs.length).run ((xs.map e).flatten ++ rest) = .ok (xs, rest) := by
  induction xs with
  | nil => simp [many]; rfl
  | cons x xs ih =>
    simp only [List.length_cons, many, List.map_cons, List.flatten_cons, List.append_assoc]
    rw [run_bind_ok _ _ _ _ _ (h x (by simp) _)]
    rw [run_bind_ok _ _ _ _ _ (ih (fun y hy => h y (by simp [hy])))]
    rfl

end Dec
end HS.Wire
