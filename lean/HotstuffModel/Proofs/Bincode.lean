import HotstuffModel.Model.Bincode
import HotstuffModel.Proofs.Base64
/-!
Round-trip lemmas (`decX (encX m ++ rest) = ok (m, rest)`) and panic-freedom lemmas for the bincode model.
-/
namespace HS.Wire
open Dec

/-! ## Round trips of the primitives -/

theorem byteVec_enc (s rest : List UInt8) (h : s.length < 2 ^ 64) :
    byteVec.run (encByteVec s ++ rest) = .ok (s, rest) := by
  unfold byteVec encByteVec
  rw [List.append_assoc, run_bind_ok _ _ _ _ _ (u64_le64 _ _ h)]
  exact take_append s rest _ rfl

theorem vec_enc {α : Type} (d : Dec α) (e : α → List UInt8) (xs : List α) (rest : List UInt8)
    (hl : xs.length < 2 ^ 64) (h : ∀ x ∈ xs, ∀ r, d.run (e x ++ r) = .ok (x, r)) :
    (vec d).run (encVec e xs ++ rest) = .ok (xs, rest) := by
  unfold vec encVec
  rw [List.append_assoc, run_bind_ok _ _ _ _ _ (u64_le64 _ _ hl)]
  exact many_flatten d e xs rest h

theorem option_enc {α : Type} (d : Dec α) (e : α → List UInt8) (o : Option α) (rest : List UInt8)
    (h : ∀ x, o = some x → ∀ r, d.run (e x ++ r) = .ok (x, r)) :
    (option d).run (encOption e o ++ rest) = .ok (o, rest) := by
  unfold option
  cases o with
  | none =>
    have h0 : u8.run (encOption e (none : Option α) ++ rest) = .ok (0, rest) := rfl
    rw [run_bind_ok _ _ _ _ _ h0]
    rfl
  | some x =>
    have h0 : u8.run (encOption e (some x) ++ rest) = .ok (1, e x ++ rest) := rfl
    rw [run_bind_ok _ _ _ _ _ h0]
    have h10 : ¬ ((1 : UInt8) = 0) := by decide
    rw [if_neg h10, if_pos rfl, run_bind_ok _ _ _ _ _ (h x rfl rest)]
    rfl

theorem decDigest_enc (d rest : List UInt8) (h : d.length = 32) :
    decDigest.run (d ++ rest) = .ok (d, rest) := take_append d rest 32 h

theorem decPk_enc (c : Bool) (k rest : List UInt8) (h : k.length = 32) :
    (decPk c).run (encPk k ++ rest) = .ok (k, rest) := by
  unfold decPk encPk
  have hl : (encodeKey k).length < 2 ^ 64 := by
    unfold encodeKey; rw [Base64.encode_length, h]; decide
  rw [run_bind_ok _ _ _ _ _ (byteVec_enc _ rest hl)]
  unfold decodePublicKey
  rw [decodeKey_encodeKey c 32 k h]
  rfl

theorem decSig_enc (s : Sig) (rest : List UInt8) (h : s.WF) :
    decSig.run (encSig s ++ rest) = .ok (s, rest) := by
  unfold decSig encSig
  rw [List.append_assoc, run_bind_ok _ _ _ _ _ (take_append s.p1 _ 32 h.1),
    run_bind_ok _ _ _ _ _ (take_append s.p2 _ 32 h.2)]
  rfl

/-! ## Round trips of the message types -/

theorem decQCVote_enc (c : Bool) (v : List UInt8 × Sig) (rest : List UInt8)
    (h : v.1.length = 32 ∧ v.2.WF) : (decQCVote c).run (encQCVote v ++ rest) = .ok (v, rest) := by
  unfold decQCVote encQCVote
  rw [List.append_assoc, run_bind_ok _ _ _ _ _ (decPk_enc c _ _ h.1),
    run_bind_ok _ _ _ _ _ (decSig_enc _ _ h.2)]
  rfl

theorem decTCVote_enc (c : Bool) (v : List UInt8 × Sig × Nat) (rest : List UInt8)
    (h : v.1.length = 32 ∧ v.2.1.WF ∧ v.2.2 < 2 ^ 64) :
    (decTCVote c).run (encTCVote v ++ rest) = .ok (v, rest) := by
  unfold decTCVote encTCVote
  rw [List.append_assoc, List.append_assoc, run_bind_ok _ _ _ _ _ (decPk_enc c _ _ h.1),
    run_bind_ok _ _ _ _ _ (decSig_enc _ _ h.2.1), run_bind_ok _ _ _ _ _ (u64_le64 _ _ h.2.2)]
  rfl

theorem decQC_enc (c : Bool) (q : QC) (rest : List UInt8) (h : q.WF) :
    (decQC c).run (encQC q ++ rest) = .ok (q, rest) := by
  unfold decQC encQC
  rw [List.append_assoc, List.append_assoc, run_bind_ok _ _ _ _ _ (decDigest_enc _ _ h.1),
    run_bind_ok _ _ _ _ _ (u64_le64 _ _ h.2.1),
    run_bind_ok _ _ _ _ _ (vec_enc _ _ _ _ h.2.2.1 (fun v hv r => decQCVote_enc c v r (h.2.2.2 v hv)))]
  rfl

theorem decTC_enc (c : Bool) (t : TC) (rest : List UInt8) (h : t.WF) :
    (decTC c).run (encTC t ++ rest) = .ok (t, rest) := by
  unfold decTC encTC
  rw [List.append_assoc, run_bind_ok _ _ _ _ _ (u64_le64 _ _ h.1),
    run_bind_ok _ _ _ _ _ (vec_enc _ _ _ _ h.2.1 (fun v hv r => decTCVote_enc c v r (h.2.2 v hv)))]
  rfl

theorem decBlock_enc (c : Bool) (b : Block) (rest : List UInt8) (h : b.WF) :
    (decBlock c).run (encBlock b ++ rest) = .ok (b, rest) := by
  obtain ⟨hqc, htc, ha, hr, hpl, hp, hs⟩ := h
  unfold decBlock encBlock
  simp only [List.append_assoc]
  rw [run_bind_ok _ _ _ _ _ (decQC_enc c _ _ hqc),
    run_bind_ok _ _ _ _ _ (option_enc _ _ _ _ (fun t ht r => decTC_enc c t r (htc t ht))),
    run_bind_ok _ _ _ _ _ (decPk_enc c _ _ ha),
    run_bind_ok _ _ _ _ _ (u64_le64 _ _ hr),
    run_bind_ok _ _ _ _ _ (vec_enc decDigest id _ _ hpl (fun d hd r => decDigest_enc d r (hp d hd))),
    run_bind_ok _ _ _ _ _ (decSig_enc _ _ hs)]
  rfl

theorem decVote_enc (c : Bool) (v : Vote) (rest : List UInt8) (h : v.WF) :
    (decVote c).run (encVote v ++ rest) = .ok (v, rest) := by
  obtain ⟨hh, hr, ha, hs⟩ := h
  unfold decVote encVote
  simp only [List.append_assoc]
  rw [run_bind_ok _ _ _ _ _ (decDigest_enc _ _ hh),
    run_bind_ok _ _ _ _ _ (u64_le64 _ _ hr),
    run_bind_ok _ _ _ _ _ (decPk_enc c _ _ ha),
    run_bind_ok _ _ _ _ _ (decSig_enc _ _ hs)]
  rfl

theorem decTimeout_enc (c : Bool) (t : Timeout) (rest : List UInt8) (h : t.WF) :
    (decTimeout c).run (encTimeout t ++ rest) = .ok (t, rest) := by
  obtain ⟨hq, hr, ha, hs⟩ := h
  unfold decTimeout encTimeout
  simp only [List.append_assoc]
  rw [run_bind_ok _ _ _ _ _ (decQC_enc c _ _ hq),
    run_bind_ok _ _ _ _ _ (u64_le64 _ _ hr),
    run_bind_ok _ _ _ _ _ (decPk_enc c _ _ ha),
    run_bind_ok _ _ _ _ _ (decSig_enc _ _ hs)]
  rfl

theorem decCMsg_enc (c : Bool) (m : CMsg) (rest : List UInt8) (h : m.WF) :
    (decCMsg c).run (encCMsg m ++ rest) = .ok (m, rest) := by
  unfold decCMsg
  cases m with
  | propose b =>
    simp only [encCMsg, List.append_assoc]
    rw [run_bind_ok _ _ _ _ _ (u32_le32 0 _ (by decide))]
    rw [if_pos rfl, run_bind_ok _ _ _ _ _ (decBlock_enc c b rest h)]
    rfl
  | vote v =>
    simp only [encCMsg, List.append_assoc]
    rw [run_bind_ok _ _ _ _ _ (u32_le32 1 _ (by decide))]
    rw [if_neg (by decide), if_pos rfl, run_bind_ok _ _ _ _ _ (decVote_enc c v rest h)]
    rfl
  | timeout t =>
    simp only [encCMsg, List.append_assoc]
    rw [run_bind_ok _ _ _ _ _ (u32_le32 2 _ (by decide))]
    rw [if_neg (by decide), if_neg (by decide), if_pos rfl,
      run_bind_ok _ _ _ _ _ (decTimeout_enc c t rest h)]
    rfl
  | tc t =>
    simp only [encCMsg, List.append_assoc]
    rw [run_bind_ok _ _ _ _ _ (u32_le32 3 _ (by decide))]
    rw [if_neg (by decide), if_neg (by decide), if_neg (by decide), if_pos rfl,
      run_bind_ok _ _ _ _ _ (decTC_enc c t rest h)]
    rfl
  | syncRequest d k =>
    simp only [encCMsg, List.append_assoc]
    rw [run_bind_ok _ _ _ _ _ (u32_le32 4 _ (by decide))]
    rw [if_neg (by decide), if_neg (by decide), if_neg (by decide), if_neg (by decide), if_pos rfl,
      run_bind_ok _ _ _ _ _ (decDigest_enc d _ h.1), run_bind_ok _ _ _ _ _ (decPk_enc c k rest h.2)]
    rfl

theorem decMMsg_enc (c : Bool) (m : MMsg) (rest : List UInt8) (h : m.WF) :
    (decMMsg c).run (encMMsg m ++ rest) = .ok (m, rest) := by
  unfold decMMsg
  cases m with
  | batch txs =>
    simp only [encMMsg, List.append_assoc]
    rw [run_bind_ok _ _ _ _ _ (u32_le32 0 _ (by decide))]
    rw [if_pos rfl, run_bind_ok _ _ _ _ _
      (vec_enc byteVec encByteVec txs rest h.1 (fun tx ht r => byteVec_enc tx r (h.2 tx ht)))]
    rfl
  | batchRequest ds k =>
    simp only [encMMsg, List.append_assoc]
    rw [run_bind_ok _ _ _ _ _ (u32_le32 1 _ (by decide))]
    rw [if_neg (by decide), if_pos rfl,
      run_bind_ok _ _ _ _ _ (vec_enc decDigest id ds _ h.1 (fun d hd r => decDigest_enc d r (h.2.1 d hd))),
      run_bind_ok _ _ _ _ _ (decPk_enc c k rest h.2.2)]
    rfl

/-! ## Panic freedom -/

/-- A decoder that returns a value or an error on every input. -/
def Dec.NoPanic {α : Type} (d : Dec α) : Prop := ∀ bs, d.run bs ≠ .panic

namespace Dec.NoPanic

theorem pure {α : Type} (a : α) : NoPanic (Pure.pure a : Dec α) := by
  intro bs h; cases h

theorem bind {α β : Type} {d : Dec α} {f : α → Dec β} (hd : NoPanic d) (hf : ∀ a, NoPanic (f a)) :
    NoPanic (d >>= f) := by
  intro bs
  rw [run_bind]
  cases h : d.run bs with
  | ok p => exact hf p.1 p.2
  | err => intro h'; cases h'
  | panic => exact absurd h (hd bs)

theorem fail {α : Type} : NoPanic (Dec.fail : Dec α) := by
  intro bs h; cases h

theorem lift {α : Type} (r : Res α) (h : r ≠ .panic) : NoPanic (Dec.lift r) := by
  intro bs
  cases r with
  | ok a => intro h'; cases h'
  | err => intro h'; cases h'
  | panic => exact absurd rfl h

theorem take (n : Nat) : NoPanic (Dec.take n) := by
  intro bs
  simp only [Dec.take]
  split <;> (intro h; cases h)

theorem u8 : NoPanic Dec.u8 := by
  intro bs
  cases bs <;> (intro h; cases h)

theorem u64 : NoPanic Dec.u64 := bind (take 8) (fun _ => pure _)
theorem u32 : NoPanic Dec.u32 := bind (take 4) (fun _ => pure _)

theorem many {α : Type} {d : Dec α} (hd : NoPanic d) (n : Nat) : NoPanic (Dec.many d n) := by
  induction n with
  | zero => exact pure _
  | succ n ih => exact bind hd (fun _ => bind ih (fun _ => pure _))

theorem vec {α : Type} {d : Dec α} (hd : NoPanic d) : NoPanic (Dec.vec d) :=
  bind u64 (fun n => many hd n)

theorem byteVec : NoPanic Dec.byteVec := bind u64 (fun n => take n)

theorem ite {α : Type} {p : Prop} [Decidable p] {a b : Dec α} (ha : NoPanic a) (hb : NoPanic b) :
    NoPanic (if p then a else b) := by
  split
  · exact ha
  · exact hb

theorem option {α : Type} {d : Dec α} (hd : NoPanic d) : NoPanic (Dec.option d) :=
  bind u8 (fun _ => ite (pure _) (ite (bind hd (fun _ => pure _)) fail))

end Dec.NoPanic

open Dec.NoPanic in
/-- With the checked slice, key decoding never panics. -/
theorem decodeKey_checked_ne_panic (n : Nat) (s : List UInt8) : decodeKey true n s ≠ .panic := by
  unfold decodeKey
  split
  · intro h; cases h
  · split
    · intro h; cases h
    · intro h; cases h

section
open Dec.NoPanic

theorem decDigest_noPanic : decDigest.NoPanic := take 32
theorem decPk_noPanic : (decPk true).NoPanic :=
  bind byteVec (fun s => lift _ (decodeKey_checked_ne_panic 32 s))
theorem decSig_noPanic : decSig.NoPanic := bind (take 32) (fun _ => bind (take 32) (fun _ => pure _))
theorem decQCVote_noPanic : (decQCVote true).NoPanic :=
  bind decPk_noPanic (fun _ => bind decSig_noPanic (fun _ => pure _))
theorem decTCVote_noPanic : (decTCVote true).NoPanic :=
  bind decPk_noPanic (fun _ => bind decSig_noPanic (fun _ => bind u64 (fun _ => pure _)))
theorem decQC_noPanic : (decQC true).NoPanic :=
  bind decDigest_noPanic (fun _ => bind u64 (fun _ => bind (vec decQCVote_noPanic) (fun _ => pure _)))
theorem decTC_noPanic : (decTC true).NoPanic :=
  bind u64 (fun _ => bind (vec decTCVote_noPanic) (fun _ => pure _))
theorem decBlock_noPanic : (decBlock true).NoPanic :=
  bind decQC_noPanic (fun _ => bind (option decTC_noPanic) (fun _ => bind decPk_noPanic (fun _ =>
    bind u64 (fun _ => bind (vec decDigest_noPanic) (fun _ => bind decSig_noPanic (fun _ => pure _))))))
theorem decVote_noPanic : (decVote true).NoPanic :=
  bind decDigest_noPanic (fun _ => bind u64 (fun _ => bind decPk_noPanic (fun _ =>
    bind decSig_noPanic (fun _ => pure _))))
theorem decTimeout_noPanic : (decTimeout true).NoPanic :=
  bind decQC_noPanic (fun _ => bind u64 (fun _ => bind decPk_noPanic (fun _ =>
    bind decSig_noPanic (fun _ => pure _))))
theorem decCMsg_noPanic : (decCMsg true).NoPanic :=
  bind u32 (fun _ =>
    ite (bind decBlock_noPanic (fun _ => pure _))
    (ite (bind decVote_noPanic (fun _ => pure _))
    (ite (bind decTimeout_noPanic (fun _ => pure _))
    (ite (bind decTC_noPanic (fun _ => pure _))
    (ite (bind decDigest_noPanic (fun _ => bind decPk_noPanic (fun _ => pure _))) fail)))))
theorem decMMsg_noPanic : (decMMsg true).NoPanic :=
  bind u32 (fun _ =>
    ite (bind (vec byteVec) (fun _ => pure _))
    (ite (bind (vec decDigest_noPanic) (fun _ => bind decPk_noPanic (fun _ => pure _))) fail))
end

end HS.Wire
