import HotstuffModel.Model.Synchronizer
/-
Proofs about the timed model of the consensus `Synchronizer` task (C07): invariants of its three
tables, and the request / retry / resume rules for every event sequence.
-/
namespace HS.Sync

/-- The tables stay consistent with one another. -/
structure Inv (s : State) : Prop where
  /-- every outstanding request has a waiting child -/
  reqWaited : ∀ r ∈ s.requests, ∃ w ∈ s.waiting, w.parent = r.parent
  /-- every waiting child's parent is requested -/
  waitRequested : ∀ w ∈ s.waiting, hasReq s w.parent = true
  /-- the waiters are exactly the pending blocks -/
  waitPending : ∀ w ∈ s.waiting, w.block ∈ s.pending
  pendingWaits : ∀ b ∈ s.pending, ∃ w ∈ s.waiting, w.block = b
  /-- one waiter per block, one request per parent -/
  waitNodup : (s.waiting.map (·.block)).Nodup
  reqNodup : (s.requests.map (·.parent)).Nodup

theorem inv_init : Inv ({} : State) := by
  constructor <;> simp [hasReq]

theorem hasReq_iff (s : State) (p : Nat) : hasReq s p = true ↔ ∃ r ∈ s.requests, r.parent = p := by
  simp [hasReq]

theorem nodup_map_filter {α β : Type} (f : α → β) (q : α → Bool) (l : List α) (h : (l.map f).Nodup) :
    ((l.filter q).map f).Nodup := by
  induction l with
  | nil => simp
  | cons a l ih =>
    simp only [List.map_cons, List.nodup_cons] at h
    by_cases hq : q a = true
    · simp only [List.filter_cons_of_pos hq, List.map_cons, List.nodup_cons]
      refine ⟨?_, ih h.2⟩
      intro hm
      apply h.1
      simp only [List.mem_map, List.mem_filter] at hm ⊢
      obtain ⟨x, ⟨hx, _⟩, hfx⟩ := hm
      exact ⟨x, hx, hfx⟩
    · simp only [List.filter_cons_of_neg hq]
      exact ih h.2

theorem nodup_map_of_inj {α β : Type} (f : α → β) (hf : ∀ a b, f a = f b → a = b) (l : List α)
    (h : l.Nodup) : (l.map f).Nodup := by
  induction l with
  | nil => simp
  | cons a l ih =>
    simp only [List.nodup_cons] at h
    simp only [List.map_cons, List.nodup_cons, List.mem_map, not_exists, not_and]
    refine ⟨?_, ih h.2⟩
    intro x hx hfx
    exact h.1 (hf _ _ hfx ▸ hx)

theorem inj_of_nodup_map {α β : Type} (f : α → β) (l : List α) (h : (l.map f).Nodup)
    {x y : α} (hx : x ∈ l) (hy : y ∈ l) (hxy : f x = f y) : x = y := by
  induction l with
  | nil => cases hx
  | cons a l ih =>
    simp only [List.map_cons, List.nodup_cons, List.mem_map, not_exists, not_and] at h
    simp only [List.mem_cons] at hx hy
    rcases hx with rfl | hx <;> rcases hy with rfl | hy
    · rfl
    · exact absurd hxy.symm (h.1 y hy)
    · exact absurd hxy (h.1 x hx)
    · exact ih h.2 hx hy

theorem step_suspend_dup (delay : Nat) (s : State) (b p a now : Nat) (hb : b ∈ s.pending) :
    step delay s (.suspend b p a now) = (s, []) := by
  simp [step, hb]

theorem step_suspend_req (delay : Nat) (s : State) (b p a now : Nat) (hb : b ∉ s.pending)
    (hr : hasReq s p = true) :
    step delay s (.suspend b p a now) =
      ({ s with pending := b :: s.pending, waiting := s.waiting ++ [⟨b, p⟩] }, []) := by
  simp [step, hb, hr]

theorem step_suspend_new (delay : Nat) (s : State) (b p a now : Nat) (hb : b ∉ s.pending)
    (hr : hasReq s p = false) :
    step delay s (.suspend b p a now) =
      ({ pending := b :: s.pending, waiting := s.waiting ++ [⟨b, p⟩], requests := s.requests ++ [⟨p, now⟩] },
        [.request a p]) := by
  simp [step, hb, hr]

theorem step_stored_none (delay : Nat) (s : State) (p : Nat) (h : ∀ w ∈ s.waiting, w.parent ≠ p) :
    step delay s (.stored p) = (s, []) := by
  have h1 : s.waiting.filter (fun w => w.parent == p) = [] := by
    rw [List.filter_eq_nil_iff]
    intro w hw
    simpa using h w hw
  have h2 : s.waiting.filter (fun w => w.parent != p) = s.waiting := by
    rw [List.filter_eq_self]
    intro w hw
    simpa using h w hw
  cases s
  simp_all [step]

theorem step_stored_some (delay : Nat) (s : State) (p : Nat) (h : ∃ w ∈ s.waiting, w.parent = p) :
    step delay s (.stored p) =
      ({ pending := s.pending.filter (fun b => !((s.waiting.filter (fun w => w.parent == p)).any (fun w => w.block == b))),
         requests := s.requests.filter (fun r => r.parent != p),
         waiting := s.waiting.filter (fun w => w.parent != p) },
       (s.waiting.filter (fun w => w.parent == p)).map (fun w => .loopback w.block)) := by
  have h1 : (s.waiting.filter (fun w => w.parent == p)).isEmpty = false := by
    obtain ⟨w, hw, hwp⟩ := h
    cases hq : s.waiting.filter (fun w => w.parent == p) with
    | nil =>
      have : w ∈ s.waiting.filter (fun w => w.parent == p) := by simp [hw, hwp]
      rw [hq] at this
      cases this
    | cons _ _ => rfl
  simp [step, h1]

theorem inv_add_waiter (s : State) (b p : Nat) (h : Inv s) (hb : b ∉ s.pending) (reqs : List Req)
    (hreqs : reqs = s.requests ∨ (hasReq s p = false ∧ ∃ now, reqs = s.requests ++ [⟨p, now⟩]))
    (hr : ∃ r ∈ reqs, r.parent = p) :
    Inv { pending := b :: s.pending, waiting := s.waiting ++ [⟨b, p⟩], requests := reqs } := by
  have hnw : ∀ w ∈ s.waiting, w.block ≠ b := fun w hw hwb => hb (hwb ▸ h.waitPending w hw)
  have hsub : ∀ r ∈ s.requests, r ∈ reqs := by
    intro r hr1
    rcases hreqs with rfl | ⟨_, now, rfl⟩
    · exact hr1
    · simp [hr1]
  constructor
  · intro r hr1
    simp only at hr1
    rcases hreqs with rfl | ⟨_, now, rfl⟩
    · obtain ⟨w, hw, hwp⟩ := h.reqWaited r hr1
      exact ⟨w, by simp [hw], hwp⟩
    · simp only [List.mem_append, List.mem_singleton] at hr1
      rcases hr1 with hr1 | rfl
      · obtain ⟨w, hw, hwp⟩ := h.reqWaited r hr1
        exact ⟨w, by simp [hw], hwp⟩
      · exact ⟨⟨b, p⟩, by simp, rfl⟩
  · intro w hw
    simp only [List.mem_append, List.mem_singleton] at hw
    rw [hasReq_iff]
    rcases hw with hw | rfl
    · have := h.waitRequested w hw
      rw [hasReq_iff] at this
      obtain ⟨r, hr1, hr2⟩ := this
      exact ⟨r, hsub r hr1, hr2⟩
    · exact hr
  · intro w hw
    simp only [List.mem_append, List.mem_singleton] at hw
    rcases hw with hw | rfl
    · simp [h.waitPending w hw]
    · simp
  · intro x hx
    simp only [List.mem_cons] at hx
    rcases hx with rfl | hx
    · exact ⟨⟨x, p⟩, by simp, rfl⟩
    · obtain ⟨w, hw, hwb⟩ := h.pendingWaits x hx
      exact ⟨w, by simp [hw], hwb⟩
  · simp only [List.map_append, List.map_cons, List.map_nil]
    rw [List.nodup_append]
    refine ⟨h.waitNodup, by simp, ?_⟩
    intro a ha c hc
    simp only [List.mem_map] at ha
    simp only [List.mem_singleton] at hc
    obtain ⟨w, hw, rfl⟩ := ha
    subst hc
    exact hnw w hw
  · rcases hreqs with rfl | ⟨hno, now, rfl⟩
    · exact h.reqNodup
    · simp only [List.map_append, List.map_cons, List.map_nil]
      rw [List.nodup_append]
      refine ⟨h.reqNodup, by simp, ?_⟩
      intro a ha c hc
      simp only [List.mem_map] at ha
      simp only [List.mem_singleton] at hc
      obtain ⟨r, hr1, rfl⟩ := ha
      rw [hc]
      intro hrp
      have : hasReq s p = true := (hasReq_iff s p).2 ⟨r, hr1, hrp⟩
      rw [hno] at this
      cases this

theorem step_inv (delay : Nat) (s : State) (e : Event) (h : Inv s) : Inv (step delay s e).1 := by
  cases e with
  | tick now => simpa [step] using h
  | suspend b p a now =>
    by_cases hb : b ∈ s.pending
    · rw [step_suspend_dup delay s b p a now hb]; exact h
    · cases hr : hasReq s p with
      | true =>
        rw [step_suspend_req delay s b p a now hb hr]
        exact inv_add_waiter s b p h hb s.requests (Or.inl rfl) ((hasReq_iff s p).1 hr)
      | false =>
        rw [step_suspend_new delay s b p a now hb hr]
        exact inv_add_waiter s b p h hb _ (Or.inr ⟨hr, now, rfl⟩) ⟨⟨p, now⟩, by simp, rfl⟩
  | stored p =>
    by_cases hw : ∃ w ∈ s.waiting, w.parent = p
    · rw [step_stored_some delay s p hw]
      constructor
      · intro r hr
        simp only [List.mem_filter, bne_iff_ne, ne_eq] at hr
        obtain ⟨w, hw1, hwp⟩ := h.reqWaited r hr.1
        refine ⟨w, ?_, hwp⟩
        simp only [List.mem_filter, bne_iff_ne, ne_eq]
        exact ⟨hw1, by rw [hwp]; exact hr.2⟩
      · intro w hw1
        simp only [List.mem_filter, bne_iff_ne, ne_eq] at hw1
        have := h.waitRequested w hw1.1
        rw [hasReq_iff] at this ⊢
        obtain ⟨r, hr1, hr2⟩ := this
        refine ⟨r, ?_, hr2⟩
        simp only [List.mem_filter, bne_iff_ne, ne_eq]
        exact ⟨hr1, by rw [hr2]; exact hw1.2⟩
      · intro w hw1
        simp only [List.mem_filter, bne_iff_ne, ne_eq] at hw1
        simp only [List.mem_filter]
        refine ⟨h.waitPending w hw1.1, ?_⟩
        simp only [Bool.not_eq_eq_eq_not, Bool.not_true, List.any_eq_false, List.mem_filter, beq_iff_eq, and_imp]
        intro x hx hxp hxb
        have : x = w := inj_of_nodup_map (fun w : Wait => w.block) s.waiting h.waitNodup hx hw1.1 hxb
        subst this
        exact hw1.2 hxp
      · intro b hb
        simp only [List.mem_filter, Bool.not_eq_eq_eq_not, Bool.not_true, List.any_eq_false, beq_iff_eq, and_imp] at hb
        obtain ⟨w, hw1, hwb⟩ := h.pendingWaits b hb.1
        refine ⟨w, ?_, hwb⟩
        simp only [List.mem_filter, bne_iff_ne, ne_eq]
        refine ⟨hw1, ?_⟩
        intro hwp
        exact hb.2 w hw1 hwp hwb
      · exact nodup_map_filter _ _ _ h.waitNodup
      · exact nodup_map_filter _ _ _ h.reqNodup
    · have hw' : ∀ w ∈ s.waiting, w.parent ≠ p := fun w hw1 hwp => hw ⟨w, hw1, hwp⟩
      rw [step_stored_none delay s p hw']; exact h

theorem run_inv (delay : Nat) (s : State) (es : List Event) (h : Inv s) : Inv (run delay s es).1 := by
  induction es generalizing s with
  | nil => simpa [run] using h
  | cons e es ih => simpa [run] using ih _ (step_inv delay s e h)

/-! ### request -/

/-- The first child of a missing parent: one request, to the child's author, stamped `now`. -/
theorem suspend_first (delay : Nat) (s : State) (b p a now : Nat)
    (hb : b ∉ s.pending) (hr : hasReq s p = false) :
    (step delay s (.suspend b p a now)).2 = [.request a p] ∧
    (⟨p, now⟩ : Req) ∈ (step delay s (.suspend b p a now)).1.requests := by
  rw [step_suspend_new delay s b p a now hb hr]
  simp

/-- Another child of a parent that is already requested, or a block handed over twice: nothing is sent. -/
theorem suspend_silent (delay : Nat) (s : State) (b p a now : Nat)
    (h : b ∈ s.pending ∨ hasReq s p = true) :
    (step delay s (.suspend b p a now)).2 = [] := by
  by_cases hb : b ∈ s.pending
  · rw [step_suspend_dup delay s b p a now hb]
  · rcases h with h | h
    · exact absurd h hb
    · rw [step_suspend_req delay s b p a now hb h]

/-! ### retry -/

theorem tick_out (delay : Nat) (s : State) (now p : Nat) :
    .broadcast p ∈ (step delay s (.tick now)).2 ↔ ∃ r ∈ s.requests, r.parent = p ∧ r.ts + delay < now := by
  simp only [step, due, List.mem_map, List.mem_filter, decide_eq_true_eq, Out.broadcast.injEq]
  constructor
  · rintro ⟨r, ⟨hr, hd⟩, rfl⟩
    exact ⟨r, hr, rfl, hd⟩
  · rintro ⟨r, hr, rfl, hd⟩
    exact ⟨r, ⟨hr, hd⟩, rfl⟩

/-- The timer only ever broadcasts. -/
theorem tick_only_broadcasts (delay : Nat) (s : State) (now : Nat) (o : Out)
    (h : o ∈ (step delay s (.tick now)).2) : ∃ p, o = .broadcast p := by
  simp only [step, List.mem_map] at h
  obtain ⟨r, _, rfl⟩ := h
  exact ⟨_, rfl⟩

/-- A request survives every event but the arrival of its parent, with its timestamp unchanged. -/
theorem request_persists_step (delay : Nat) (s : State) (e : Event) (r : Req)
    (hr : r ∈ s.requests) (he : e ≠ .stored r.parent) : r ∈ (step delay s e).1.requests := by
  cases e with
  | tick now => simpa [step] using hr
  | suspend b p a now =>
    by_cases hb : b ∈ s.pending
    · rw [step_suspend_dup delay s b p a now hb]; exact hr
    · cases hq : hasReq s p with
      | true => rw [step_suspend_req delay s b p a now hb hq]; exact hr
      | false => rw [step_suspend_new delay s b p a now hb hq]; simp [hr]
  | stored p =>
    have hp : r.parent ≠ p := by
      intro h
      exact he (by rw [h])
    by_cases hw : ∃ w ∈ s.waiting, w.parent = p
    · rw [step_stored_some delay s p hw]
      simp [hr, hp]
    · have hw' : ∀ w ∈ s.waiting, w.parent ≠ p := fun w hw1 hwp => hw ⟨w, hw1, hwp⟩
      rw [step_stored_none delay s p hw']; exact hr

theorem request_persists (delay : Nat) (s : State) (es : List Event) (r : Req)
    (hr : r ∈ s.requests) (he : ∀ e ∈ es, e ≠ .stored r.parent) : r ∈ (run delay s es).1.requests := by
  induction es generalizing s with
  | nil => simpa [run] using hr
  | cons e es ih =>
    simp only [run]
    exact ih _ (request_persists_step delay s e r hr (he e (by simp))) (fun e' he' => he e' (by simp [he']))

/-! ### resume -/

/-- A block goes back to the core only when its own parent is stored, and it was waiting for it. -/
theorem loopback_only_on_stored (delay : Nat) (s : State) (e : Event) (b : Nat)
    (h : .loopback b ∈ (step delay s e).2) : ∃ p, e = .stored p ∧ (⟨b, p⟩ : Wait) ∈ s.waiting := by
  cases e with
  | tick now =>
    obtain ⟨p, hp⟩ := tick_only_broadcasts delay s now _ h
    cases hp
  | suspend b' p a now =>
    by_cases hb : b' ∈ s.pending
    · rw [step_suspend_dup delay s b' p a now hb] at h; cases h
    · cases hq : hasReq s p with
      | true => rw [step_suspend_req delay s b' p a now hb hq] at h; cases h
      | false => rw [step_suspend_new delay s b' p a now hb hq] at h; simp at h
  | stored p =>
    refine ⟨p, rfl, ?_⟩
    simp only [step, List.mem_map, List.mem_filter, beq_iff_eq, Out.loopback.injEq] at h
    obtain ⟨w, ⟨hw, hwp⟩, hwb⟩ := h
    cases w
    simp_all

/-- When the parent is stored, every child waiting for it goes back, … -/
theorem stored_resumes_all (delay : Nat) (s : State) (p b : Nat) (h : (⟨b, p⟩ : Wait) ∈ s.waiting) :
    .loopback b ∈ (step delay s (.stored p)).2 := by
  simp only [step, List.mem_map, List.mem_filter, beq_iff_eq, Out.loopback.injEq]
  exact ⟨⟨b, p⟩, ⟨h, rfl⟩, rfl⟩

/-- … each once, … -/
theorem stored_resumes_once (delay : Nat) (s : State) (p : Nat) (h : Inv s) :
    (step delay s (.stored p)).2.Nodup := by
  simp only [step]
  have h1 := nodup_map_filter (fun w : Wait => w.block) (fun w => w.parent == p) s.waiting h.waitNodup
  have : (s.waiting.filter (fun w => w.parent == p)).map (fun w => Out.loopback w.block)
      = ((s.waiting.filter (fun w => w.parent == p)).map (fun w => w.block)).map Out.loopback := by
    simp [List.map_map]
  rw [this]
  exact nodup_map_of_inj Out.loopback (fun a b hab => by cases hab; rfl) _ h1

/-- … and afterwards nothing of that parent is left: no waiter, no pending child, no request — so no
later tick repeats the request. -/
theorem stored_clears (delay : Nat) (s : State) (p : Nat) (h : Inv s) :
    let s' := (step delay s (.stored p)).1
    (∀ w ∈ s'.waiting, w.parent ≠ p) ∧ hasReq s' p = false ∧
    (∀ b, .loopback b ∈ (step delay s (.stored p)).2 → b ∉ s'.pending) := by
  have hI := step_inv delay s (.stored p) h
  refine ⟨?_, ?_, ?_⟩
  · intro w hw
    simp only [step, List.mem_filter, bne_iff_ne, ne_eq] at hw
    exact hw.2
  · -- a request for p would need a waiter for p
    cases hq : hasReq (step delay s (.stored p)).1 p with
    | false => rfl
    | true =>
      rw [hasReq_iff] at hq
      obtain ⟨r, hr1, hr2⟩ := hq
      obtain ⟨w, hw, hwp⟩ := hI.reqWaited r hr1
      simp only [step, List.mem_filter, bne_iff_ne, ne_eq] at hw
      exact absurd (hwp.trans hr2) hw.2
  · intro b hb hpend
    obtain ⟨w, hw, hwb⟩ := hI.pendingWaits b hpend
    simp only [step, List.mem_map, List.mem_filter, beq_iff_eq, Out.loopback.injEq, bne_iff_ne, ne_eq] at hb hw
    obtain ⟨x, ⟨hx, hxp⟩, hxb⟩ := hb
    have : x = w := inj_of_nodup_map (fun w : Wait => w.block) s.waiting h.waitNodup hx hw.1 (hxb.trans hwb.symm)
    subst this
    exact hw.2 hxp

theorem no_retry_after_stored (delay : Nat) (s : State) (p now : Nat) (h : Inv s) :
    .broadcast p ∉ (step delay (step delay s (.stored p)).1 (.tick now)).2 := by
  intro hb
  rw [tick_out] at hb
  obtain ⟨r, hr, hrp, _⟩ := hb
  have := (stored_clears delay s p h).2.1
  have h2 : hasReq (step delay s (.stored p)).1 p = true := (hasReq_iff _ _).2 ⟨r, hr, hrp⟩
  rw [this] at h2
  cases h2

end HS.Sync
