import HotstuffModel.Model.Node
import HotstuffModel.Proofs.AggregatorOK
import HotstuffModel.Proofs.Weight
import HotstuffModel.Proofs.Committee
/-
Why C06 needs "messages are not lost": a TC is broadcast once, and a timeout does not carry the TC
that let its sender enter the round.  If the only copies of TC(r) are lost, the nodes still in round
`r` (the set `Lo`) and the nodes already in `r + 1` (the set `Hi`) can exchange timeouts and fire
their timers for ever without anyone moving, as soon as neither set holds a quorum:

* a node of `Hi` drops every timeout of round `r` (`timeout.round < self.round`);
* a node of `Lo` counts timeouts of round `r` only from `Lo`, and of round `r + 1` only from `Hi`,
  so neither tally reaches the quorum, and the high QCs carried by these timeouts are all older than
  `r`, so `process_qc` does not move the round either.

This is the situation the network simulation ran into with lossy cuts (DESIGN 0.7); it is proved here
for the node model, for every such input sequence.
-/
namespace HS
open Node

/-- What reaches a stuck node: its own timer, and timeouts of rounds `≤ r + 1` whose high QC is older
than `r`, those of round `r` from `Lo` and those of round `r + 1` from `Hi`. -/
def StuckInput (r : Nat) (Lo Hi : List Nat) : Event → Prop
  | .timer => True
  | .msg (.timeout t) =>
    t.highQC.round < r ∧ t.round ≤ r + 1 ∧ (t.round = r → t.author ∈ Lo) ∧ (t.round = r + 1 → t.author ∈ Hi)
  | _ => False

/-- A node of `Lo`: in round `r`, high QC older than `r`, and its tallies of rounds `r` / `r + 1`
hold only members of `Lo` / `Hi`. -/
structure Behind (c : Committee) (r : Nat) (Lo Hi : List Nat) (s : Node) : Prop where
  round : s.round = r
  high : s.highQC.round < r
  self : s.name ∈ Lo
  ok : AggOK c s.agg
  lo : ∀ m, (r, m) ∈ s.agg.timeouts → ∀ k ∈ m.used, k ∈ Lo
  hi : ∀ m, (r + 1, m) ∈ s.agg.timeouts → ∀ k ∈ m.used, k ∈ Hi

/-- A set without a quorum: no duplicate-free list of its members weighs a quorum. -/
def NoQuorum (c : Committee) (S : List Nat) : Prop :=
  ∀ l : List Nat, l.Nodup → (∀ x ∈ l, x ∈ S) → c.weight l < c.quorum

theorem getT_used (a : Aggregator) (ρ : Nat) (S : List Nat)
    (h : ∀ m, (ρ, m) ∈ a.timeouts → ∀ k ∈ m.used, k ∈ S) : ∀ k ∈ (a.getT ρ).used, k ∈ S := by
  unfold Aggregator.getT
  cases hl : a.timeouts.lookup ρ with
  | none => intro k hk; simp at hk
  | some m =>
    obtain ⟨l1, l2, e, _⟩ := List.lookup_eq_some_iff.mp hl
    exact h m (by rw [e]; simp)

/-- The tally of a set without a quorum never returns a certificate. -/
theorem no_tc_without_quorum (c : Committee) (m m' : TCMaker) (t : Timeout) (tc : TC) (S : List Nat)
    (hm : TCMakerOK c t.round m) (hv : t.verify c = .ok ())
    (hS : NoQuorum c S) (hused : ∀ k ∈ m.used, k ∈ S) (ha : t.author ∈ S)
    (h : m.append c t = .ok (m', some tc)) : False := by
  have h1 := (tcmaker_append_ok c m m' t (some tc) hm hv h).2.1 tc rfl
  obtain ⟨_, _, hq, hnew, _⟩ := h1
  have hnd : (m.votes.map (fun v => v.1) ++ [t.author]).Nodup := by
    rw [List.nodup_append]
    refine ⟨hm.nodup, by simp, ?_⟩
    intro a ha' b hb hab
    simp only [List.mem_singleton] at hb
    rw [hb] at hab
    rw [hab] at ha'
    exact hnew ((hm.used _).mpr ha')
  have hsub : ∀ x ∈ m.votes.map (fun v => v.1) ++ [t.author], x ∈ S := by
    intro x hx
    simp only [List.mem_append, List.mem_singleton] at hx
    rcases hx with hx | rfl
    · exact hused x ((hm.used x).mpr hx)
    · exact ha
  have hw := hS _ hnd hsub
  rw [weight_append_single] at hw
  have := hm.weight
  omega

theorem append_none_used (c : Committee) (m m' : TCMaker) (t : Timeout)
    (h : m.append c t = .ok (m', none)) : m'.used = t.author :: m.used := by
  unfold TCMaker.append at h
  by_cases hu : t.author ∈ m.used
  · simp [hu] at h
  · by_cases hq : Gen.tcMakerQuorum (m.weight + c.stake t.author) c.quorum
    · simp [hu, hq] at h
    · simp [hu, hq] at h
      rw [← h]

theorem processQC_old (s : Node) (qc : QC) (h : qc.round < s.round) :
    (s.processQC qc).round = s.round ∧ (s.processQC qc).agg = s.agg ∧ (s.processQC qc).name = s.name ∧
    ((s.processQC qc).highQC = s.highQC ∨ (s.processQC qc).highQC = qc) := by
  have hst : Gen.advanceStale qc.round s.round := h
  unfold processQC advanceRound updateHighQC
  simp only [hst, if_true]
  split <;> simp

theorem handleTimeout_behind (c : Committee) (r : Nat) (Lo Hi : List Nat) (s : Node) (t : Timeout)
    (hLo : NoQuorum c Lo) (hHi : NoQuorum c Hi) (hb : Behind c r Lo Hi s)
    (hq : t.highQC.round < r) (hr : t.round ≤ r + 1)
    (hlo : t.round = r → t.author ∈ Lo) (hhi : t.round = r + 1 → t.author ∈ Hi) :
    Behind c r Lo Hi (s.handleTimeout c t) := by
  unfold handleTimeout
  by_cases hstale : Gen.timeoutStale t.round s.round
  · simpa [hstale] using hb
  · simp only [hstale, if_false]
    cases hv : t.verify c with
    | error e => simpa using hb
    | ok u =>
      cases u
      simp only
      obtain ⟨p1, p2, p3, p4⟩ := processQC_old s t.highQC (by rw [hb.round]; exact hq)
      have hhigh : (s.processQC t.highQC).highQC.round < r := by
        rcases p4 with p4 | p4
        · rw [p4]; exact hb.high
        · rw [p4]; exact hq
      have hb1 : Behind c r Lo Hi (s.processQC t.highQC) :=
        ⟨by rw [p1]; exact hb.round, hhigh, by rw [p3]; exact hb.self, by rw [p2]; exact hb.ok,
         by rw [p2]; exact hb.lo, by rw [p2]; exact hb.hi⟩
      -- the round of the timeout is r or r + 1
      have hge : s.round ≤ t.round := by
        have : ¬ t.round < s.round := hstale
        omega
      have hcase : t.round = r ∨ t.round = r + 1 := by
        have := hb.round
        omega
      -- the set that may sign for that round, and the tally's members
      have hS : ∃ S, NoQuorum c S ∧ t.author ∈ S ∧ (∀ k ∈ ((s.processQC t.highQC).agg.getT t.round).used, k ∈ S) ∧
          ((t.round = r ∧ S = Lo) ∨ (t.round = r + 1 ∧ S = Hi)) := by
        rcases hcase with h | h
        · exact ⟨Lo, hLo, hlo h, getT_used _ _ _ (by rw [h]; exact hb1.lo), Or.inl ⟨h, rfl⟩⟩
        · exact ⟨Hi, hHi, hhi h, getT_used _ _ _ (by rw [h]; exact hb1.hi), Or.inr ⟨h, rfl⟩⟩
      obtain ⟨S, hSq, haS, husedS, hwhich⟩ := hS
      cases hadd : (s.processQC t.highQC).agg.addTimeout c t with
      | error e => simpa using hb1
      | ok res =>
        obtain ⟨agg', otc⟩ := res
        have hok := (addTimeout_ok c _ agg' t otc hb1.ok hv hadd).1
        unfold Aggregator.addTimeout at hadd
        cases happ : ((s.processQC t.highQC).agg.getT t.round).append c t with
        | error e => rw [happ] at hadd; cases hadd
        | ok mr =>
          obtain ⟨m', r'⟩ := mr
          rw [happ] at hadd
          simp only [Except.ok.injEq, Prod.mk.injEq] at hadd
          obtain ⟨hagg, hotc⟩ := hadd
          subst hotc
          cases r' with
          | some tc =>
            exact absurd (no_tc_without_quorum c _ m' t tc S (getT_ok c _ hb1.ok t.round) hv hSq husedS haS happ) id
          | none =>
            simp only
            -- the new tally's members are the old ones and the author
            have hm'used : ∀ k ∈ m'.used, k ∈ S := by
              intro k hk
              rw [append_none_used c _ m' t happ] at hk
              simp only [List.mem_cons] at hk
              rcases hk with rfl | hk
              · exact haS
              · exact husedS k hk
            refine ⟨hb1.round, hb1.high, hb1.self, hok, ?_, ?_⟩
            · intro m hmem k hk
              subst hagg
              simp only [Aggregator.setT, List.mem_cons, List.mem_filter, Prod.mk.injEq] at hmem
              rcases hmem with ⟨h1, h2⟩ | hmem
              · subst h2
                rcases hwhich with ⟨_, hS'⟩ | ⟨hr', _⟩
                · rw [← hS']; exact hm'used k hk
                · omega
              · exact hb1.lo m hmem.1 k hk
            · intro m hmem k hk
              subst hagg
              simp only [Aggregator.setT, List.mem_cons, List.mem_filter, Prod.mk.injEq] at hmem
              rcases hmem with ⟨h1, h2⟩ | hmem
              · subst h2
                rcases hwhich with ⟨hr', _⟩ | ⟨_, hS'⟩
                · omega
                · rw [← hS']; exact hm'used k hk
              · exact hb1.hi m hmem.1 k hk

/-- One event of a stuck run keeps the node stuck. -/
theorem step_behind (c : Committee) (r : Nat) (Lo Hi : List Nat) (s : Node) (e : Event)
    (hLo : NoQuorum c Lo) (hHi : NoQuorum c Hi) (hb : Behind c r Lo Hi s) (he : StuckInput r Lo Hi e) :
    Behind c r Lo Hi (step c s e) := by
  unfold step
  split
  · exact hb
  · cases e with
    | timer =>
      simp only
      unfold localTimeout
      simp only
      have hb' : Behind c r Lo Hi (({ s with lastVoted := max s.lastVoted s.round }).emit
          (.timeout { highQC := s.highQC, round := s.round, author := s.name,
                      sig := ⟨s.name, .timeout s.round s.highQC.round⟩ })) :=
        ⟨hb.round, hb.high, hb.self, hb.ok, hb.lo, hb.hi⟩
      exact handleTimeout_behind c r Lo Hi _ _ hLo hHi hb' hb.high (by simp [emit, hb.round])
        (fun _ => hb.self) (fun h => by simp [emit, hb.round] at h)
    | msg m =>
      cases m with
      | timeout t =>
        obtain ⟨h1, h2, h3, h4⟩ := he
        exact handleTimeout_behind c r Lo Hi s t hLo hHi hb h1 h2 h3 h4
      | propose b => exact absurd he id
      | vote v => exact absurd he id
      | tc t => exact absurd he id
    | loopback => exact absurd he id
    | proposer o => exact absurd he id
    | digest d => exact absurd he id
    | batch d => exact absurd he id
    | syncResume i => exact absurd he id
    | payloadResume i => exact absurd he id
    | syncRetry d => exact absurd he id
    | helper d o => exact absurd he id

/-- However many timeouts and timer expiries follow, a node of `Lo` is still in round `r`. -/
theorem run_behind (c : Committee) (r : Nat) (Lo Hi : List Nat) (s : Node) (es : List Event)
    (hLo : NoQuorum c Lo) (hHi : NoQuorum c Hi) (hb : Behind c r Lo Hi s)
    (he : ∀ e ∈ es, StuckInput r Lo Hi e) : Behind c r Lo Hi (run c s es) := by
  induction es generalizing s with
  | nil => simpa [run] using hb
  | cons e es ih =>
    simp only [run, List.foldl_cons]
    exact ih _ (step_behind c r Lo Hi s e hLo hHi hb (he e (by simp))) (fun e' he' => he e' (by simp [he']))

/-- A node that is ahead drops every timeout of an earlier round, unread. -/
theorem ahead_ignores_earlier_timeouts (c : Committee) (s : Node) (t : Timeout) (h : t.round < s.round) :
    step c s (.msg (.timeout t)) = s := by
  unfold step
  split
  · rfl
  · have hst : Gen.timeoutStale t.round s.round := h
    simp [handleTimeout, hst]

end HS
