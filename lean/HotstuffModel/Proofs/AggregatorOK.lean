import HotstuffModel.Proofs.Verify
/-
Soundness of the aggregator: what is inside a maker, and that every certificate it returns
verifies.  Votes/timeouts are verified by `Core` before they are added.
-/
namespace HS

theorem weight_append_single (c : Committee) (l : List Nat) (a : Nat) :
    c.weight (l ++ [a]) = c.weight l + c.stake a := by
  simp [Committee.weight, List.sum_append]

structure QCMakerOK (c : Committee) (key : Nat × Digest) (m : QCMaker) : Prop where
  nodup : (m.votes.map Prod.fst).Nodup
  used : ∀ k, k ∈ m.used ↔ k ∈ m.votes.map Prod.fst
  valid : ∀ v ∈ m.votes, c.stake v.1 ≠ 0 ∧ v.2.valid (.vote key.2 key.1) v.1 = true
  weight : m.weight ≤ c.weight (m.votes.map Prod.fst)

structure TCMakerOK (c : Committee) (round : Nat) (m : TCMaker) : Prop where
  nodup : (m.votes.map (fun v => v.1)).Nodup
  used : ∀ k, k ∈ m.used ↔ k ∈ m.votes.map (fun v => v.1)
  valid : ∀ v ∈ m.votes, c.stake v.1 ≠ 0 ∧ v.2.1.valid (.timeout round v.2.2) v.1 = true
  weight : m.weight ≤ c.weight (m.votes.map (fun v => v.1))

theorem qcmaker_empty_ok (c : Committee) (key : Nat × Digest) : QCMakerOK c key {} :=
  ⟨by simp, by simp, by simp, by simp [Committee.weight]⟩

theorem tcmaker_empty_ok (c : Committee) (r : Nat) : TCMakerOK c r {} :=
  ⟨by simp, by simp, by simp, by simp [Committee.weight]⟩

/-- Appending a verified vote keeps the maker sound; a returned QC verifies, is for exactly the
vote's (hash, round), was returned because the accumulated weight reached the quorum, and the
weight is reset. -/
theorem qcmaker_append_ok (c : Committee) (m m' : QCMaker) (v : Vote) (r : Option QC)
    (hm : QCMakerOK c (v.round, v.hash) m) (hv : v.verify c = .ok ())
    (h : m.append c v = .ok (m', r)) :
    QCMakerOK c (v.round, v.hash) m' ∧
    (∀ qc, r = some qc → qc.verify c = .ok () ∧ qc.hash = v.hash ∧ qc.round = v.round ∧
      c.quorum ≤ m.weight + c.stake v.author ∧ v.author ∉ m.used ∧ m'.weight = 0) ∧
    (r = none → m.weight + c.stake v.author < c.quorum ∧ m'.weight = m.weight + c.stake v.author) := by
  obtain ⟨hs, hsig⟩ := (Vote.verify_ok_iff c v).mp hv
  unfold QCMaker.append at h
  split at h
  · cases h
  · rename_i hused
    have hnot : v.author ∉ m.votes.map Prod.fst := by
      intro hmem
      exact hused (by simpa using (hm.used v.author).mpr hmem)
    have hnd : ((m.votes ++ [(v.author, v.sig)]).map Prod.fst).Nodup := by
      simp only [List.map_append, List.map_cons, List.map_nil]
      rw [List.nodup_append]
      refine ⟨hm.nodup, by simp, ?_⟩
      intro a ha b hb
      simp at hb; subst hb
      intro e; subst e; exact hnot ha
    have husd : ∀ k, k ∈ v.author :: m.used ↔ k ∈ (m.votes ++ [(v.author, v.sig)]).map Prod.fst := by
      intro k
      have := hm.used k
      simp [this, or_comm]
    have hval : ∀ x ∈ m.votes ++ [(v.author, v.sig)],
        c.stake x.1 ≠ 0 ∧ x.2.valid (.vote v.hash v.round) x.1 = true := by
      intro x hx
      rcases List.mem_append.mp hx with hx | hx
      · exact hm.valid x hx
      · simp at hx; subst hx; exact ⟨hs, hsig⟩
    have hw : c.weight ((m.votes ++ [(v.author, v.sig)]).map Prod.fst) =
        c.weight (m.votes.map Prod.fst) + c.stake v.author := by
      simp only [List.map_append, List.map_cons, List.map_nil]
      exact weight_append_single c _ _
    simp only [] at h
    split at h
    · rename_i hq
      simp only [Except.ok.injEq, Prod.mk.injEq] at h
      obtain ⟨h1, h2⟩ := h
      subst h1 h2
      refine ⟨⟨hnd, husd, hval, by simp⟩, ?_, by simp⟩
      intro qc hqc
      simp only [Option.some.injEq] at hqc
      subst hqc
      refine ⟨?_, rfl, rfl, by omega, by simpa using hused, rfl⟩
      rw [QC.verify_ok_iff]
      refine ⟨hnd, ?_, ?_, ?_⟩
      · intro x hx
        obtain ⟨p, hp, rfl⟩ := List.mem_map.mp hx
        exact (hval p hp).1
      · show c.quorum ≤ c.weight ((m.votes ++ [(v.author, v.sig)]).map Prod.fst)
        rw [hw]; have := hm.weight; omega
      · intro x hx; exact (hval x hx).2
    · rename_i hq
      simp only [Except.ok.injEq, Prod.mk.injEq] at h
      obtain ⟨h1, h2⟩ := h
      subst h1 h2
      refine ⟨⟨hnd, husd, hval, ?_⟩, by simp, fun _ => ⟨by omega, rfl⟩⟩
      show m.weight + c.stake v.author ≤ _
      rw [hw]; have := hm.weight; omega

theorem tcmaker_append_ok (c : Committee) (m m' : TCMaker) (t : Timeout) (r : Option TC)
    (hm : TCMakerOK c t.round m) (hv : t.verify c = .ok ())
    (h : m.append c t = .ok (m', r)) :
    TCMakerOK c t.round m' ∧
    (∀ tc, r = some tc → tc.verify c = .ok () ∧ tc.round = t.round ∧
      c.quorum ≤ m.weight + c.stake t.author ∧ t.author ∉ m.used ∧ m'.weight = 0) ∧
    (r = none → m.weight + c.stake t.author < c.quorum ∧ m'.weight = m.weight + c.stake t.author) := by
  obtain ⟨hs, hsig, _⟩ := (Timeout.verify_ok_iff c t).mp hv
  unfold TCMaker.append at h
  split at h
  · cases h
  · rename_i hused
    have hnot : t.author ∉ m.votes.map (fun v => v.1) := by
      intro hmem
      exact hused (by simpa using (hm.used t.author).mpr hmem)
    have hnd : ((m.votes ++ [(t.author, t.sig, t.highQC.round)]).map (fun v => v.1)).Nodup := by
      simp only [List.map_append, List.map_cons, List.map_nil]
      rw [List.nodup_append]
      refine ⟨hm.nodup, by simp, ?_⟩
      intro a ha b hb
      simp at hb; subst hb
      intro e; subst e; exact hnot ha
    have husd : ∀ k, k ∈ t.author :: m.used ↔
        k ∈ (m.votes ++ [(t.author, t.sig, t.highQC.round)]).map (fun v => v.1) := by
      intro k
      have := hm.used k
      simp [this, or_comm]
    have hval : ∀ x ∈ m.votes ++ [(t.author, t.sig, t.highQC.round)],
        c.stake x.1 ≠ 0 ∧ x.2.1.valid (.timeout t.round x.2.2) x.1 = true := by
      intro x hx
      rcases List.mem_append.mp hx with hx | hx
      · exact hm.valid x hx
      · simp at hx; subst hx; exact ⟨hs, hsig⟩
    have hw : c.weight ((m.votes ++ [(t.author, t.sig, t.highQC.round)]).map (fun v => v.1)) =
        c.weight (m.votes.map (fun v => v.1)) + c.stake t.author := by
      simp only [List.map_append, List.map_cons, List.map_nil]
      exact weight_append_single c _ _
    simp only [] at h
    split at h
    · rename_i hq
      simp only [Except.ok.injEq, Prod.mk.injEq] at h
      obtain ⟨h1, h2⟩ := h
      subst h1 h2
      refine ⟨⟨hnd, husd, hval, by simp⟩, ?_, by simp⟩
      intro tc htc
      simp only [Option.some.injEq] at htc
      subst htc
      refine ⟨?_, rfl, by omega, by simpa using hused, rfl⟩
      rw [TC.verify_ok_iff]
      refine ⟨hnd, ?_, ?_, ?_⟩
      · intro x hx
        obtain ⟨p, hp, rfl⟩ := List.mem_map.mp hx
        exact (hval p hp).1
      · show c.quorum ≤ c.weight ((m.votes ++ [(t.author, t.sig, t.highQC.round)]).map (fun v => v.1))
        rw [hw]; have := hm.weight; omega
      · intro x hx; exact (hval x hx).2
    · rename_i hq
      simp only [Except.ok.injEq, Prod.mk.injEq] at h
      obtain ⟨h1, h2⟩ := h
      subst h1 h2
      refine ⟨⟨hnd, husd, hval, ?_⟩, by simp, fun _ => ⟨by omega, rfl⟩⟩
      show m.weight + c.stake t.author ≤ _
      rw [hw]; have := hm.weight; omega

/-- Every maker held by the aggregator is sound for its own key. -/
structure AggOK (c : Committee) (a : Aggregator) : Prop where
  votes : ∀ k m, (k, m) ∈ a.votes → QCMakerOK c k m
  timeouts : ∀ r m, (r, m) ∈ a.timeouts → TCMakerOK c r m

theorem aggOK_empty (c : Committee) : AggOK c {} := ⟨by simp, by simp⟩

theorem getQ_ok (c : Committee) (a : Aggregator) (h : AggOK c a) (k : Nat × Digest) :
    QCMakerOK c k (a.getQ k) := by
  unfold Aggregator.getQ
  cases hl : a.votes.lookup k with
  | none => exact qcmaker_empty_ok c k
  | some m =>
    have := List.lookup_eq_some_iff.mp hl
    obtain ⟨l1, l2, e, _⟩ := this
    exact h.votes k m (by rw [e]; simp)

theorem getT_ok (c : Committee) (a : Aggregator) (h : AggOK c a) (r : Nat) :
    TCMakerOK c r (a.getT r) := by
  unfold Aggregator.getT
  cases hl : a.timeouts.lookup r with
  | none => exact tcmaker_empty_ok c r
  | some m =>
    have := List.lookup_eq_some_iff.mp hl
    obtain ⟨l1, l2, e, _⟩ := this
    exact h.timeouts r m (by rw [e]; simp)

theorem aggOK_setQ (c : Committee) (a : Aggregator) (h : AggOK c a) (k : Nat × Digest) (m : QCMaker)
    (hm : QCMakerOK c k m) : AggOK c (a.setQ k m) := by
  constructor
  · intro k' m' hmem
    simp only [Aggregator.setQ, List.mem_cons, List.mem_filter] at hmem
    rcases hmem with hmem | hmem
    · cases hmem; exact hm
    · exact h.votes k' m' hmem.1
  · exact h.timeouts

theorem aggOK_setT (c : Committee) (a : Aggregator) (h : AggOK c a) (r : Nat) (m : TCMaker)
    (hm : TCMakerOK c r m) : AggOK c (a.setT r m) := by
  constructor
  · exact h.votes
  · intro r' m' hmem
    simp only [Aggregator.setT, List.mem_cons, List.mem_filter] at hmem
    rcases hmem with hmem | hmem
    · cases hmem; exact hm
    · exact h.timeouts r' m' hmem.1

theorem aggOK_cleanup (c : Committee) (a : Aggregator) (h : AggOK c a) (r : Nat) :
    AggOK c (a.cleanup r) := by
  constructor
  · intro k m hmem
    simp only [Aggregator.cleanup, List.mem_filter] at hmem
    exact h.votes k m hmem.1
  · intro r' m hmem
    simp only [Aggregator.cleanup, List.mem_filter] at hmem
    exact h.timeouts r' m hmem.1

/-- `add_vote` of a verified vote: soundness is kept and a returned QC verifies. -/
theorem addVote_ok (c : Committee) (a a' : Aggregator) (v : Vote) (r : Option QC)
    (ha : AggOK c a) (hv : v.verify c = .ok ()) (h : a.addVote c v = .ok (a', r)) :
    AggOK c a' ∧ ∀ qc, r = some qc → qc.verify c = .ok () ∧ qc.hash = v.hash ∧ qc.round = v.round := by
  unfold Aggregator.addVote at h
  split at h
  · cases h
  · rename_i m r' hm
    simp only [Except.ok.injEq, Prod.mk.injEq] at h
    obtain ⟨h1, h2⟩ := h
    subst h1 h2
    have := qcmaker_append_ok c _ m v r' (getQ_ok c a ha (v.round, v.hash)) hv hm
    refine ⟨aggOK_setQ c a ha _ m this.1, ?_⟩
    intro qc hqc
    have := this.2.1 qc hqc
    exact ⟨this.1, this.2.1, this.2.2.1⟩

theorem addTimeout_ok (c : Committee) (a a' : Aggregator) (t : Timeout) (r : Option TC)
    (ha : AggOK c a) (hv : t.verify c = .ok ()) (h : a.addTimeout c t = .ok (a', r)) :
    AggOK c a' ∧ ∀ tc, r = some tc → tc.verify c = .ok () ∧ tc.round = t.round := by
  unfold Aggregator.addTimeout at h
  split at h
  · cases h
  · rename_i m r' hm
    simp only [Except.ok.injEq, Prod.mk.injEq] at h
    obtain ⟨h1, h2⟩ := h
    subst h1 h2
    have := tcmaker_append_ok c _ m t r' (getT_ok c a ha t.round) hv hm
    refine ⟨aggOK_setT c a ha _ m this.1, ?_⟩
    intro tc htc
    have := this.2.1 tc htc
    exact ⟨this.1, this.2.1⟩

end HS
