import HotstuffModel.Proofs.NodeInv4
/-
Layer 4: what is committed and why (C05, C02), and payload availability (C08).
-/
namespace HS
open Node

/-- The hash chain below a block digest: the digest itself, its parent, its grand-parent, … -/
def Digest.chain : Digest → List Digest
  | .block a r p par => .block a r p par :: par.chain
  | _ => []

/-- `x` is `b` or an ancestor of `b` (through the parent hashes that `b`'s digest commits to). -/
def AncOrSelf (x b : Block) : Prop := x.digest ∈ b.digest.chain

theorem self_mem_chain (b : Block) : b.digest ∈ b.digest.chain := by
  simp [Block.digest, Digest.chain]

theorem chain_of_mem {d e : Digest} (h : d ∈ e.chain) : ∀ x ∈ d.chain, x ∈ e.chain := by
  induction e with
  | zero => simp [Digest.chain] at h
  | raw n => simp [Digest.chain] at h
  | block a r p par ih =>
    simp only [Digest.chain, List.mem_cons] at h
    rcases h with rfl | h
    · intro x hx; exact hx
    · intro x hx; simp only [Digest.chain, List.mem_cons]; right; exact ih h x hx

theorem parent_chain_sub (b : Block) : ∀ x ∈ b.qc.hash.chain, x ∈ b.digest.chain := by
  intro x hx; simp only [Block.digest, Digest.chain, List.mem_cons]; right; exact hx

/-- `p` is what `get_parent_block` returns for `b`. -/
def IsParent (p b : Block) : Prop :=
  (b.qc.isGenesis = true ∧ p = Block.genesis) ∨ p.digest = b.qc.hash

/-- A list of blocks, each the parent of the one before it, starting below `top`. -/
def DescFrom : Block → List Block → Prop
  | _, [] => True
  | top, a :: l => a.digest = top.qc.hash ∧ DescFrom a l

def Sub (l : List Nat) (s : Node) : Prop := ∀ d ∈ l, d ∈ s.avail

structure Inv5 (s : Node) : Prop where
  chains : ∀ b0 b1 blk, Out.twoChain b0 b1 blk ∈ s.hist →
    b0.round + 1 = b1.round ∧ IsParent b1 blk ∧ IsParent b0 b1
  commits : ∀ x, Out.commit x ∈ s.hist → 0 < x.round ∧
    ∃ b0 b1 blk, Out.twoChain b0 b1 blk ∈ s.hist ∧ AncOrSelf x b0
  -- payload availability
  buffer : Sub s.buffer s
  blocksPay : ∀ b, b ∈ s.loopQ ++ s.syncPending ++ s.store.map Prod.snd → Sub b.payload s
  parkedPay : ∀ b m, (b, m) ∈ s.payPending → ∀ d, d ∈ b.payload → d ∈ s.avail ∨ d ∈ m
  votedPay : ∀ b, Out.voted b ∈ s.hist → Sub b.payload s
  commitPay : ∀ x, Out.commit x ∈ s.hist → Sub x.payload s

/-- Outputs Inv5 does not look at. -/
def Out.light : Out → Bool
  | .commit _ => false
  | .twoChain _ _ _ => false
  | .voted _ => false
  | _ => true

theorem inv5_emit_light (s : Node) (o : Out) (ho : o.light = true) (h : Inv5 s) : Inv5 (s.emit o) := by
  cases o <;> simp [Out.light] at ho <;>
    (constructor <;> simp [Sub] <;> grind [Inv5, Sub])

theorem inv5_fail (s : Node) (p : PanicSite) (h : Inv5 s) : Inv5 (s.fail p) := by
  unfold fail; constructor <;> simp [Sub] <;> grind [Inv5, Sub]

theorem inv5_setAgg (s : Node) (a : Aggregator) (h : Inv5 s) : Inv5 { s with agg := a } := by
  constructor <;> simp [Sub] <;> grind [Inv5, Sub]

theorem inv5_advanceRound (s : Node) (r : Nat) (ev : Evidence) (h : Inv5 s) :
    Inv5 (s.advanceRound r ev) := by
  unfold advanceRound; split
  · exact h
  · constructor <;> simp [Sub] <;> grind [Inv5, Sub]

theorem inv5_processQC (s : Node) (qc : QC) (h : Inv5 s) : Inv5 (s.processQC qc) := by
  unfold processQC updateHighQC
  have h1 := inv5_advanceRound s qc.round (.qc qc) h
  split
  · constructor <;> simp [Sub] <;> grind [Inv5, Sub]
  · exact h1

theorem inv5_generateProposal (s : Node) (tc : Option TC) (h : Inv5 s) : Inv5 (s.generateProposal tc) := by
  unfold generateProposal
  constructor <;> simp [Sub] <;> grind [Inv5, Sub]

theorem inv5_handleVote (c : Committee) (s : Node) (v : Vote) (h : Inv5 s) : Inv5 (s.handleVote c v) := by
  unfold handleVote
  split
  · exact h
  · split
    · exact h
    · split
      · exact h
      · exact inv5_setAgg _ _ h
      · simp only []
        split
        · exact inv5_generateProposal _ _ (inv5_processQC _ _ (inv5_setAgg s _ h))
        · exact inv5_processQC _ _ (inv5_setAgg s _ h)

theorem inv5_handleTimeout (c : Committee) (s : Node) (t : Timeout) (h : Inv5 s) :
    Inv5 (s.handleTimeout c t) := by
  unfold handleTimeout
  split
  · exact h
  · split
    · exact h
    · simp only []
      have h0 := inv5_processQC s t.highQC h
      split
      · exact h0
      · exact inv5_setAgg _ _ h0
      · rename_i agg tc _
        have h1 := inv5_emit_light _ (.tc tc) rfl (inv5_advanceRound _ tc.round (.tc tc) (inv5_setAgg _ agg h0))
        split
        · exact inv5_generateProposal _ _ h1
        · exact h1

theorem inv5_handleTC (c : Committee) (s : Node) (tc : TC) (h : Inv5 s) : Inv5 (s.handleTC c tc) := by
  unfold handleTC
  split
  · exact h
  · split
    · exact h
    · simp only []
      split
      · exact inv5_generateProposal _ _ (inv5_advanceRound s _ _ h)
      · exact inv5_advanceRound s _ _ h

theorem inv5_localTimeout (c : Committee) (s : Node) (h : Inv5 s) : Inv5 (s.localTimeout c) := by
  unfold localTimeout
  apply inv5_handleTimeout
  constructor <;> simp [Sub] <;> grind [Inv5, Sub]

theorem inv5_makeVote (s : Node) (b : Block) (h : Inv5 s) (hp : Sub b.payload s) :
    Inv5 (s.makeVote b).1 := by
  unfold makeVote
  split
  · exact inv5_fail _ _ h
  · split
    · constructor <;> simp [Sub] <;> grind [Inv5, Sub]
    · exact h

theorem inv5_park (c : Committee) (s : Node) (b : Block) (h : Inv5 s) (hp : Sub b.payload s) :
    Inv5 (park c s b) := by
  unfold park
  split
  · exact h
  · split
    · constructor <;> simp [Sub] <;> grind [Inv5, Sub]
    · have h2 : Inv5 { s with syncPending := s.syncPending ++ [b],
                              syncRequests := s.syncRequests ++ [b.parent] } := by
        constructor <;> simp [Sub] <;> grind [Inv5, Sub]
      split
      · exact inv5_emit_light _ _ rfl h2
      · exact inv5_fail _ _ h2

theorem inv5_getParent (c : Committee) (s : Node) (b : Block) (h : Inv5 s) (hp : Sub b.payload s) :
    Inv5 (getParent c s b).1 := by
  unfold getParent
  split
  · exact h
  · split
    · exact h
    · exact h
    · exact inv5_park c s b h hp

theorem inv5_sendVote (c : Committee) (s : Node) (v : Vote) (h : Inv5 s) : Inv5 (sendVote c s v) := by
  unfold sendVote
  split
  · exact inv5_handleVote c _ v (inv5_emit_light s _ rfl h)
  · split
    · exact inv5_emit_light s _ rfl h
    · exact inv5_fail _ _ h

theorem sub_of_eq_avail {s s' : Node} (l : List Nat) (h : Sub l s) (ha : s'.avail = s.avail) : Sub l s' := by
  intro d hd; rw [ha]; exact h d hd

theorem makeVote_avail (s : Node) (b : Block) : (s.makeVote b).1.avail = s.avail := by
  unfold makeVote; split
  · rfl
  · split <;> rfl

theorem inv5_voteStage (c : Committee) (s : Node) (ok : Bool) (b : Block) (h : Inv5 s)
    (hp : Sub b.payload s) : Inv5 (voteStage c s ok b) := by
  unfold voteStage
  split
  · exact h
  · split
    · exact h
    · have hm := inv5_makeVote s b h hp
      split
      · rename_i s' heq; rw [heq] at hm; exact hm
      · rename_i s' v heq; rw [heq] at hm; exact inv5_sendVote c s' v hm

theorem inv5_afterStore (s : Node) (b0 b1 b : Block) (h : Inv5 s) (hp : Sub b.payload s) :
    Inv5 (afterStore s b0 b1 b) := by
  unfold afterStore storeBlock
  constructor <;> simp [Sub] <;> grind [Inv5, Sub]

theorem inv5_mempoolCleanup (s : Node) (r : Nat) (h : Inv5 s) : Inv5 (s.mempoolCleanup r) := by
  unfold mempoolCleanup
  apply inv5_emit_light _ _ rfl
  constructor <;> simp [Sub] <;> grind [Inv5, Sub]

/-- What the ancestor walk collects: stored blocks above the watermark on the hash chain of `top`. -/
def WalkGood (s : Node) (top a : Block) : Prop :=
  (∃ d, (d, a) ∈ s.store) ∧ s.lastCommitted < a.round ∧ a.digest ∈ top.digest.chain

theorem commitWalk_spec (c : Committee) (s : Node) (h4 : Inv4 s) (top : Block) :
    ∀ (fuel : Nat) (cur : Block) (acc anc : List Block),
      commitWalk c s fuel cur acc = .done anc → cur.digest ∈ top.digest.chain →
      (∀ a ∈ acc, WalkGood s top a) → ∀ a ∈ anc, WalkGood s top a := by
  intro fuel
  induction fuel with
  | zero =>
    intro cur acc anc h _ hacc
    simp [commitWalk] at h; subst h; exact hacc
  | succ n ih =>
    intro cur acc anc h hcur hacc
    unfold commitWalk at h
    split at h
    · cases hp : (getParent c s cur).2 with
      | found a =>
        simp only [hp] at h
        split at h
        · simp at h; subst h; exact hacc
        · rename_i hr
          apply ih a (acc ++ [a]) anc h
          · -- a's digest is on the chain
            rcases (getParent_found_spec c s cur a hp).2 with ⟨_, rfl⟩ | hl
            · simp [Block.genesis] at hr
            · have hk := h4.keyed _ a (mem_of_lookup hl)
              have : a.digest ∈ cur.digest.chain := by
                apply parent_chain_sub cur
                have := self_mem_chain a
                rw [hk] at this ⊢
                exact this
              exact chain_of_mem hcur _ this
          · intro x hx
            rcases List.mem_append.mp hx with hx | hx
            · exact hacc x hx
            · simp at hx; subst hx
              rcases (getParent_found_spec c s cur x hp).2 with ⟨_, rfl⟩ | hl
              · simp [Block.genesis] at hr
              · have hk := h4.keyed _ x (mem_of_lookup hl)
                refine ⟨⟨_, mem_of_lookup hl⟩, by omega, ?_⟩
                have : x.digest ∈ cur.digest.chain := by
                  apply parent_chain_sub cur
                  have := self_mem_chain x
                  rw [hk] at this ⊢
                  exact this
                exact chain_of_mem hcur _ this
      | parked => simp [hp] at h
      | error => simp [hp] at h
    · simp at h; subst h; exact hacc

theorem inv5_foldl_commit (l : List Block) (s : Node) (h : Inv5 s)
    (hl : ∀ x ∈ l, 0 < x.round ∧ Sub x.payload s ∧
      ∃ b0 b1 blk, Out.twoChain b0 b1 blk ∈ s.hist ∧ AncOrSelf x b0) :
    Inv5 (l.foldl (fun s x => s.emit (.commit x)) s) := by
  induction l generalizing s with
  | nil => exact h
  | cons a l ih =>
    apply ih
    · have ha := hl a (by simp)
      constructor <;> simp [Sub] <;> grind [Inv5, Sub]
    · intro x hx
      have := hl x (by simp [hx])
      simp [Sub] at this ⊢
      grind

/-- `commit(b0)` right after the `twoChain b0 b1 blk` record: every delivered block is `b0` or an
ancestor of it, stored, above the old watermark, with its batches available. -/
theorem inv5_commit (c : Committee) (s : Node) (b0 b1 blk : Block) (h4 : Inv4 s) (h : Inv5 s)
    (hrec : Out.twoChain b0 b1 blk ∈ s.hist)
    (hb0 : b0 = Block.genesis ∨ ∃ d, (d, b0) ∈ s.store) : Inv5 (commit c s b0).1 := by
  unfold commit
  split
  · exact h
  · rename_i hlt
    split
    · exact inv5_fail _ _ h
    · exact h
    · rename_i anc hw
      have hspec := commitWalk_spec c s h4 b0 _ b0 [] anc hw (self_mem_chain b0) (by simp)
      have hb0s : ∃ d, (d, b0) ∈ s.store := by
        rcases hb0 with rfl | hb0
        · simp [Block.genesis] at hlt
        · exact hb0
      apply inv5_foldl_commit
      · constructor <;> simp [Sub] <;> grind [Inv5, Sub]
      · intro x hx
        simp only [List.mem_append, List.mem_reverse, List.mem_singleton] at hx
        rcases hx with hx | rfl
        · obtain ⟨⟨d, hd⟩, hr, hch⟩ := hspec x hx
          have hpay := h.blocksPay x (by simp; right; right; exact ⟨d, hd⟩)
          exact ⟨by omega, hpay, b0, b1, blk, hrec, hch⟩
        · obtain ⟨d, hd⟩ := hb0s
          have hpay := h.blocksPay x (by simp; right; right; exact ⟨d, hd⟩)
          exact ⟨by omega, hpay, x, b1, blk, hrec, self_mem_chain x⟩

theorem inv5_beforeCommit (s : Node) (b0 b1 b : Block) (h : Inv5 s) (hp : Sub b.payload s)
    (hr : b0.round + 1 = b1.round) (hp1 : IsParent b1 b) (hp0 : IsParent b0 b1) :
    Inv5 (beforeCommit s b0 b1 b) := by
  unfold beforeCommit
  have h1 := inv5_mempoolCleanup _ b0.round (inv5_afterStore s b0 b1 b h hp)
  constructor <;> simp [Sub] <;> grind [Inv5, Sub]

theorem beforeCommit_avail (s : Node) (b0 b1 b : Block) : (beforeCommit s b0 b1 b).avail = s.avail := rfl
theorem afterStore_avail (s : Node) (b0 b1 b : Block) : (afterStore s b0 b1 b).avail = s.avail := rfl

theorem commit_avail (c : Committee) (s : Node) (b : Block) : (commit c s b).1.avail = s.avail := by
  have : ∀ (l : List Block) (s : Node), (l.foldl (fun s x => s.emit (.commit x)) s).avail = s.avail := by
    intro l; induction l with
    | nil => intro s; rfl
    | cons a l ih => intro s; simp [ih]
  unfold commit
  split
  · rfl
  · split
    · rfl
    · rfl
    · rw [this]

theorem isParent_of_spec {c : Committee} {s : Node} (h4 : Inv4 s) {b p : Block}
    (hs : (b.qc.isGenesis = true ∧ p = Block.genesis) ∨ s.store.lookup b.parent = some p) :
    IsParent p b := by
  rcases hs with hs | hl
  · left; exact hs
  · right; exact h4.keyed _ p (mem_of_lookup hl)

theorem inv5_processBlockTail (c : Committee) (s : Node) (b0 b1 b : Block) (h4 : Inv4 s) (h : Inv5 s)
    (hp : Sub b.payload s)
    (hpar : b.qc.isGenesis = true ∨ (s.store.lookup b.parent).isSome = true)
    (hp1 : IsParent b1 b) (hp0 : IsParent b0 b1)
    (hb0 : b0 = Block.genesis ∨ ∃ d, (d, b0) ∈ s.store) :
    Inv5 (processBlockTail c s b0 b1 b) := by
  unfold processBlockTail
  split
  · rename_i hr
    have hr' : b0.round + 1 = b1.round := by simpa using hr
    have hbc := inv5_beforeCommit s b0 b1 b h hp hr' hp1 hp0
    have h4bc : Inv4 (beforeCommit s b0 b1 b) :=
      inv4_emit _ _ (inv4_mempoolCleanup _ _ (inv4_afterStore s b0 b1 b h4 hpar))
    apply inv5_voteStage
    · apply inv5_commit c _ b0 b1 b h4bc hbc
      · simp [beforeCommit]
      · rcases hb0 with rfl | ⟨d, hd⟩
        · left; rfl
        · right; exact ⟨d, by simp [beforeCommit, mempoolCleanup, afterStore_store]; right; exact hd⟩
    · apply sub_of_eq_avail _ hp
      rw [commit_avail, beforeCommit_avail]
  · exact inv5_voteStage c _ _ b (inv5_afterStore s b0 b1 b h hp) (sub_of_eq_avail _ hp rfl)

theorem inv5_processBlock (c : Committee) (s : Node) (b : Block) (h4 : Inv4 s) (h : Inv5 s)
    (hp : Sub b.payload s) : Inv5 (processBlock c s b) := by
  unfold processBlock
  have h1 := inv5_getParent c s b h hp
  split
  · exact h1
  · exact h1
  · rename_i b1 hb1
    obtain ⟨hs1, hspec1⟩ := getParent_found_spec c s b b1 hb1
    rw [hs1]
    have hcl1 : b1.qc.isGenesis = true ∨ (s.store.lookup b1.parent).isSome = true := by
      rcases hspec1 with ⟨_, rfl⟩ | hl
      · left; exact genesis_isGenesis
      · exact h4.closed _ b1 (mem_of_lookup hl)
    obtain ⟨b0, hb0⟩ := getParent_of_closed c s b1 hcl1
    rw [hb0]
    simp only
    have hf0 : (getParent c s b1).2 = .found b0 := by rw [hb0]
    have hspec0 := (getParent_found_spec c s b1 b0 hf0).2
    apply inv5_processBlockTail c s b0 b1 b h4 h hp
    · rcases hspec1 with ⟨hg, _⟩ | hl
      · left; exact hg
      · right; rw [hl]; rfl
    · exact isParent_of_spec (c := c) h4 hspec1
    · exact isParent_of_spec (c := c) h4 hspec0
    · rcases hspec0 with ⟨_, rfl⟩ | hl
      · left; rfl
      · right; exact ⟨_, mem_of_lookup hl⟩

theorem payloadVerify_spec (s : Node) (b : Block) :
    ((s.payloadVerify b).2 = true → (s.payloadVerify b).1 = s ∧ Sub b.payload s) := by
  unfold payloadVerify
  simp only []
  split
  · rename_i he
    intro _
    refine ⟨rfl, ?_⟩
    intro d hd
    have : d ∉ b.payload.filter (fun d => !s.avail.contains d) := by
      have := List.isEmpty_iff.mp he
      rw [this]; simp
    simp only [List.mem_filter, not_and] at this
    have := this hd
    simpa using this
  · split <;> simp

theorem inv5_payloadVerify (s : Node) (b : Block) (h : Inv5 s) : Inv5 (s.payloadVerify b).1 := by
  unfold payloadVerify
  simp only []
  split
  · exact h
  · split
    · exact inv5_emit_light _ _ rfl h
    · have h1 := inv5_emit_light s (.mempoolSync (b.payload.filter (fun d => !s.avail.contains d)) b.author) rfl h
      refine ⟨h1.chains, h1.commits, h1.buffer, h1.blocksPay, ?_, h1.votedPay, h1.commitPay⟩
      intro b' m hm d hd
      simp only [emit_payPending, List.mem_append, List.mem_singleton, Prod.mk.injEq] at hm
      rcases hm with hm | ⟨rfl, rfl⟩
      · exact h.parkedPay b' m hm d hd
      · by_cases hda : d ∈ s.avail
        · left; exact hda
        · right
          simp only [List.mem_filter]
          exact ⟨hd, by simpa using hda⟩

theorem inv5_proposalTail (c : Committee) (s : Node) (b : Block) (h4 : Inv4 s) (h : Inv5 s) :
    Inv5 (proposalTail c s b) := by
  unfold proposalTail
  have hp := inv5_payloadVerify s b h
  have hs := payloadVerify_spec s b
  split
  · rename_i s' heq; rw [heq] at hp; exact hp
  · rename_i s' heq
    rw [heq] at hp hs
    obtain ⟨rfl, hsub⟩ := hs rfl
    exact inv5_processBlock c _ b h4 hp hsub

theorem inv5_advanceTC (s : Node) (tc : Option TC) (h : Inv5 s) : Inv5 (s.advanceTC tc) := by
  unfold advanceTC; split
  · exact inv5_advanceRound _ _ _ h
  · exact h

theorem inv5_handleProposal (c : Committee) (s : Node) (b : Block) (h4 : Inv4 s) (h : Inv5 s) :
    Inv5 (s.handleProposal c b) := by
  unfold handleProposal
  split
  · exact h
  · split
    · exact h
    · exact inv5_proposalTail c _ b (inv4_advanceTC _ _ (inv4_processQC s b.qc h4))
        (inv5_advanceTC _ _ (inv5_processQC s b.qc h))

theorem isPerm_mem {a b : List Nat} (h : isPerm a b = true) : ∀ x ∈ a, x ∈ b := by
  intro x hx
  simp only [isPerm, Bool.and_eq_true, beq_iff_eq, List.all_eq_true] at h
  have := h.2 x hx
  have hc : 0 < a.count x := List.count_pos_iff.mpr hx
  rw [this] at hc
  exact List.count_pos_iff.mp hc

theorem inv5_proposerStep (s : Node) (order : List Nat) (h : Inv5 s) : Inv5 (s.proposerStep order) := by
  unfold proposerStep
  split
  · exact h
  · rename_i ds rest hq
    have hsub : ∀ d ∈ s.buffer.filter (fun d => !ds.contains d), d ∈ s.avail :=
      fun d hd => h.buffer d (List.mem_filter.mp hd).1
    constructor <;> simp [Sub] <;> grind [Inv5, Sub]
  · rename_i r qc tc rest hq
    split
    · exact h
    · rename_i hperm
      have hperm' : isPerm order s.buffer = true := by simpa using hperm
      have hord : ∀ d ∈ order, d ∈ s.avail := fun d hd => h.buffer d (isPerm_mem hperm' d hd)
      constructor <;> simp [Sub] <;> grind [Inv5, Sub, ownBlock_payload]

theorem inv5_helperStep (c : Committee) (s : Node) (d : Digest) (o : Nat) (h : Inv5 s) :
    Inv5 (s.helperStep c d o) := by
  unfold helperStep
  split
  · exact h
  · split
    · exact inv5_emit_light _ _ rfl h
    · exact h
    · first
        | exact h
        | (split
           · exact h
           · exact inv5_fail _ _ h)

theorem inv5_storeBatch (s : Node) (d : Nat) (h : Inv5 s) : Inv5 (s.storeBatch d) := by
  unfold storeBatch
  split
  · exact h
  · constructor <;> simp [Sub] <;> grind [Inv5, Sub]

theorem storeBatch_mem (s : Node) (d : Nat) : d ∈ (s.storeBatch d).avail := by
  unfold storeBatch
  split
  · rename_i h; simpa using h
  · simp

theorem inv5_digestStep (s : Node) (d : Nat) (h : Inv5 s) : Inv5 (s.digestStep d) := by
  unfold digestStep
  have h1 := inv5_storeBatch s d h
  have hd := storeBatch_mem s d
  split
  · exact h1
  · constructor <;> simp [Sub] <;> grind [Inv5, Sub]

theorem inv5_step (c : Committee) (s : Node) (e : Event) (h4 : Inv4 s) (h : Inv5 s) :
    Inv5 (step c s e) := by
  unfold step
  split
  · exact h
  · split
    · exact inv5_handleProposal c s _ h4 h
    · exact inv5_handleVote c s _ h
    · exact inv5_handleTimeout c s _ h
    · exact inv5_handleTC c s _ h
    · exact inv5_localTimeout c s h
    · split
      · exact h
      · rename_i b rest hq
        have hb := h.blocksPay b (by simp [hq])
        refine inv5_processBlock c _ b ⟨h4.keyed, h4.closed, h4.noPanic⟩ ?_ (sub_of_eq_avail _ hb rfl)
        constructor <;> simp [Sub] <;> grind [Inv5, Sub]
    · exact inv5_proposerStep s _ h
    · exact inv5_digestStep s _ h
    · exact inv5_storeBatch s _ h
    · split
      · exact h
      · rename_i i _ b hb
        have hmem : b ∈ s.syncPending := List.mem_of_getElem? hb
        split
        · exact h
        · have hsub : ∀ x ∈ removeAt s.syncPending i, x ∈ s.syncPending := fun x hx => mem_removeAt _ _ _ hx
          constructor <;> simp [Sub] <;> grind [Inv5, Sub]
    · split
      · exact h
      · rename_i i _ b missing hb
        have hmem : (b, missing) ∈ s.payPending := List.mem_of_getElem? hb
        split
        · rename_i hall
          have hall' : ∀ d ∈ missing, d ∈ s.avail := by
            simpa [List.all_eq_true] using hall
          have hpay : ∀ d ∈ b.payload, d ∈ s.avail := by
            intro d hd
            rcases h.parkedPay b missing hmem d hd with h1 | h1
            · exact h1
            · exact hall' d h1
          have hsub : ∀ x ∈ removeAt s.payPending i, x ∈ s.payPending := fun x hx => mem_removeAt _ _ _ hx
          constructor <;> simp [Sub] <;> grind [Inv5, Sub]
        · exact h
    · split
      · exact inv5_emit_light _ _ rfl h
      · exact h
    · exact inv5_helperStep c s _ _ h

theorem inv5_init (c : Committee) (name : Nat) : Inv5 (Node.init c name) := by
  unfold Node.init
  simp only []
  split <;> (constructor <;> simp [Sub])

end HS
