import HotstuffModel.Proofs.Bincode
/-!
Whatever the decoders return is well-formed (32-byte fields, rounds and lengths below 2^64): the
field-injectivity theorems of C20 therefore apply to every message a node can receive.
-/
namespace HS.Wire

theorem unle_lt (bs : List UInt8) : unle bs < 256 ^ bs.length := by
  induction bs with
  | nil => simp [unle]
  | cons b bs ih =>
    have hb := b.toNat_lt
    simp only [unle, List.length_cons, Nat.pow_succ]
    simp only [Nat.reducePow] at hb
    omega

/-- Postcondition of a decoder: every value it returns satisfies `P`. -/
def Dec.Post {α : Type} (d : Dec α) (P : α → Prop) : Prop := ∀ bs x r, d.run bs = .ok (x, r) → P x

namespace Dec.Post
open Dec

theorem pure {α : Type} {P : α → Prop} (a : α) (h : P a) : Post (Pure.pure a : Dec α) P := by
  intro bs x r e
  rw [run_pure] at e
  injection e with e
  injection e with e1 _
  rw [← e1]; exact h

theorem bind {α β : Type} {d : Dec α} {f : α → Dec β} {Q : α → Prop} {P : β → Prop}
    (hd : Post d Q) (hf : ∀ a, Q a → Post (f a) P) : Post (d >>= f) P := by
  intro bs x r e
  rw [run_bind] at e
  cases h : d.run bs with
  | ok p =>
    obtain ⟨a, r'⟩ := p
    rw [h] at e
    exact hf a (hd bs a r' h) r' x r e
  | err => rw [h] at e; cases e
  | panic => rw [h] at e; cases e

theorem mono {α : Type} {d : Dec α} {P Q : α → Prop} (h : Post d P) (hpq : ∀ x, P x → Q x) : Post d Q :=
  fun bs x r e => hpq x (h bs x r e)

theorem fail {α : Type} {P : α → Prop} : Post (Dec.fail : Dec α) P := by
  intro bs x r e; cases e

theorem lift {α : Type} {P : α → Prop} (res : Res α) (h : ∀ a, res = .ok a → P a) : Post (Dec.lift res) P := by
  intro bs x r e
  cases res with
  | ok a =>
    rw [run_lift_ok] at e
    injection e with e
    injection e with e1 _
    rw [← e1]; exact h a rfl
  | err => cases e
  | panic => cases e

theorem take (n : Nat) : Post (Dec.take n) (fun s => s.length = n) := by
  intro bs x r e
  simp only [Dec.take] at e
  split at e
  · injection e with e
    injection e with e1 _
    rw [← e1, List.length_take]; omega
  · cases e

theorem u8 : Post Dec.u8 (fun _ => True) := fun _ _ _ _ => trivial

theorem u64 : Post Dec.u64 (fun n => n < 2 ^ 64) :=
  bind (take 8) (fun b hb => pure _ (by have := unle_lt b; rw [hb] at this; simpa using this))

theorem u32 : Post Dec.u32 (fun _ => True) := fun _ _ _ _ => trivial

theorem many {α : Type} {d : Dec α} {P : α → Prop} (hd : Post d P) (n : Nat) :
    Post (Dec.many d n) (fun xs => xs.length = n ∧ ∀ x ∈ xs, P x) := by
  induction n with
  | zero => exact pure _ (by simp)
  | succ n ih =>
    exact bind hd (fun a ha => bind ih (fun xs hxs => pure _ (by
      constructor
      · simp [hxs.1]
      · intro x hx
        simp only [List.mem_cons] at hx
        rcases hx with rfl | hx
        · exact ha
        · exact hxs.2 x hx)))

theorem vec {α : Type} {d : Dec α} {P : α → Prop} (hd : Post d P) :
    Post (Dec.vec d) (fun xs => xs.length < 2 ^ 64 ∧ ∀ x ∈ xs, P x) :=
  bind u64 (fun n hn => mono (many hd n) (fun xs h => ⟨by rw [h.1]; exact hn, h.2⟩))

theorem byteVec : Post Dec.byteVec (fun s => s.length < 2 ^ 64) :=
  bind u64 (fun n hn => mono (take n) (fun s h => by rw [h]; exact hn))

theorem ite {α : Type} {P : α → Prop} {p : Prop} [Decidable p] {a b : Dec α} (ha : Post a P)
    (hb : Post b P) : Post (if p then a else b) P := by
  split
  · exact ha
  · exact hb

theorem option {α : Type} {d : Dec α} {P : α → Prop} (hd : Post d P) :
    Post (Dec.option d) (fun o => ∀ x, o = some x → P x) :=
  bind u8 (fun _ _ => ite (pure _ (fun x h => by cases h))
    (ite (bind hd (fun a ha => pure _ (fun x h => by cases h; exact ha))) fail))

end Dec.Post

theorem decodeKey_ok_length (c : Bool) (n : Nat) (s k : List UInt8) (h : decodeKey c n s = .ok k) :
    k.length = n := by
  unfold decodeKey at h
  split at h
  · cases h
  · split at h
    · split at h <;> cases h
    · injection h with h
      rw [← h, List.length_take]; omega

section
open Dec.Post

theorem decDigest_wf : decDigest.Post (fun d => d.length = 32) := take 32
theorem decPk_wf (c : Bool) : (decPk c).Post (fun k => k.length = 32) :=
  bind byteVec (fun s _ => lift _ (fun k hk => decodeKey_ok_length c 32 s k hk))
theorem decSig_wf : decSig.Post Sig.WF :=
  bind (take 32) (fun _ ha => bind (take 32) (fun _ hb => pure _ ⟨ha, hb⟩))
theorem decQCVote_wf (c : Bool) : (decQCVote c).Post (fun v => v.1.length = 32 ∧ v.2.WF) :=
  bind (decPk_wf c) (fun _ hk => bind decSig_wf (fun _ hs => pure _ ⟨hk, hs⟩))
theorem decTCVote_wf (c : Bool) :
    (decTCVote c).Post (fun v => v.1.length = 32 ∧ v.2.1.WF ∧ v.2.2 < 2 ^ 64) :=
  bind (decPk_wf c) (fun _ hk => bind decSig_wf (fun _ hs => bind u64 (fun _ hr => pure _ ⟨hk, hs, hr⟩)))
theorem decQC_wf (c : Bool) : (decQC c).Post QC.WF :=
  bind decDigest_wf (fun _ hh => bind u64 (fun _ hr => bind (vec (decQCVote_wf c)) (fun _ hv =>
    pure _ ⟨hh, hr, hv.1, hv.2⟩)))
theorem decTC_wf (c : Bool) : (decTC c).Post TC.WF :=
  bind u64 (fun _ hr => bind (vec (decTCVote_wf c)) (fun _ hv => pure _ ⟨hr, hv.1, hv.2⟩))
theorem decBlock_wf (c : Bool) : (decBlock c).Post Block.WF :=
  bind (decQC_wf c) (fun _ hq => bind (option (decTC_wf c)) (fun _ ht => bind (decPk_wf c) (fun _ ha =>
    bind u64 (fun _ hr => bind (vec decDigest_wf) (fun _ hp => bind decSig_wf (fun _ hs =>
      pure _ ⟨hq, ht, ha, hr, hp.1, hp.2, hs⟩))))))
theorem decVote_wf (c : Bool) : (decVote c).Post Vote.WF :=
  bind decDigest_wf (fun _ hh => bind u64 (fun _ hr => bind (decPk_wf c) (fun _ ha =>
    bind decSig_wf (fun _ hs => pure _ ⟨hh, hr, ha, hs⟩))))
theorem decTimeout_wf (c : Bool) : (decTimeout c).Post Timeout.WF :=
  bind (decQC_wf c) (fun _ hq => bind u64 (fun _ hr => bind (decPk_wf c) (fun _ ha =>
    bind decSig_wf (fun _ hs => pure _ ⟨hq, hr, ha, hs⟩))))
theorem decCMsg_wf (c : Bool) : (decCMsg c).Post CMsg.WF :=
  bind u32 (fun _ _ =>
    ite (bind (decBlock_wf c) (fun _ h => pure _ h))
    (ite (bind (decVote_wf c) (fun _ h => pure _ h))
    (ite (bind (decTimeout_wf c) (fun _ h => pure _ h))
    (ite (bind (decTC_wf c) (fun _ h => pure _ h))
    (ite (bind decDigest_wf (fun _ hd => bind (decPk_wf c) (fun _ hk => pure _ ⟨hd, hk⟩))) fail)))))
theorem decMMsg_wf (c : Bool) : (decMMsg c).Post MMsg.WF :=
  bind u32 (fun _ _ =>
    ite (bind (vec byteVec) (fun _ h => pure _ ⟨h.1, h.2⟩))
    (ite (bind (vec decDigest_wf) (fun _ hd => bind (decPk_wf c) (fun _ hk => pure _ ⟨hd.1, hd.2, hk⟩))) fail))
end

end HS.Wire
