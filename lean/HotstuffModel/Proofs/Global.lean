import HotstuffModel.Proofs.NodeInv6
import HotstuffModel.Proofs.Reachable
import HotstuffModel.Proofs.Agreement
import HotstuffModel.Properties.C17
/-
The global model (DESIGN C01, Layer C): one node model per honest committee member; a global step
delivers ANY event to ANY honest member, provided every signature token inside it that names an
honest signer was really produced by that signer (is recorded in the signer's own history).
Byzantine members are not modelled as programs at all: whatever they do is some event sequence.
Delay, reordering, duplication, loss, partitions: all are just event orders.
-/
namespace HS
open Node

/-- Deployment: a committee with distinct keys, total stake in range, and a set of Byzantine
members holding at most f = ⌊(n-1)/3⌋ of the stake. -/
structure World where
  c : Committee
  bad : Nat → Bool
  wf : c.WF
  nonempty : c.keys ≠ []
  n1 : 1 ≤ c.total
  n2 : c.total < 2 ^ 31
  badBound : c.weight (c.keys.filter bad) ≤ C17.f c.total

abbrev GState := Nat → Node

def upd (G : GState) (i : Nat) (s : Node) : GState := fun j => if j = i then s else G j

@[simp] theorem upd_same (G : GState) (i : Nat) (s : Node) : upd G i s i = s := by simp [upd]
theorem upd_other (G : GState) (i j : Nat) (s : Node) (h : j ≠ i) : upd G i s j = G j := by simp [upd, h]

/-- A token is legitimate in `G`: its signer is Byzantine (may sign anything), or the signer's own
history records having signed exactly that content (unforgeability). -/
def Legit (bad : Nat → Bool) (G : GState) (sig : Sig) : Prop :=
  bad sig.signer = true ∨ SelfSigned (G sig.signer).hist sig.content

/-- Honest members. -/
def World.honest (X : World) (i : Nat) : Prop := i ∈ X.c.keys ∧ X.bad i = false

inductive Reach (X : World) : GState → Prop
  | init : Reach X (fun i => Node.init X.c i)
  | step (G : GState) (i : Nat) (e : Event) :
      Reach X G → X.honest i → EventTok (Legit X.bad G) e →
      Reach X (upd G i (step X.c (G i) e))

theorem selfSigned_mono {h h' : List Out} (hs : ∀ o ∈ h, o ∈ h') (cnt : Content)
    (hc : SelfSigned h cnt) : SelfSigned h' cnt := by
  cases cnt with
  | vote d r => obtain ⟨b, hb, h1, h2⟩ := hc; exact ⟨b, hs _ hb, h1, h2⟩
  | timeout r hq => obtain ⟨t, ht, h1, h2⟩ := hc; exact ⟨t, hs _ ht, h1, h2⟩
  | block d => obtain ⟨b, hb, h1⟩ := hc; exact ⟨b, hs _ hb, h1⟩
  | junk n => exact hc

theorem legit_mono (bad : Nat → Bool) (G : GState) (i : Nat) (s' : Node)
    (hs : ∀ o ∈ (G i).hist, o ∈ s'.hist) (sig : Sig) (h : Legit bad G sig) :
    Legit bad (upd G i s') sig := by
  rcases h with h | h
  · left; exact h
  · right
    by_cases hi : sig.signer = i
    · rw [hi, upd_same]; rw [hi] at h; exact selfSigned_mono hs _ h
    · rw [upd_other _ _ _ _ hi]; exact h

theorem eventTok_mono {E E' : Sig → Prop} (h : ∀ sig, E sig → E' sig) (e : Event) (he : EventTok E e) :
    EventTok E' e := by
  cases e with
  | msg m =>
    cases m with
    | propose b =>
      exact ⟨fun v hv => h _ (he.1 v hv), fun x hx v hv => h _ (he.2 x hx v hv)⟩
    | vote v => exact h _ he
    | timeout t => exact ⟨h _ he.1, fun v hv => h _ (he.2 v hv)⟩
    | tc t => exact fun v hv => h _ (he v hv)
  | _ => trivial

theorem step_name (c : Committee) (s : Node) (e : Event) : (step c s e).name = s.name := (ext_step c s e).name

theorem init_name (c : Committee) (i : Nat) : (Node.init c i).name = i := by
  unfold Node.init; simp only []; split <;> rfl

/-- Every node keeps its identity. -/
theorem reach_name (X : World) (G : GState) (h : Reach X G) : ∀ i, (G i).name = i := by
  induction h with
  | init => intro i; exact init_name X.c i
  | step G i e _ _ _ ih =>
    intro j
    by_cases hj : j = i
    · subst hj; rw [upd_same, step_name]; exact ih j
    · rw [upd_other _ _ _ _ hj]; exact ih j

/-- All single-node invariants hold at every honest member of a reachable global state. -/
theorem reach_local (X : World) (G : GState) (h : Reach X G) :
    ∀ i, X.honest i → Inv1 (G i) ∧ Inv2 (G i) ∧ Inv3 X.c (G i) ∧ Inv4 (G i) ∧ Inv5 (G i) := by
  induction h with
  | init =>
    intro i hi
    exact ⟨inv1_init _ _, inv2_init _ _, inv3_init _ _ hi.1, inv4_init _ _, inv5_init _ _⟩
  | step G i e _ hi _ ih =>
    intro j hj
    by_cases hji : j = i
    · subst hji
      rw [upd_same]
      obtain ⟨h1, h2, h3, h4, h5⟩ := ih j hj
      exact ⟨inv1_step _ _ _ h1, inv2_step _ _ _ h1 h2, inv3_step _ _ _ h3,
        inv4_step _ X.nonempty rfl _ _ h3 h4, inv5_step _ _ _ h4 h5⟩
    · rw [upd_other _ _ _ _ hji]; exact ih j hj

/-- Token provenance, for every predicate `E` that contains the currently legitimate tokens. -/
theorem reach_tokens (X : World) (G : GState) (h : Reach X G) :
    ∀ E : Sig → Prop, (∀ sig, Legit X.bad G sig → E sig) → ∀ i, X.honest i → Inv6 E (G i) := by
  induction h with
  | init => intro E _ i _; exact inv6_init E X.c i
  | step G i e hr hi hev ih =>
    intro E hE j hj
    have hname := reach_name X G hr
    have hsub : ∀ o ∈ (G i).hist, o ∈ (step X.c (G i) e).hist := ext_hist_mem (ext_step X.c (G i) e)
    have hE0 : ∀ sig, Legit X.bad G sig → E sig := fun sig hs => hE sig (legit_mono X.bad G i _ hsub sig hs)
    by_cases hji : j = i
    · subst hji
      rw [upd_same]
      apply inv6_step E X.c (G j) e (ih E hE0 j hj) (eventTok_mono hE0 e hev) (step X.c (G j) e).hist
        (fun o ho => ho)
      intro cnt hc
      apply hE
      right
      show SelfSigned (upd G j (step X.c (G j) e) (G j).name).hist cnt
      rw [hname j, upd_same]; exact hc
    · rw [upd_other _ _ _ _ hji]; exact ih E hE0 j hj

theorem reach_legit (X : World) (G : GState) (h : Reach X G) (i : Nat) (hi : X.honest i) :
    Inv6 (Legit X.bad G) (G i) := reach_tokens X G h _ (fun _ hs => hs) i hi

end HS
