import HotstuffModel.Proofs.Global
/-
From the global model to the abstract agreement theorem: the honest histories of a reachable
global state satisfy the four local invariants of `Abs.LocalInv`.
-/
namespace HS
open Node

def dParent : Digest → Digest
  | .block _ _ _ p => p
  | _ => .zero

def dRound : Digest → Nat
  | .block _ r _ _ => r
  | _ => 0

@[simp] theorem dParent_block (b : Block) : dParent b.digest = b.qc.hash := rfl
@[simp] theorem dRound_block (b : Block) : dRound b.digest = b.round := rfl

/-- The abstract history of a global state, over block digests. -/
def absHist (X : World) (G : GState) : Abs.Hist Digest where
  parent := dParent
  round := dRound
  voted := fun h d => X.honest h ∧ ∃ b, Out.voted b ∈ (G h).hist ∧ b.digest = d
  timedOut := fun h t hq => X.honest h ∧ ∃ to, Out.timeout to ∈ (G h).hist ∧ to.round = t ∧ to.highQC.round = hq

def absCtx (X : World) : Abs.Ctx where
  nodes := X.c.keys
  stake := X.c.stake
  bad := X.bad
  q := X.c.quorum
  f := C17.f X.c.total
  nodes_nodup := X.wf
  bad_le := X.badBound
  quorum_gt := by
    rw [Committee.weight_keys X.c X.wf]
    have := X.n1
    unfold Committee.quorum Gen.qtConsensus C17.f
    omega

/-- Two entries of a list: one of them comes first. -/
theorem mem_order {α : Type} {l : List α} {x y : α} (hx : x ∈ l) (hy : y ∈ l) (hne : x ≠ y) :
    (∃ h1 h2, l = h1 ++ x :: h2 ∧ y ∈ h2) ∨ (∃ h1 h2, l = h1 ++ y :: h2 ∧ x ∈ h2) := by
  induction l with
  | nil => cases hx
  | cons a l ih =>
    rcases List.mem_cons.mp hx with rfl | hx'
    · rcases List.mem_cons.mp hy with rfl | hy'
      · exact absurd rfl hne
      · left; exact ⟨[], l, rfl, hy'⟩
    · rcases List.mem_cons.mp hy with rfl | hy'
      · right; exact ⟨[], l, rfl, hx'⟩
      · rcases ih hx' hy' with ⟨h1, h2, e, h⟩ | ⟨h1, h2, e, h⟩
        · left; exact ⟨a :: h1, h2, by rw [e]; rfl, h⟩
        · right; exact ⟨a :: h1, h2, by rw [e]; rfl, h⟩

/-- One vote per round, read off `votesOrd`. -/
theorem voted_unique_per_round {hist : List Out} (h : votesOrd hist) {b b' : Block}
    (hb : Out.voted b ∈ hist) (hb' : Out.voted b' ∈ hist) (hr : b.round = b'.round) : b = b' := by
  by_cases hne : Out.voted b = Out.voted b'
  · injection hne
  · rcases mem_order hb hb' hne with ⟨h1, h2, e, hm⟩ | ⟨h1, h2, e, hm⟩
    · rw [e] at h; have := (votesOrd_split h).1 b' hm; omega
    · rw [e] at h; have := (votesOrd_split h).1 b hm; omega

theorem toutsOrd_split {h1 h2 : List Out} {t : Timeout} (h : toutsOrd (h1 ++ .timeout t :: h2)) :
    ∀ b, Out.voted b ∈ h2 → b.qc.round ≤ t.highQC.round := by
  induction h1 with
  | nil => simp [toutsOrd] at h; exact h.1
  | cons o h1 ih =>
    cases o <;> simp [toutsOrd] at h <;> first | exact ih h | exact ih h.2.2.2.2

/-- A vote and a timeout of one node: if the vote's round is at most the timeout's round, the
timeout carries a QC at least as high as the voted block's QC. -/
theorem timeout_dominates_vote {s : Node} (i1 : Inv1 s) (i2 : Inv2 s) {b : Block} {t : Timeout}
    (hb : Out.voted b ∈ s.hist) (ht : Out.timeout t ∈ s.hist) (hr : b.round ≤ t.round) :
    b.qc.round ≤ t.highQC.round := by
  have hne : Out.voted b ≠ Out.timeout t := by intro e; cases e
  rcases mem_order hb ht hne with ⟨h1, h2, e, hm⟩ | ⟨h1, h2, e, hm⟩
  · -- the timeout is older than the vote: impossible when b.round ≤ t.round
    have := i2.votes; rw [e] at this
    have := (votesOrd_split this).2 t hm
    omega
  · have := i2.touts; rw [e] at this
    exact toutsOrd_split this b hm

section
variable (X : World) (G : GState)

/-- An honest signer inside a verified QC really voted for (hash, round). -/
theorem qc_honest_signer_voted {q : QC} (hv : q.verify X.c = .ok ()) (ht : QCtok (Legit X.bad G) q)
    {k : Nat} (hk : k ∈ q.signers) (hb : X.bad k = false) :
    ∃ b, Out.voted b ∈ (G k).hist ∧ b.digest = q.hash ∧ b.round = q.round := by
  obtain ⟨p, hp, rfl⟩ := List.mem_map.mp hk
  have hval := ((QC.verify_ok_iff X.c q).mp hv).2.2.2 p hp
  have hsig : p.2.signer = p.1 ∧ p.2.content = .vote q.hash q.round := by
    simpa [Sig.valid, QC.content] using hval
  rcases ht p hp with hbad | hself
  · rw [hsig.1, hb] at hbad; cases hbad
  · rw [hsig.1, hsig.2] at hself; exact hself

theorem qc_signers_members {q : QC} (hv : q.verify X.c = .ok ()) : ∀ k ∈ q.signers, k ∈ X.c.keys := by
  intro k hk
  exact stake_ne_zero_mem X.c k (((QC.verify_ok_iff X.c q).mp hv).2.1 k hk)

/-- A verified QC whose tokens are legitimate certifies its hash in the abstract sense, and its
round field is the round of the block it names. -/
theorem qc_certifies {q : QC} (hv : q.verify X.c = .ok ()) (ht : QCtok (Legit X.bad G) q) :
    Abs.Certified (absCtx X) (absHist X G) q.hash ∧ dRound q.hash = q.round := by
  obtain ⟨h1, h2, h3, h4⟩ := (QC.verify_ok_iff X.c q).mp hv
  have hmem := qc_signers_members X hv
  have hcert : Abs.Certified (absCtx X) (absHist X G) q.hash := by
    refine ⟨q.signers, h1, hmem, h3, ?_⟩
    intro s hs hbs
    obtain ⟨b, hb, hd, _⟩ := qc_honest_signer_voted X G hv ht hs hbs
    exact ⟨⟨hmem s hs, hbs⟩, b, hb, hd⟩
  refine ⟨hcert, ?_⟩
  obtain ⟨x, hx, hbx⟩ := Abs.quorum_has_honest (absCtx X) q.signers h1 hmem h3
  obtain ⟨b, _, hd, hr⟩ := qc_honest_signer_voted X G hv ht hx hbx
  rw [← hd, dRound_block, hr]

theorem qcok_round {q : QC} (hq : QCok X.c q) (ht : QCtok (Legit X.bad G) q) : dRound q.hash = q.round := by
  rcases hq with hg | hv
  · have : q.hash = .zero ∧ q.round = 0 := by
      simpa [QC.isGenesis, QC.same, QC.genesis] using hg
    rw [this.1, this.2]; rfl
  · exact (qc_certifies X G hv ht).2

theorem tc_valid {t : TC} (hv : t.verify X.c = .ok ()) (ht : TCtok (Legit X.bad G) t) :
    Abs.ValidTC (absCtx X) (absHist X G) t.round t.highQcRounds := by
  obtain ⟨h1, h2, h3, h4⟩ := (TC.verify_ok_iff X.c t).mp hv
  have hfst : (t.votes.map (fun v => (v.1, v.2.2))).map Prod.fst = t.signers := by
    simp [TC.signers, List.map_map, Function.comp_def]
  refine ⟨t.votes.map (fun v => (v.1, v.2.2)), ?_, ?_, ?_, ?_, ?_⟩
  · rw [hfst]; exact h1
  · intro x hx
    rw [hfst] at hx
    exact stake_ne_zero_mem X.c x (h2 x hx)
  · rw [hfst]; exact h3
  · simp [TC.highQcRounds, List.map_map, Function.comp_def]
  · intro e he hbe
    have hbe : X.bad e.1 = false := hbe
    obtain ⟨p, hp, rfl⟩ := List.mem_map.mp he
    have hval := h4 p hp
    have hsig : p.2.1.signer = p.1 ∧ p.2.1.content = .timeout t.round p.2.2 := by
      simpa [Sig.valid] using hval
    have hk : p.1 ∈ X.c.keys :=
      stake_ne_zero_mem X.c p.1 (h2 p.1 (List.mem_map.mpr ⟨p, hp, rfl⟩))
    rcases ht p hp with hbad | hself
    · rw [hsig.1] at hbad; simp only at hbe; rw [hbe] at hbad; cases hbad
    · rw [hsig.1, hsig.2] at hself
      obtain ⟨to, hto, hr, hq⟩ := hself
      exact ⟨⟨hk, hbe⟩, to, hto, hr, hq⟩

/-- The honest histories of a reachable global state satisfy the four local invariants. -/
theorem reach_localInv (hR : Reach X G) : Abs.LocalInv (absCtx X) (absHist X G) Digest.zero := by
  refine ⟨rfl, ?_, ?_, ?_⟩
  · -- one vote per round
    intro h d d' _ ⟨hh, b, hb, hd⟩ ⟨_, b', hb', hd'⟩ hr
    have i2 := (reach_local X G hR h hh).2.1
    subst hd hd'
    have : b = b' := voted_unique_per_round i2.votes hb hb' (by simpa [absHist] using hr)
    rw [this]
  · -- justified
    intro h d _ ⟨hh, b, hb, hd⟩
    subst hd
    obtain ⟨i1, _, i3, _, _⟩ := reach_local X G hR h hh
    have i6 := reach_legit X G hR h hh
    have hv1 := i1.voted b hb
    have hck := i3.voted b hb
    have htk := i6.voted b hb
    have hround : dRound b.qc.hash = b.qc.round := qcok_round X G hck.qc htk.1
    simp only [absHist, dParent_block, dRound_block]
    refine ⟨by rw [hround]; exact hv1.2.1, ?_, ?_⟩
    · rcases hck.qc with hg | hv
      · left
        have : b.qc.hash = .zero ∧ b.qc.round = 0 := by
          simpa [QC.isGenesis, QC.same, QC.genesis] using hg
        exact this.1
      · right; exact (qc_certifies X G hv htk.1).1
    · rcases hv1.2.2.1 with hc | ⟨tc, htc, hr, hall⟩
      · left; rw [hround]; exact hc
      · right
        refine ⟨tc.highQcRounds, ?_, ?_⟩
        · have := tc_valid X G (hck.tc tc htc) (htk.2 tc htc)
          have he : b.round - 1 = tc.round := by omega
          rw [he]; exact this
        · intro x hx; rw [hround]; exact hall x hx
  · -- timeout_high
    intro h d t hq _ ⟨hh, b, hb, hd⟩ ⟨_, to, hto, hr, hhq⟩ hle
    subst hd
    obtain ⟨i1, i2, i3, _, _⟩ := reach_local X G hR h hh
    have i6 := reach_legit X G hR h hh
    have hround : dRound b.qc.hash = b.qc.round := qcok_round X G (i3.voted b hb).qc (i6.voted b hb).1
    simp only [absHist, dParent_block, dRound_block] at hle ⊢
    rw [hround, ← hhq]
    exact timeout_dominates_vote i1 i2 hb hto (by omega)

end

/-- Chain membership is the abstract `Extends`. -/
theorem extends_of_mem_chain (X : World) (G : GState) {d e : Digest} (h : d ∈ e.chain) :
    Abs.Extends (absHist X G) e d := by
  induction e with
  | zero => simp [Digest.chain] at h
  | raw n => simp [Digest.chain] at h
  | block a r p par ih =>
    simp only [Digest.chain, List.mem_cons] at h
    rcases h with rfl | h
    · exact ⟨0, rfl⟩
    · obtain ⟨k, hk⟩ := ih h
      exact ⟨k + 1, hk⟩

/-- … and conversely, for block digests. -/
theorem mem_chain_of_extends (X : World) (G : GState) {e : Digest} {x : Block}
    (h : Abs.Extends (absHist X G) e x.digest) : x.digest ∈ e.chain := by
  obtain ⟨k, hk⟩ := h
  induction k generalizing e with
  | zero =>
    simp only [Abs.anc] at hk
    rw [hk]; exact self_mem_chain x
  | succ k ih =>
    simp only [Abs.anc] at hk
    cases e with
    | zero =>
      have h0 : ∀ k, Abs.anc (absHist X G) k Digest.zero = Digest.zero := by
        intro k; induction k with
        | zero => rfl
        | succ k ih => simp only [Abs.anc]; exact ih
      have : x.digest = Digest.zero := by
        have := h0 k
        simp only [absHist, dParent] at hk
        rw [← hk]; exact this
      simp [Block.digest] at this
    | raw n =>
      have h0 : ∀ k, Abs.anc (absHist X G) k Digest.zero = Digest.zero := by
        intro k; induction k with
        | zero => rfl
        | succ k ih => simp only [Abs.anc]; exact ih
      have : x.digest = Digest.zero := by
        have := h0 k
        simp only [absHist, dParent] at hk
        rw [← hk]; exact this
      simp [Block.digest] at this
    | block a r p par =>
      simp only [Digest.chain, List.mem_cons]
      right
      exact ih hk

end HS
