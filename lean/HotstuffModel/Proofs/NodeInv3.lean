import HotstuffModel.Proofs.NodeInv2
import HotstuffModel.Proofs.AggregatorOK
/-
Layer 2 invariant: everything the node holds or has acted upon was verified.
Holds for ARBITRARY inputs; "verified" is acceptance by the model's `verify` functions
(whose exact meaning is in Proofs/Verify.lean).
-/
namespace HS
open Node

def QCok (c : Committee) (q : QC) : Prop := q.isGenesis = true ∨ q.verify c = .ok ()
def TCok (c : Committee) (t : Option TC) : Prop := ∀ x, t = some x → x.verify c = .ok ()

/-- What `handle_proposal` establishes before a block may go any further. -/
structure Checked (c : Committee) (b : Block) : Prop where
  leader : b.author = c.leader b.round
  member : b.author ∈ c.keys
  signed : b.sig.valid (.block b.digest) b.author = true
  qc : QCok c b.qc
  tc : TCok c b.tc

/-- The certificate recorded with a round change is for the preceding round and verified. -/
def EvOK (c : Committee) (r : Nat) : Evidence → Prop
  | .qc q => q.round + 1 = r ∧ QCok c q
  | .tc t => t.round + 1 = r ∧ t.verify c = .ok ()

structure Inv3 (c : Committee) (s : Node) : Prop where
  nameMem : s.name ∈ c.keys
  hq : QCok c s.highQC
  agg : AggOK c s.agg
  blocks : ∀ b, b ∈ s.pendingBlocks → Checked c b
  makes : ∀ r qc tc, PMsg.make r qc tc ∈ s.propQ → QCok c qc ∧ TCok c tc ∧ s.name = c.leader r
  voted : ∀ b, Out.voted b ∈ s.hist → Checked c b
  entered : ∀ r ev, Out.entered r ev ∈ s.hist → EvOK c r ev
  proposed : ∀ b, Out.propose b ∈ s.hist → Checked c b ∧ b.author = s.name
  tcs : ∀ t, Out.tc t ∈ s.hist → t.verify c = .ok ()
  touts : ∀ t, Out.timeout t ∈ s.hist →
    QCok c t.highQC ∧ t.author = s.name ∧ t.sig = ⟨s.name, .timeout t.round t.highQC.round⟩
  chains : ∀ b0 b1 blk, Out.twoChain b0 b1 blk ∈ s.hist →
    Checked c blk ∧ (b1 = Block.genesis ∨ Checked c b1)
  replied : ∀ to b, Out.helperReply to b ∈ s.hist → Checked c b

theorem checked_genesis_qc (c : Committee) : QCok c QC.genesis := Or.inl (by decide)

/-- Outputs Inv3 does not track. -/
def Out.free : Out → Bool
  | .vote _ _ => true
  | .selfVote _ => true
  | .commit _ => true
  | .syncRequest _ _ => true
  | .mempoolSync _ _ => true
  | .mempoolCleanup _ => true
  | _ => false

theorem inv3_emit_free (c : Committee) (s : Node) (o : Out) (ho : o.free = true) (h : Inv3 c s) :
    Inv3 c (s.emit o) := by
  cases o <;> simp [Out.free] at ho <;>
    (constructor <;> simp [Node.pendingBlocks] <;> grind [Inv3, Node.pendingBlocks])

theorem inv3_fail (c : Committee) (s : Node) (p : PanicSite) (h : Inv3 c s) : Inv3 c (s.fail p) := by
  unfold fail; constructor <;> simp [Node.pendingBlocks] <;> grind [Inv3, Node.pendingBlocks]

theorem inv3_setAgg (c : Committee) (s : Node) (a : Aggregator) (h : Inv3 c s) (ha : AggOK c a) :
    Inv3 c { s with agg := a } := by
  constructor <;> simp [Node.pendingBlocks] <;> grind [Inv3, Node.pendingBlocks]

theorem inv3_advanceRound (c : Committee) (s : Node) (r : Nat) (ev : Evidence) (h : Inv3 c s)
    (hev : EvOK c (r + 1) ev) : Inv3 c (s.advanceRound r ev) := by
  unfold advanceRound
  split
  · exact h
  · have ha := aggOK_cleanup c s.agg h.agg (r + 1)
    constructor <;> simp [Node.pendingBlocks] <;> grind [Inv3, Node.pendingBlocks]

theorem inv3_updateHighQC (c : Committee) (s : Node) (qc : QC) (h : Inv3 c s) (hq : QCok c qc) :
    Inv3 c (s.updateHighQC qc) := by
  unfold updateHighQC
  split
  · constructor <;> simp [Node.pendingBlocks] <;> grind [Inv3, Node.pendingBlocks]
  · exact h

theorem inv3_processQC (c : Committee) (s : Node) (qc : QC) (h : Inv3 c s) (hq : QCok c qc) :
    Inv3 c (s.processQC qc) := by
  unfold processQC
  exact inv3_updateHighQC c _ qc (inv3_advanceRound c s qc.round _ h ⟨rfl, hq⟩) hq

theorem processQC_name (s : Node) (qc : QC) : (s.processQC qc).name = s.name := by
  unfold processQC updateHighQC advanceRound
  split <;> split <;> simp

theorem advanceRound_name (s : Node) (r : Nat) (ev : Evidence) : (s.advanceRound r ev).name = s.name := by
  unfold advanceRound; split <;> simp

theorem inv3_generateProposal (c : Committee) (s : Node) (tc : Option TC) (h : Inv3 c s)
    (htc : TCok c tc) (hl : s.name = c.leader s.round) : Inv3 c (s.generateProposal tc) := by
  unfold generateProposal
  have := h.hq
  constructor <;> simp [Node.pendingBlocks] <;> grind [Inv3, Node.pendingBlocks]

theorem inv3_handleVote (c : Committee) (s : Node) (v : Vote) (h : Inv3 c s) :
    Inv3 c (s.handleVote c v) := by
  unfold handleVote
  split
  · exact h
  · split
    · exact h
    · rename_i u hv
      cases u
      split
      · exact h
      · rename_i agg hadd
        exact inv3_setAgg c s agg h (addVote_ok c _ _ v _ h.agg hv hadd).1
      · rename_i agg qc hadd
        have hok := addVote_ok c _ _ v _ h.agg hv hadd
        have hq : QCok c qc := Or.inr (hok.2 qc rfl).1
        have h1 := inv3_processQC c _ qc (inv3_setAgg c s agg h hok.1) hq
        simp only []
        split
        · rename_i hl
          exact inv3_generateProposal c _ none h1 (by intro x hx; cases hx) (by simpa using hl)
        · exact h1

theorem inv3_emit_tc (c : Committee) (s : Node) (t : TC) (h : Inv3 c s) (ht : t.verify c = .ok ()) :
    Inv3 c (s.emit (.tc t)) := by
  constructor <;> simp [Node.pendingBlocks] <;> grind [Inv3, Node.pendingBlocks]

theorem inv3_handleTimeout (c : Committee) (s : Node) (t : Timeout) (h : Inv3 c s) :
    Inv3 c (s.handleTimeout c t) := by
  unfold handleTimeout
  split
  · exact h
  · split
    · exact h
    · rename_i u hv
      cases u
      have hqc : QCok c t.highQC := ((Timeout.verify_ok_iff c t).mp hv).2.2
      have h0 := inv3_processQC c s t.highQC h hqc
      simp only []
      split
      · exact h0
      · rename_i agg hadd
        exact inv3_setAgg c _ agg h0 (addTimeout_ok c _ _ t _ h0.agg hv hadd).1
      · rename_i agg tc hadd
        have hok := addTimeout_ok c _ _ t _ h0.agg hv hadd
        have htc := (hok.2 tc rfl).1
        have h1 := inv3_emit_tc c _ tc
          (inv3_advanceRound c _ tc.round (.tc tc) (inv3_setAgg c _ agg h0 hok.1) ⟨rfl, htc⟩) htc
        split
        · rename_i hl
          exact inv3_generateProposal c _ (some tc) h1
            (by intro x hx; cases hx; exact htc) (by simpa using hl)
        · exact h1

theorem inv3_handleTC (c : Committee) (s : Node) (tc : TC) (h : Inv3 c s) :
    Inv3 c (s.handleTC c tc) := by
  unfold handleTC
  split
  · exact h
  · rename_i u hv
    cases u
    split
    · exact h
    · have h1 := inv3_advanceRound c s tc.round (.tc tc) h ⟨rfl, hv⟩
      simp only []
      split
      · rename_i hl
        exact inv3_generateProposal c _ (some tc) h1
          (by intro x hx; cases hx; exact hv) (by simpa using hl)
      · exact h1

theorem inv3_localTimeout (c : Committee) (s : Node) (h : Inv3 c s) : Inv3 c (s.localTimeout c) := by
  unfold localTimeout
  apply inv3_handleTimeout
  have := h.hq
  constructor <;> simp [Node.pendingBlocks] <;> grind [Inv3, Node.pendingBlocks]

theorem inv3_foldl_commit (c : Committee) (l : List Block) (s : Node) (h : Inv3 c s) :
    Inv3 c (l.foldl (fun s x => s.emit (.commit x)) s) := by
  induction l generalizing s with
  | nil => exact h
  | cons a l ih => exact ih _ (inv3_emit_free c s _ rfl h)

theorem inv3_commit (c : Committee) (s : Node) (b : Block) (h : Inv3 c s) : Inv3 c (commit c s b).1 := by
  unfold commit
  split
  · exact h
  · split
    · exact inv3_fail c _ _ h
    · exact h
    · apply inv3_foldl_commit
      constructor <;> simp [Node.pendingBlocks] <;> grind [Inv3, Node.pendingBlocks]

theorem inv3_makeVote (c : Committee) (s : Node) (b : Block) (h : Inv3 c s) (hb : Checked c b) :
    Inv3 c (s.makeVote b).1 := by
  unfold makeVote
  split
  · exact inv3_fail c _ _ h
  · split
    · constructor <;> simp [Node.pendingBlocks] <;> grind [Inv3, Node.pendingBlocks]
    · exact h

theorem inv3_mempoolCleanup (c : Committee) (s : Node) (r : Nat) (h : Inv3 c s) :
    Inv3 c (s.mempoolCleanup r) := by
  unfold mempoolCleanup
  apply inv3_emit_free c _ _ rfl
  constructor <;> simp [Node.pendingBlocks] <;> grind [Inv3, Node.pendingBlocks]

theorem inv3_park (c : Committee) (s : Node) (b : Block) (h : Inv3 c s) (hb : Checked c b) :
    Inv3 c (park c s b) := by
  unfold park
  split
  · exact h
  · split
    · constructor <;> simp [Node.pendingBlocks] <;> grind [Inv3, Node.pendingBlocks]
    · have h2 : Inv3 c { s with syncPending := s.syncPending ++ [b],
                                syncRequests := s.syncRequests ++ [b.parent] } := by
        constructor <;> simp [Node.pendingBlocks] <;> grind [Inv3, Node.pendingBlocks]
      split
      · exact inv3_emit_free c _ _ rfl h2
      · exact inv3_fail c _ _ h2

theorem inv3_getParent (c : Committee) (s : Node) (b : Block) (h : Inv3 c s) (hb : Checked c b) :
    Inv3 c (getParent c s b).1 := by
  unfold getParent
  split
  · exact h
  · split
    · exact h
    · exact h
    · exact inv3_park c s b h hb

theorem inv3_sendVote (c : Committee) (s : Node) (v : Vote) (h : Inv3 c s) : Inv3 c (sendVote c s v) := by
  unfold sendVote
  split
  · exact inv3_handleVote c _ v (inv3_emit_free c s _ rfl h)
  · split
    · exact inv3_emit_free c s _ rfl h
    · exact inv3_fail c _ _ h

theorem inv3_voteStage (c : Committee) (s : Node) (ok : Bool) (b : Block) (h : Inv3 c s)
    (hb : Checked c b) : Inv3 c (voteStage c s ok b) := by
  unfold voteStage
  split
  · exact h
  · split
    · exact h
    · have hm := inv3_makeVote c s b h hb
      split
      · rename_i s' heq; rw [heq] at hm; exact hm
      · rename_i s' v heq; rw [heq] at hm; exact inv3_sendVote c s' v hm

theorem inv3_afterStore (c : Committee) (s : Node) (b0 b1 b : Block) (h : Inv3 c s) (hb : Checked c b) :
    Inv3 c (afterStore s b0 b1 b) := by
  unfold afterStore storeBlock
  constructor <;> simp [Node.pendingBlocks] <;> grind [Inv3, Node.pendingBlocks]

theorem inv3_beforeCommit (c : Committee) (s : Node) (b0 b1 b : Block) (h : Inv3 c s) (hb : Checked c b)
    (hb1 : b1 = Block.genesis ∨ Checked c b1) :
    Inv3 c (beforeCommit s b0 b1 b) := by
  unfold beforeCommit
  have h1 := inv3_mempoolCleanup c _ b0.round (inv3_afterStore c s b0 b1 b h hb)
  constructor <;> simp [Node.pendingBlocks] <;> grind [Inv3, Node.pendingBlocks]

theorem inv3_processBlockTail (c : Committee) (s : Node) (b0 b1 b : Block) (h : Inv3 c s)
    (hb : Checked c b) (hb1 : b1 = Block.genesis ∨ Checked c b1) :
    Inv3 c (processBlockTail c s b0 b1 b) := by
  unfold processBlockTail
  split
  · exact inv3_voteStage c _ _ b (inv3_commit c _ b0 (inv3_beforeCommit c s b0 b1 b h hb hb1)) hb
  · exact inv3_voteStage c _ _ b (inv3_afterStore c s b0 b1 b h hb) hb

/-- Genesis is not `Checked` (nobody signed it), so ancestors are tracked as "genesis or checked". -/
theorem getParent_found_checked (c : Committee) (s : Node) (b p : Block) (h : Inv3 c s)
    (hf : (getParent c s b).2 = .found p) : p = Block.genesis ∨ Checked c p := by
  rcases getParent_found c s b p hf with rfl | hmem
  · left; rfl
  · right
    apply h.blocks
    simp [Node.pendingBlocks]
    right; right; right
    simpa using hmem

theorem inv3_getParent' (c : Committee) (s : Node) (b : Block) (h : Inv3 c s)
    (hb : b = Block.genesis ∨ Checked c b) : Inv3 c (getParent c s b).1 := by
  rcases hb with rfl | hb
  · unfold getParent
    simp [Block.genesis, QC.isGenesis, QC.same, QC.genesis]
    exact h
  · exact inv3_getParent c s b h hb

theorem inv3_processBlock (c : Committee) (s : Node) (b : Block) (h : Inv3 c s) (hb : Checked c b) :
    Inv3 c (processBlock c s b) := by
  unfold processBlock
  have h1 := inv3_getParent c s b h hb
  split
  · exact h1
  · exact h1
  · rename_i b1 hb1
    have hc1 := getParent_found_checked c s b b1 h hb1
    have h2 := inv3_getParent' c _ b1 h1 hc1
    split
    · exact inv3_fail c _ _ h2
    · exact h2
    · exact inv3_processBlockTail c _ _ _ _ h2 hb hc1

theorem inv3_payloadVerify (c : Committee) (s : Node) (b : Block) (h : Inv3 c s) (hb : Checked c b) :
    Inv3 c (s.payloadVerify b).1 := by
  unfold payloadVerify
  simp only []
  split
  · exact h
  · split
    · exact inv3_emit_free c _ _ rfl h
    · have h1 := inv3_emit_free c s (.mempoolSync (b.payload.filter (fun d => !s.avail.contains d)) b.author) rfl h
      constructor <;> simp [Node.pendingBlocks] <;> grind [Inv3, Node.pendingBlocks]

theorem inv3_proposalTail (c : Committee) (s : Node) (b : Block) (h : Inv3 c s) (hb : Checked c b) :
    Inv3 c (proposalTail c s b) := by
  unfold proposalTail
  have hp := inv3_payloadVerify c s b h hb
  split
  · rename_i s' heq; rw [heq] at hp; exact hp
  · rename_i s' heq; rw [heq] at hp; exact inv3_processBlock c s' b hp hb

theorem inv3_advanceTC (c : Committee) (s : Node) (tc : Option TC) (h : Inv3 c s) (htc : TCok c tc) :
    Inv3 c (s.advanceTC tc) := by
  unfold advanceTC
  split
  · rename_i t
    exact inv3_advanceRound c s t.round (.tc t) h ⟨rfl, htc t rfl⟩
  · exact h

theorem stake_ne_zero_mem (c : Committee) (k : Nat) (h : c.stake k ≠ 0) : k ∈ c.keys := by
  apply Classical.byContradiction
  intro hn
  exact h (Committee.stake_unknown c k hn)

theorem inv3_handleProposal (c : Committee) (s : Node) (b : Block) (h : Inv3 c s) :
    Inv3 c (s.handleProposal c b) := by
  unfold handleProposal
  split
  · exact h
  · rename_i hl
    split
    · exact h
    · rename_i u hv
      cases u
      obtain ⟨v1, v2, v3, v4⟩ := (Block.verify_ok_iff c b).mp hv
      have hb : Checked c b := ⟨by simpa using hl, stake_ne_zero_mem c _ v1, v2, v3, v4⟩
      exact inv3_proposalTail c _ b (inv3_advanceTC c _ b.tc (inv3_processQC c s b.qc h v3) v4) hb

theorem inv3_proposerStep (c : Committee) (s : Node) (order : List Nat) (h : Inv3 c s) :
    Inv3 c (s.proposerStep order) := by
  unfold proposerStep
  split
  · exact h
  · rename_i ds rest hq
    have hmem : ∀ m, m ∈ rest → m ∈ s.propQ := fun m hm => by rw [hq]; exact List.mem_cons_of_mem _ hm
    constructor <;> simp [Node.pendingBlocks] <;> grind [Inv3, Node.pendingBlocks]
  · rename_i r qc tc rest hq
    split
    · exact h
    · have hmem : ∀ m, m ∈ rest → m ∈ s.propQ := fun m hm => by rw [hq]; exact List.mem_cons_of_mem _ hm
      have hm := h.makes r qc tc (by rw [hq]; simp)
      have hck : Checked c (ownBlock s.name r qc tc order) :=
        ⟨hm.2.2, h.nameMem, by simp [Sig.valid, Block.digest, ownBlock], hm.1, hm.2.1⟩
      have hau : (ownBlock s.name r qc tc order).author = s.name := rfl
      constructor <;> simp [Node.pendingBlocks] <;> grind [Inv3, Node.pendingBlocks]

theorem inv3_helperStep (c : Committee) (s : Node) (d : Digest) (o : Nat) (h : Inv3 c s) :
    Inv3 c (s.helperStep c d o) := by
  unfold helperStep
  split
  · exact h
  · split
    · rename_i b hb
      have hm := readBlock_found_mem s d b hb
      have hbk := h.blocks b (by simp [Node.pendingBlocks]; right; right; right; simpa using hm)
      constructor <;> simp [Node.pendingBlocks] <;> grind [Inv3, Node.pendingBlocks]
    · exact h
    · split
      · exact h
      · exact inv3_fail c _ _ h

theorem inv3_storeBatch (c : Committee) (s : Node) (d : Nat) (h : Inv3 c s) : Inv3 c (s.storeBatch d) := by
  unfold storeBatch
  split
  · exact h
  · constructor <;> simp [Node.pendingBlocks] <;> grind [Inv3, Node.pendingBlocks]

theorem inv3_digestStep (c : Committee) (s : Node) (d : Nat) (h : Inv3 c s) : Inv3 c (s.digestStep d) := by
  unfold digestStep
  have h1 := inv3_storeBatch c s d h
  split
  · exact h1
  · constructor <;> simp [Node.pendingBlocks] <;> grind [Inv3, Node.pendingBlocks]

theorem inv3_step (c : Committee) (s : Node) (e : Event) (h : Inv3 c s) : Inv3 c (step c s e) := by
  unfold step
  split
  · exact h
  · split
    · exact inv3_handleProposal c s _ h
    · exact inv3_handleVote c s _ h
    · exact inv3_handleTimeout c s _ h
    · exact inv3_handleTC c s _ h
    · exact inv3_localTimeout c s h
    · split
      · exact h
      · rename_i b rest hq
        have hb := h.blocks b (by simp [Node.pendingBlocks, hq])
        refine inv3_processBlock c _ b ?_ hb
        constructor <;> simp [Node.pendingBlocks] <;> grind [Inv3, Node.pendingBlocks]
    · exact inv3_proposerStep c s _ h
    · exact inv3_digestStep c s _ h
    · exact inv3_storeBatch c s _ h
    · split
      · exact h
      · rename_i i _ b hb
        have hmem : b ∈ s.syncPending := List.mem_of_getElem? hb
        split
        · exact h
        · have hsub : ∀ x ∈ removeAt s.syncPending i, x ∈ s.syncPending := fun x hx => mem_removeAt _ _ _ hx
          constructor <;> simp [Node.pendingBlocks] <;> grind [Inv3, Node.pendingBlocks]
    · split
      · exact h
      · rename_i i _ b missing hb
        have hmem : (b, missing) ∈ s.payPending := List.mem_of_getElem? hb
        have hbk := h.blocks b (by
          simp [Node.pendingBlocks]; right; right; left; exact ⟨missing, hmem⟩)
        split
        · have hsub : ∀ x ∈ removeAt s.payPending i, x ∈ s.payPending := fun x hx => mem_removeAt _ _ _ hx
          constructor <;> simp [Node.pendingBlocks] <;> grind [Inv3, Node.pendingBlocks]
        · exact h
    · split
      · exact inv3_emit_free c _ _ rfl h
      · exact h
    · exact inv3_helperStep c s _ _ h

theorem inv3_init (c : Committee) (name : Nat) (hn : name ∈ c.keys) : Inv3 c (Node.init c name) := by
  unfold Node.init
  simp only []
  split
  · rename_i hl
    have hl' : name = c.leader 1 := by simpa using hl
    refine ⟨hn, checked_genesis_qc c, aggOK_empty c, by simp [Node.pendingBlocks], ?_, by simp,
      by simp, by simp, by simp, by simp, by simp, by simp⟩
    intro r qc tc hm
    simp at hm
    obtain ⟨rfl, rfl, rfl⟩ := hm
    refine ⟨checked_genesis_qc c, ?_, hl'⟩
    intro x hx; cases hx
  · exact ⟨hn, checked_genesis_qc c, aggOK_empty c, by simp [Node.pendingBlocks], by simp, by simp,
      by simp, by simp, by simp, by simp, by simp, by simp⟩

theorem inv3_run (c : Committee) (s : Node) (es : List Event) (h : Inv3 c s) : Inv3 c (run c s es) := by
  unfold run
  induction es generalizing s with
  | nil => exact h
  | cons e es ih => exact ih _ (inv3_step c s e h)

end HS
