import HotstuffModel.Proofs.NodeInv5
import HotstuffModel.Proofs.Ordering
import HotstuffModel.Proofs.NodeExt
/-
All invariants, for every state reachable from `init` by any event list.
-/
namespace HS
open Node

/-- Well-formed deployment: the committee is non-empty and the node is a member. -/
structure Deploy (c : Committee) (name : Nat) : Prop where
  nonempty : c.keys ≠ []
  member : name ∈ c.keys

theorem reachable_inv3 (c : Committee) (name : Nat) (hd : Deploy c name) (es : List Event) :
    Inv3 c (run c (init c name) es) := inv3_run c _ es (inv3_init c name hd.member)

/-- Store structure and panic-freedom; `hsw` is discharged by `rfl` while helper.rs skips
non-block entries (Generated/Switches.lean). -/
theorem reachable_inv4 (c : Committee) (name : Nat) (hd : Deploy c name)
    (hsw : Gen.helperSkipsNonBlock = true) (es : List Event) :
    Inv4 (run c (init c name) es) :=
  (inv34_run c hd.nonempty hsw _ es (inv3_init c name hd.member) (inv4_init c name)).2

theorem inv345_run (c : Committee) (hc : c.keys ≠ []) (hsw : Gen.helperSkipsNonBlock = true)
    (s : Node) (es : List Event) (h3 : Inv3 c s) (h4 : Inv4 s) (h5 : Inv5 s) :
    Inv5 (run c s es) := by
  unfold run
  induction es generalizing s with
  | nil => exact h5
  | cons e es ih =>
    exact ih _ (inv3_step c s e h3) (inv4_step c hc hsw s e h3 h4) (inv5_step c s e h4 h5)

theorem reachable_inv5 (c : Committee) (name : Nat) (hd : Deploy c name)
    (hsw : Gen.helperSkipsNonBlock = true) (es : List Event) :
    Inv5 (run c (init c name) es) :=
  inv345_run c hd.nonempty hsw _ es (inv3_init c name hd.member) (inv4_init c name) (inv5_init c name)

end HS
