import HotstuffModel.Proofs.NodeInv5
import HotstuffModel.Proofs.NodeExt
/-
Layer 5: provenance of signature tokens.  `E` is a fixed predicate on tokens ("legitimate");
if every token delivered from outside is in `E` and every token the node signs itself is in `E`,
then every token inside a certificate the node holds, votes on or commits by is in `E`.
In the global model `E` is "the signer is Byzantine, or the signer's own history records signing it".
-/
namespace HS
open Node

/-- What the node's own history records as signed by itself. -/
def SelfSigned (hist : List Out) : Content → Prop
  | .vote d r => ∃ b, Out.voted b ∈ hist ∧ b.digest = d ∧ b.round = r
  | .timeout r hq => ∃ t, Out.timeout t ∈ hist ∧ t.round = r ∧ t.highQC.round = hq
  | .block d => ∃ b, Out.propose b ∈ hist ∧ b.digest = d
  | .junk _ => False

/-- Everything recorded as self-signed in `Hf` is legitimate. -/
def SelfOK (E : Sig → Prop) (name : Nat) (Hf : List Out) : Prop :=
  ∀ cnt, SelfSigned Hf cnt → E ⟨name, cnt⟩

def QCtok (E : Sig → Prop) (q : QC) : Prop := ∀ v ∈ q.votes, E v.2
def TCtok (E : Sig → Prop) (t : TC) : Prop := ∀ v ∈ t.votes, E v.2.1
def OTCtok (E : Sig → Prop) (t : Option TC) : Prop := ∀ x, t = some x → TCtok E x
def BlockTok (E : Sig → Prop) (b : Block) : Prop := QCtok E b.qc ∧ OTCtok E b.tc

def MsgTok (E : Sig → Prop) : Msg → Prop
  | .propose b => BlockTok E b
  | .vote v => E v.sig
  | .timeout t => E t.sig ∧ QCtok E t.highQC
  | .tc t => TCtok E t

def EventTok (E : Sig → Prop) : Event → Prop
  | .msg m => MsgTok E m
  | _ => True

structure Inv6 (E : Sig → Prop) (s : Node) : Prop where
  hq : QCtok E s.highQC
  aggV : ∀ k m, (k, m) ∈ s.agg.votes → ∀ v ∈ m.votes, E v.2
  aggT : ∀ r m, (r, m) ∈ s.agg.timeouts → ∀ v ∈ m.votes, E v.2.1
  blocks : ∀ b, b ∈ s.pendingBlocks → BlockTok E b
  makes : ∀ r qc tc, PMsg.make r qc tc ∈ s.propQ → QCtok E qc ∧ OTCtok E tc
  voted : ∀ b, Out.voted b ∈ s.hist → BlockTok E b
  chains : ∀ b0 b1 blk, Out.twoChain b0 b1 blk ∈ s.hist →
    BlockTok E blk ∧ (b1 = Block.genesis ∨ BlockTok E b1)

theorem genesis_qctok (E : Sig → Prop) : QCtok E QC.genesis := by
  intro v hv; simp [QC.genesis] at hv

theorem ext_hist_mem {s s' : Node} (h : Ext s s') : ∀ o ∈ s.hist, o ∈ s'.hist := by
  obtain ⟨new, hn, _⟩ := h.hist
  intro o ho; rw [hn]; exact List.mem_append_right _ ho

/-- Outputs Inv6 does not track. -/
def Out.quiet : Out → Bool
  | .voted _ => false
  | .twoChain _ _ _ => false
  | _ => true

theorem inv6_emit_quiet (E : Sig → Prop) (s : Node) (o : Out) (ho : o.quiet = true) (h : Inv6 E s) :
    Inv6 E (s.emit o) := by
  cases o <;> simp [Out.quiet] at ho <;>
    (constructor <;> simp [Node.pendingBlocks] <;> grind [Inv6, Node.pendingBlocks])

theorem inv6_fail (E : Sig → Prop) (s : Node) (p : PanicSite) (h : Inv6 E s) : Inv6 E (s.fail p) := by
  unfold fail; constructor <;> simp [Node.pendingBlocks] <;> grind [Inv6, Node.pendingBlocks]

theorem inv6_cleanup (E : Sig → Prop) (s : Node) (r : Nat) (h : Inv6 E s) :
    Inv6 E { s with agg := s.agg.cleanup r } := by
  refine ⟨h.hq, ?_, ?_, h.blocks, h.makes, h.voted, h.chains⟩
  · intro k m hm
    simp only [Aggregator.cleanup, List.mem_filter] at hm
    exact h.aggV k m hm.1
  · intro r' m hm
    simp only [Aggregator.cleanup, List.mem_filter] at hm
    exact h.aggT r' m hm.1

theorem inv6_advanceRound (E : Sig → Prop) (s : Node) (r : Nat) (ev : Evidence) (h : Inv6 E s) :
    Inv6 E (s.advanceRound r ev) := by
  unfold advanceRound
  split
  · exact h
  · have h1 := inv6_cleanup E s (r + 1) h
    have h2 : Inv6 E { s with round := r + 1, agg := s.agg.cleanup (r + 1) } :=
      ⟨h1.hq, h1.aggV, h1.aggT, h1.blocks, h1.makes, h1.voted, h1.chains⟩
    exact inv6_emit_quiet E _ _ rfl h2

theorem inv6_updateHighQC (E : Sig → Prop) (s : Node) (qc : QC) (h : Inv6 E s) (hq : QCtok E qc) :
    Inv6 E (s.updateHighQC qc) := by
  unfold updateHighQC
  split
  · exact ⟨hq, h.aggV, h.aggT, h.blocks, h.makes, h.voted, h.chains⟩
  · exact h

theorem inv6_processQC (E : Sig → Prop) (s : Node) (qc : QC) (h : Inv6 E s) (hq : QCtok E qc) :
    Inv6 E (s.processQC qc) :=
  inv6_updateHighQC E _ qc (inv6_advanceRound E s _ _ h) hq

theorem inv6_generateProposal (E : Sig → Prop) (s : Node) (tc : Option TC) (h : Inv6 E s)
    (htc : OTCtok E tc) : Inv6 E (s.generateProposal tc) := by
  unfold generateProposal
  have := h.hq
  constructor <;> simp [Node.pendingBlocks] <;> grind [Inv6, Node.pendingBlocks]

/-- Tokens inside the maker after an append: the old ones plus the new vote's. -/
theorem qcmaker_append_tok (E : Sig → Prop) (c : Committee) (m m' : QCMaker) (v : Vote) (r : Option QC)
    (hm : ∀ x ∈ m.votes, E x.2) (hv : E v.sig) (h : m.append c v = .ok (m', r)) :
    (∀ x ∈ m'.votes, E x.2) ∧ ∀ qc, r = some qc → QCtok E qc := by
  unfold QCMaker.append at h
  split at h
  · cases h
  · simp only [] at h
    have hall : ∀ x ∈ m.votes ++ [(v.author, v.sig)], E x.2 := by
      intro x hx
      rcases List.mem_append.mp hx with hx | hx
      · exact hm x hx
      · simp at hx; subst hx; exact hv
    split at h <;>
      (simp only [Except.ok.injEq, Prod.mk.injEq] at h
       obtain ⟨h1, h2⟩ := h
       subst h1 h2
       refine ⟨hall, ?_⟩
       intro qc hqc
       first
         | (simp only [Option.some.injEq] at hqc; subst hqc; exact hall)
         | cases hqc)

theorem tcmaker_append_tok (E : Sig → Prop) (c : Committee) (m m' : TCMaker) (t : Timeout) (r : Option TC)
    (hm : ∀ x ∈ m.votes, E x.2.1) (hv : E t.sig) (h : m.append c t = .ok (m', r)) :
    (∀ x ∈ m'.votes, E x.2.1) ∧ ∀ tc, r = some tc → TCtok E tc := by
  unfold TCMaker.append at h
  split at h
  · cases h
  · simp only [] at h
    have hall : ∀ x ∈ m.votes ++ [(t.author, t.sig, t.highQC.round)], E x.2.1 := by
      intro x hx
      rcases List.mem_append.mp hx with hx | hx
      · exact hm x hx
      · simp at hx; subst hx; exact hv
    split at h <;>
      (simp only [Except.ok.injEq, Prod.mk.injEq] at h
       obtain ⟨h1, h2⟩ := h
       subst h1 h2
       refine ⟨hall, ?_⟩
       intro tc htc
       first
         | (simp only [Option.some.injEq] at htc; subst htc; exact hall)
         | cases htc)

theorem getQ_tok (E : Sig → Prop) (s : Node) (h : Inv6 E s) (k : Nat × Digest) :
    ∀ x ∈ (s.agg.getQ k).votes, E x.2 := by
  unfold Aggregator.getQ
  cases hl : s.agg.votes.lookup k with
  | none => simp
  | some m => exact h.aggV k m (mem_of_lookup hl)

theorem getT_tok (E : Sig → Prop) (s : Node) (h : Inv6 E s) (r : Nat) :
    ∀ x ∈ (s.agg.getT r).votes, E x.2.1 := by
  unfold Aggregator.getT
  cases hl : s.agg.timeouts.lookup r with
  | none => simp
  | some m => exact h.aggT r m (mem_of_lookup hl)

theorem inv6_addVote (E : Sig → Prop) (c : Committee) (s : Node) (v : Vote) (a' : Aggregator)
    (r : Option QC) (h : Inv6 E s) (hv : E v.sig) (hadd : s.agg.addVote c v = .ok (a', r)) :
    Inv6 E { s with agg := a' } ∧ ∀ qc, r = some qc → QCtok E qc := by
  unfold Aggregator.addVote at hadd
  split at hadd
  · cases hadd
  · rename_i m r' hm
    simp only [Except.ok.injEq, Prod.mk.injEq] at hadd
    obtain ⟨h1, h2⟩ := hadd
    subst h1 h2
    have := qcmaker_append_tok E c _ m v r' (getQ_tok E s h _) hv hm
    refine ⟨⟨h.hq, ?_, h.aggT, h.blocks, h.makes, h.voted, h.chains⟩, this.2⟩
    intro k m' hmem
    simp only [Aggregator.setQ, List.mem_cons, List.mem_filter] at hmem
    rcases hmem with hmem | hmem
    · cases hmem; exact this.1
    · exact h.aggV k m' hmem.1

theorem inv6_addTimeout (E : Sig → Prop) (c : Committee) (s : Node) (t : Timeout) (a' : Aggregator)
    (r : Option TC) (h : Inv6 E s) (hv : E t.sig) (hadd : s.agg.addTimeout c t = .ok (a', r)) :
    Inv6 E { s with agg := a' } ∧ ∀ tc, r = some tc → TCtok E tc := by
  unfold Aggregator.addTimeout at hadd
  split at hadd
  · cases hadd
  · rename_i m r' hm
    simp only [Except.ok.injEq, Prod.mk.injEq] at hadd
    obtain ⟨h1, h2⟩ := hadd
    subst h1 h2
    have := tcmaker_append_tok E c _ m t r' (getT_tok E s h _) hv hm
    refine ⟨⟨h.hq, h.aggV, ?_, h.blocks, h.makes, h.voted, h.chains⟩, this.2⟩
    intro k m' hmem
    simp only [Aggregator.setT, List.mem_cons, List.mem_filter] at hmem
    rcases hmem with hmem | hmem
    · cases hmem; exact this.1
    · exact h.aggT k m' hmem.1

theorem inv6_handleVote (E : Sig → Prop) (c : Committee) (s : Node) (v : Vote) (h : Inv6 E s)
    (hv : E v.sig) : Inv6 E (s.handleVote c v) := by
  unfold handleVote
  split
  · exact h
  · split
    · exact h
    · split
      · exact h
      · rename_i agg hadd
        exact (inv6_addVote E c s v agg none h hv hadd).1
      · rename_i agg qc hadd
        have hok := inv6_addVote E c s v agg (some qc) h hv hadd
        have h1 := inv6_processQC E _ qc hok.1 (hok.2 qc rfl)
        simp only []
        split
        · exact inv6_generateProposal E _ none h1 (by intro x hx; cases hx)
        · exact h1

theorem inv6_handleTimeout (E : Sig → Prop) (c : Committee) (s : Node) (t : Timeout) (h : Inv6 E s)
    (hv : E t.sig) (hq : QCtok E t.highQC) : Inv6 E (s.handleTimeout c t) := by
  unfold handleTimeout
  split
  · exact h
  · split
    · exact h
    · have h0 := inv6_processQC E s t.highQC h hq
      simp only []
      split
      · exact h0
      · rename_i agg hadd
        exact (inv6_addTimeout E c _ t agg none h0 hv hadd).1
      · rename_i agg tc hadd
        have hok := inv6_addTimeout E c _ t agg (some tc) h0 hv hadd
        have htc := hok.2 tc rfl
        have h1 := inv6_emit_quiet E _ (.tc tc) rfl (inv6_advanceRound E _ tc.round (.tc tc) hok.1)
        split
        · exact inv6_generateProposal E _ (some tc) h1 (by intro x hx; cases hx; exact htc)
        · exact h1

theorem inv6_handleTC (E : Sig → Prop) (c : Committee) (s : Node) (tc : TC) (h : Inv6 E s)
    (htc : TCtok E tc) : Inv6 E (s.handleTC c tc) := by
  unfold handleTC
  split
  · exact h
  · split
    · exact h
    · have h1 := inv6_advanceRound E s tc.round (.tc tc) h
      simp only []
      split
      · exact inv6_generateProposal E _ (some tc) h1 (by intro x hx; cases hx; exact htc)
      · exact h1

theorem inv6_localTimeout (E : Sig → Prop) (c : Committee) (s : Node) (h : Inv6 E s) (Hf : List Out)
    (hsub : ∀ o ∈ (s.localTimeout c).hist, o ∈ Hf) (hself : SelfOK E s.name Hf) :
    Inv6 E (s.localTimeout c) := by
  unfold localTimeout at hsub ⊢
  apply inv6_handleTimeout
  · have h1 : Inv6 E { s with lastVoted := max s.lastVoted s.round } :=
      ⟨h.hq, h.aggV, h.aggT, h.blocks, h.makes, h.voted, h.chains⟩
    exact inv6_emit_quiet E _ _ rfl h1
  · -- our own timeout signature: recorded in the history, hence legitimate
    apply hself (.timeout s.round s.highQC.round)
    refine ⟨{ highQC := s.highQC, round := s.round, author := s.name,
              sig := ⟨s.name, .timeout s.round s.highQC.round⟩ }, ?_, rfl, rfl⟩
    apply hsub
    apply ext_hist_mem (ext_handleTimeout c _ _)
    simp
  · exact h.hq

theorem inv6_foldl_commit (E : Sig → Prop) (l : List Block) (s : Node) (h : Inv6 E s) :
    Inv6 E (l.foldl (fun s x => s.emit (.commit x)) s) := by
  induction l generalizing s with
  | nil => exact h
  | cons a l ih => exact ih _ (inv6_emit_quiet E s _ rfl h)

theorem inv6_commit (E : Sig → Prop) (c : Committee) (s : Node) (b : Block) (h : Inv6 E s) :
    Inv6 E (commit c s b).1 := by
  unfold commit
  split
  · exact h
  · split
    · exact inv6_fail E _ _ h
    · exact h
    · apply inv6_foldl_commit
      exact ⟨h.hq, h.aggV, h.aggT, h.blocks, h.makes, h.voted, h.chains⟩

theorem inv6_makeVote (E : Sig → Prop) (s : Node) (b : Block) (h : Inv6 E s) (hb : BlockTok E b) :
    Inv6 E (s.makeVote b).1 := by
  unfold makeVote
  split
  · exact inv6_fail E _ _ h
  · split
    · constructor <;> simp [Node.pendingBlocks] <;> grind [Inv6, Node.pendingBlocks]
    · exact h

theorem makeVote_spec (s : Node) (b : Block) (s' : Node) (v : Vote) (h : s.makeVote b = (s', some v)) :
    v.sig = ⟨s.name, .vote b.digest b.round⟩ ∧ Out.voted b ∈ s'.hist ∧ s'.name = s.name := by
  unfold makeVote at h
  split at h
  · simp at h
  · split at h
    · simp only [Prod.mk.injEq, Option.some.injEq] at h
      obtain ⟨h1, h2⟩ := h
      subst h1 h2
      simp
    · simp at h

theorem inv6_park (E : Sig → Prop) (c : Committee) (s : Node) (b : Block) (h : Inv6 E s)
    (hb : BlockTok E b) : Inv6 E (park c s b) := by
  unfold park
  split
  · exact h
  · split
    · constructor <;> simp [Node.pendingBlocks] <;> grind [Inv6, Node.pendingBlocks]
    · have h2 : Inv6 E { s with syncPending := s.syncPending ++ [b],
                                syncRequests := s.syncRequests ++ [b.parent] } := by
        constructor <;> simp [Node.pendingBlocks] <;> grind [Inv6, Node.pendingBlocks]
      split
      · exact inv6_emit_quiet E _ _ rfl h2
      · exact inv6_fail E _ _ h2

theorem inv6_getParent (E : Sig → Prop) (c : Committee) (s : Node) (b : Block) (h : Inv6 E s)
    (hb : BlockTok E b) : Inv6 E (getParent c s b).1 := by
  unfold getParent
  split
  · exact h
  · split
    · exact h
    · exact h
    · exact inv6_park E c s b h hb

theorem inv6_sendVote (E : Sig → Prop) (c : Committee) (s : Node) (v : Vote) (h : Inv6 E s)
    (hv : E v.sig) : Inv6 E (sendVote c s v) := by
  unfold sendVote
  split
  · exact inv6_handleVote E c _ v (inv6_emit_quiet E s _ rfl h) hv
  · split
    · exact inv6_emit_quiet E s _ rfl h
    · exact inv6_fail E _ _ h

theorem inv6_voteStage (E : Sig → Prop) (c : Committee) (s : Node) (ok : Bool) (b : Block)
    (h : Inv6 E s) (hb : BlockTok E b) (Hf : List Out)
    (hsub : ∀ o ∈ (voteStage c s ok b).hist, o ∈ Hf) (hself : SelfOK E s.name Hf) :
    Inv6 E (voteStage c s ok b) := by
  unfold voteStage at hsub ⊢
  by_cases h1 : (!ok || s.panic.isSome) = true
  · rw [if_pos h1]; exact h
  · rw [if_neg h1] at hsub ⊢
    by_cases h2 : (b.round != s.round) = true
    · rw [if_pos h2]; exact h
    · rw [if_neg h2] at hsub ⊢
      have hm := inv6_makeVote E s b h hb
      split
      · rename_i s' heq; rw [heq] at hm; exact hm
      · rename_i s' v heq
        rw [heq] at hm
        obtain ⟨hsig, hvoted, hname⟩ := makeVote_spec s b s' v heq
        apply inv6_sendVote E c s' v hm
        rw [hsig]
        apply hself (.vote b.digest b.round)
        refine ⟨b, ?_, rfl, rfl⟩
        apply hsub
        simp only [heq]
        exact ext_hist_mem (ext_sendVote c s' v) _ hvoted

theorem inv6_afterStore (E : Sig → Prop) (s : Node) (b0 b1 b : Block) (h : Inv6 E s)
    (hb : BlockTok E b) : Inv6 E (afterStore s b0 b1 b) := by
  unfold afterStore storeBlock
  constructor <;> simp [Node.pendingBlocks] <;> grind [Inv6, Node.pendingBlocks]

theorem inv6_mempoolCleanup (E : Sig → Prop) (s : Node) (r : Nat) (h : Inv6 E s) :
    Inv6 E (s.mempoolCleanup r) := by
  unfold mempoolCleanup
  apply inv6_emit_quiet E _ _ rfl
  constructor <;> simp [Node.pendingBlocks] <;> grind [Inv6, Node.pendingBlocks]

theorem inv6_beforeCommit (E : Sig → Prop) (s : Node) (b0 b1 b : Block) (h : Inv6 E s)
    (hb : BlockTok E b) (hb1 : b1 = Block.genesis ∨ BlockTok E b1) :
    Inv6 E (beforeCommit s b0 b1 b) := by
  unfold beforeCommit
  have h1 := inv6_mempoolCleanup E _ b0.round (inv6_afterStore E s b0 b1 b h hb)
  constructor <;> simp [Node.pendingBlocks] <;> grind [Inv6, Node.pendingBlocks]

theorem voteStage_name (c : Committee) (s : Node) (ok : Bool) (b : Block) :
    (voteStage c s ok b).name = s.name := (ext_voteStage c s ok b).name

theorem inv6_processBlockTail (E : Sig → Prop) (c : Committee) (s : Node) (b0 b1 b : Block)
    (h : Inv6 E s) (hb : BlockTok E b) (hb1 : b1 = Block.genesis ∨ BlockTok E b1) (Hf : List Out)
    (hsub : ∀ o ∈ (processBlockTail c s b0 b1 b).hist, o ∈ Hf) (hself : SelfOK E s.name Hf) :
    Inv6 E (processBlockTail c s b0 b1 b) := by
  unfold processBlockTail at hsub ⊢
  split
  · rename_i hr
    simp only [hr, if_true] at hsub
    apply inv6_voteStage E c _ _ b (inv6_commit E c _ b0 (inv6_beforeCommit E s b0 b1 b h hb hb1)) hb Hf hsub
    have hn : (commit c (beforeCommit s b0 b1 b) b0).1.name = s.name :=
      (Ext.trans (ext_beforeCommit s b0 b1 b) (ext_commit c _ b0)).name
    rw [hn]; exact hself
  · rename_i hr
    simp only [hr] at hsub
    exact inv6_voteStage E c _ _ b (inv6_afterStore E s b0 b1 b h hb) hb Hf hsub hself

theorem getParent_found_tok (E : Sig → Prop) (c : Committee) (s : Node) (b p : Block) (h : Inv6 E s)
    (hf : (getParent c s b).2 = .found p) : p = Block.genesis ∨ BlockTok E p := by
  rcases getParent_found c s b p hf with rfl | hmem
  · left; rfl
  · right
    apply h.blocks
    simp [Node.pendingBlocks]
    right; right; right
    simpa using hmem

theorem inv6_getParent' (E : Sig → Prop) (c : Committee) (s : Node) (b : Block) (h : Inv6 E s)
    (hb : b = Block.genesis ∨ BlockTok E b) : Inv6 E (getParent c s b).1 := by
  rcases hb with rfl | hb
  · unfold getParent
    simp [Block.genesis, QC.isGenesis, QC.same, QC.genesis]
    exact h
  · exact inv6_getParent E c s b h hb

theorem inv6_processBlock (E : Sig → Prop) (c : Committee) (s : Node) (b : Block) (h : Inv6 E s)
    (hb : BlockTok E b) (Hf : List Out)
    (hsub : ∀ o ∈ (processBlock c s b).hist, o ∈ Hf) (hself : SelfOK E s.name Hf) :
    Inv6 E (processBlock c s b) := by
  unfold processBlock at hsub ⊢
  have h1 := inv6_getParent E c s b h hb
  split
  · exact h1
  · exact h1
  · rename_i b1 hb1
    simp only [hb1] at hsub
    have hc1 := getParent_found_tok E c s b b1 h hb1
    have h2 := inv6_getParent' E c _ b1 h1 hc1
    split
    · exact inv6_fail E _ _ h2
    · exact h2
    · rename_i b0 hb0
      simp only [hb0] at hsub
      apply inv6_processBlockTail E c _ b0 b1 b h2 hb hc1 Hf hsub
      have hn : (getParent c (getParent c s b).1 b1).1.name = s.name :=
        (Ext.trans (ext_getParent c s b) (ext_getParent c _ b1)).name
      rw [hn]; exact hself

theorem inv6_payloadVerify (E : Sig → Prop) (s : Node) (b : Block) (h : Inv6 E s) (hb : BlockTok E b) :
    Inv6 E (s.payloadVerify b).1 := by
  unfold payloadVerify
  simp only []
  split
  · exact h
  · split
    · exact inv6_emit_quiet E _ _ rfl h
    · have h1 := inv6_emit_quiet E s (.mempoolSync (b.payload.filter (fun d => !s.avail.contains d)) b.author) rfl h
      constructor <;> simp [Node.pendingBlocks] <;> grind [Inv6, Node.pendingBlocks]

theorem inv6_proposalTail (E : Sig → Prop) (c : Committee) (s : Node) (b : Block) (h : Inv6 E s)
    (hb : BlockTok E b) (Hf : List Out)
    (hsub : ∀ o ∈ (proposalTail c s b).hist, o ∈ Hf) (hself : SelfOK E s.name Hf) :
    Inv6 E (proposalTail c s b) := by
  unfold proposalTail at hsub ⊢
  have hp := inv6_payloadVerify E s b h hb
  have hn := (ext_payloadVerify s b).name
  split
  · rename_i s' heq; rw [heq] at hp; exact hp
  · rename_i s' heq
    rw [heq] at hp hn
    simp only [heq] at hsub
    apply inv6_processBlock E c s' b hp hb Hf hsub
    simp only at hn
    rw [hn]; exact hself

theorem inv6_advanceTC (E : Sig → Prop) (s : Node) (tc : Option TC) (h : Inv6 E s) :
    Inv6 E (s.advanceTC tc) := by
  unfold advanceTC; split
  · exact inv6_advanceRound E _ _ _ h
  · exact h

theorem inv6_handleProposal (E : Sig → Prop) (c : Committee) (s : Node) (b : Block) (h : Inv6 E s)
    (hb : BlockTok E b) (Hf : List Out)
    (hsub : ∀ o ∈ (s.handleProposal c b).hist, o ∈ Hf) (hself : SelfOK E s.name Hf) :
    Inv6 E (s.handleProposal c b) := by
  unfold handleProposal at hsub ⊢
  split
  · exact h
  · rename_i hl
    simp only [hl] at hsub
    split
    · exact h
    · rename_i u hv
      simp only [hv] at hsub
      apply inv6_proposalTail E c _ b (inv6_advanceTC E _ b.tc (inv6_processQC E s b.qc h hb.1)) hb Hf hsub
      have hn : ((s.processQC b.qc).advanceTC b.tc).name = s.name :=
        (Ext.trans (ext_processQC s b.qc) (ext_advanceTC _ b.tc)).name
      rw [hn]; exact hself

theorem inv6_proposerStep (E : Sig → Prop) (s : Node) (order : List Nat) (h : Inv6 E s) :
    Inv6 E (s.proposerStep order) := by
  unfold proposerStep
  split
  · exact h
  · rename_i ds rest hq
    have hmem : ∀ m, m ∈ rest → m ∈ s.propQ := fun m hm => by rw [hq]; exact List.mem_cons_of_mem _ hm
    constructor <;> simp [Node.pendingBlocks] <;> grind [Inv6, Node.pendingBlocks]
  · rename_i r qc tc rest hq
    split
    · exact h
    · have hmem : ∀ m, m ∈ rest → m ∈ s.propQ := fun m hm => by rw [hq]; exact List.mem_cons_of_mem _ hm
      have hm := h.makes r qc tc (by rw [hq]; simp)
      have hbt : BlockTok E (ownBlock s.name r qc tc order) := ⟨hm.1, hm.2⟩
      constructor <;> simp [Node.pendingBlocks] <;> grind [Inv6, Node.pendingBlocks]

theorem inv6_helperStep (E : Sig → Prop) (c : Committee) (s : Node) (d : Digest) (o : Nat)
    (h : Inv6 E s) : Inv6 E (s.helperStep c d o) := by
  unfold helperStep
  split
  · exact h
  · split
    · exact inv6_emit_quiet E _ _ rfl h
    · exact h
    · first
        | exact h
        | (split
           · exact h
           · exact inv6_fail E _ _ h)

theorem inv6_storeBatch (E : Sig → Prop) (s : Node) (d : Nat) (h : Inv6 E s) : Inv6 E (s.storeBatch d) := by
  unfold storeBatch
  split
  · exact h
  · exact ⟨h.hq, h.aggV, h.aggT, h.blocks, h.makes, h.voted, h.chains⟩

theorem inv6_digestStep (E : Sig → Prop) (s : Node) (d : Nat) (h : Inv6 E s) : Inv6 E (s.digestStep d) := by
  unfold digestStep
  have h1 := inv6_storeBatch E s d h
  split
  · exact h1
  · exact ⟨h1.hq, h1.aggV, h1.aggT, h1.blocks, h1.makes, h1.voted, h1.chains⟩

theorem inv6_step (E : Sig → Prop) (c : Committee) (s : Node) (e : Event) (h : Inv6 E s)
    (hev : EventTok E e) (Hf : List Out)
    (hsub : ∀ o ∈ (step c s e).hist, o ∈ Hf) (hself : SelfOK E s.name Hf) :
    Inv6 E (step c s e) := by
  unfold step at hsub ⊢
  split
  · exact h
  · rename_i hp
    simp only [hp] at hsub
    split
    · exact inv6_handleProposal E c s _ h hev Hf hsub hself
    · exact inv6_handleVote E c s _ h hev
    · exact inv6_handleTimeout E c s _ h hev.1 hev.2
    · exact inv6_handleTC E c s _ h hev
    · exact inv6_localTimeout E c s h Hf hsub hself
    · split
      · exact h
      · rename_i b rest hq
        simp only [hq] at hsub
        have hb := h.blocks b (by simp [Node.pendingBlocks, hq])
        refine inv6_processBlock E c _ b ?_ hb Hf hsub hself
        constructor <;> simp [Node.pendingBlocks] <;> grind [Inv6, Node.pendingBlocks]
    · exact inv6_proposerStep E s _ h
    · exact inv6_digestStep E s _ h
    · exact inv6_storeBatch E s _ h
    · split
      · exact h
      · rename_i i _ b hb
        have hmem : b ∈ s.syncPending := List.mem_of_getElem? hb
        split
        · exact h
        · have hsub' : ∀ x ∈ removeAt s.syncPending i, x ∈ s.syncPending := fun x hx => mem_removeAt _ _ _ hx
          constructor <;> simp [Node.pendingBlocks] <;> grind [Inv6, Node.pendingBlocks]
    · split
      · exact h
      · rename_i i _ b missing hb
        have hmem : (b, missing) ∈ s.payPending := List.mem_of_getElem? hb
        have hbk := h.blocks b (by
          simp [Node.pendingBlocks]; right; right; left; exact ⟨missing, hmem⟩)
        split
        · have hsub' : ∀ x ∈ removeAt s.payPending i, x ∈ s.payPending := fun x hx => mem_removeAt _ _ _ hx
          constructor <;> simp [Node.pendingBlocks] <;> grind [Inv6, Node.pendingBlocks]
        · exact h
    · split
      · exact inv6_emit_quiet E _ _ rfl h
      · exact h
    · exact inv6_helperStep E c s _ _ h

theorem inv6_init (E : Sig → Prop) (c : Committee) (name : Nat) : Inv6 E (Node.init c name) := by
  unfold Node.init
  simp only []
  split
  · refine ⟨genesis_qctok E, by simp, by simp, by simp [Node.pendingBlocks], ?_,
      by simp, by simp⟩
    intro r qc tc hm
    simp at hm
    obtain ⟨_, rfl, rfl⟩ := hm
    exact ⟨genesis_qctok E, by intro x hx; cases hx⟩
  · exact ⟨genesis_qctok E, by simp, by simp, by simp [Node.pendingBlocks], by simp, by simp, by simp⟩

end HS
