import HotstuffModel.Model.Committee
import HotstuffModel.Proofs.Weight
namespace HS
open Q

theorem Committee.weight_eq (c : Committee) (l : List Nat) : c.weight l = Q.weight c.stake l := rfl

theorem lookup_none_of_not_mem {l : List (Nat × Nat)} {k : Nat} (h : k ∉ l.map Prod.fst) :
    l.lookup k = none := by
  induction l with
  | nil => rfl
  | cons a l ih =>
    obtain ⟨a1, a2⟩ := a
    simp at h
    have hne : (k == a1) = false := by simpa using h.1
    rw [List.lookup_cons, hne]
    exact ih (by simpa using h.2)

theorem Committee.stake_unknown (c : Committee) (k : Nat) (h : k ∉ c.keys) :
    c.stake k = Gen.unknownStakeConsensus := by
  unfold Committee.stake
  rw [lookup_none_of_not_mem h]

theorem Committee.stakeMempool_unknown (c : Committee) (k : Nat) (h : k ∉ c.keys) :
    c.stakeMempool k = Gen.unknownStakeMempool := by
  unfold Committee.stakeMempool
  rw [lookup_none_of_not_mem h]

/-- With distinct keys the weight of all members is the total stake. -/
theorem Committee.weight_keys (c : Committee) (h : c.WF) : Q.weight c.stake c.keys = c.total := by
  obtain ⟨l⟩ := c
  unfold Committee.WF Committee.keys at h
  unfold Committee.keys Committee.total
  simp only at *
  -- generalise the lookup list
  suffices H : ∀ (l : List (Nat × Nat)), (l.map Prod.fst).Nodup →
      ∀ d, ((l.map Prod.fst).map (fun k => match l.lookup k with | some s => s | none => d)).sum
        = (l.map Prod.snd).sum by
    exact H l h _
  intro l
  induction l with
  | nil => intro _ _; rfl
  | cons a l ih =>
    intro hnd d
    obtain ⟨k, s⟩ := a
    simp only [List.map_cons, List.nodup_cons] at hnd
    simp only [List.map_cons, List.sum_cons, List.lookup, beq_self_eq_true]
    congr 1
    rw [← ih hnd.2 d]
    congr 1
    apply List.map_congr_left
    intro x hx
    have : (x == k) = false := by
      simp; intro e; subst e; exact hnd.1 hx
    simp [this]

end HS
