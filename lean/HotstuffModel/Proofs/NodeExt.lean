import HotstuffModel.Proofs.NodeInv2
/-
Two-state facts: what any step may change, and in which direction (no invariant needed).
-/
namespace HS
open Node

structure Ext (s s' : Node) : Prop where
  round : s.round ≤ s'.round
  hq : s.highQC.round ≤ s'.highQC.round
  lv : s.lastVoted ≤ s'.lastVoted
  lc : s.lastCommitted ≤ s'.lastCommitted
  name : s'.name = s.name
  hist : ∃ new, s'.hist = new ++ s.hist ∧
    (s'.round ≠ s.round → ∃ ev, Out.entered s'.round ev ∈ new)
  store : ∃ new, s'.store = new ++ s.store
  avail : ∀ d, d ∈ s.avail → d ∈ s'.avail

theorem Ext.refl (s : Node) : Ext s s :=
  ⟨Nat.le_refl _, Nat.le_refl _, Nat.le_refl _, Nat.le_refl _, rfl, ⟨[], by simp⟩, ⟨[], by simp⟩,
    fun _ h => h⟩

theorem Ext.trans {a b c : Node} (h1 : Ext a b) (h2 : Ext b c) : Ext a c := by
  obtain ⟨n1, e1, r1⟩ := h1.hist
  obtain ⟨n2, e2, r2⟩ := h2.hist
  obtain ⟨m1, f1⟩ := h1.store
  obtain ⟨m2, f2⟩ := h2.store
  refine ⟨Nat.le_trans h1.round h2.round, Nat.le_trans h1.hq h2.hq, Nat.le_trans h1.lv h2.lv,
    Nat.le_trans h1.lc h2.lc, h2.name.trans h1.name, ⟨n2 ++ n1, by rw [e2, e1]; simp, ?_⟩,
    ⟨m2 ++ m1, by rw [f2, f1]; simp⟩, fun d hd => h2.avail d (h1.avail d hd)⟩
  intro hne
  by_cases hbc : c.round = b.round
  · have : b.round ≠ a.round := by rw [← hbc]; exact hne
    obtain ⟨ev, hev⟩ := r1 this
    exact ⟨ev, by rw [hbc]; simp [hev]⟩
  · obtain ⟨ev, hev⟩ := r2 hbc
    exact ⟨ev, by simp [hev]⟩

/-- Changes that touch neither counters nor store/avail, and only prepend to the history. -/
theorem Ext.of_same (s s' : Node) (hr : s'.round = s.round) (hq : s'.highQC = s.highQC)
    (hl : s'.lastVoted = s.lastVoted) (hc : s'.lastCommitted = s.lastCommitted) (hn : s'.name = s.name)
    (hh : ∃ new, s'.hist = new ++ s.hist) (hs : s'.store = s.store) (ha : s'.avail = s.avail) :
    Ext s s' := by
  obtain ⟨new, hnew⟩ := hh
  exact ⟨by omega, by rw [hq]; exact Nat.le_refl _, by omega, by omega, hn,
    ⟨new, hnew, fun h => absurd hr h⟩, ⟨[], by simp [hs]⟩, fun d hd => by rw [ha]; exact hd⟩

theorem ext_emit (s : Node) (o : Out) : Ext s (s.emit o) :=
  Ext.of_same _ _ rfl rfl rfl rfl rfl ⟨[o], rfl⟩ rfl rfl

theorem ext_fail (s : Node) (p : PanicSite) : Ext s (s.fail p) :=
  Ext.of_same _ _ rfl rfl rfl rfl rfl ⟨[], rfl⟩ rfl rfl

theorem ext_advanceRound (s : Node) (r : Nat) (ev : Evidence) : Ext s (s.advanceRound r ev) := by
  unfold advanceRound
  split
  · exact Ext.refl s
  · refine ⟨by simp; omega, by simp, by simp, by simp, rfl, ⟨[.entered (r + 1) ev], by simp, ?_⟩,
      ⟨[], by simp⟩, fun d hd => by simpa using hd⟩
    intro _; exact ⟨ev, by simp⟩

theorem ext_updateHighQC (s : Node) (qc : QC) : Ext s (s.updateHighQC qc) := by
  unfold updateHighQC
  split
  · refine ⟨by simp, by simp; omega, by simp, by simp, rfl, ⟨[], by simp⟩, ⟨[], by simp⟩,
      fun d hd => by simpa using hd⟩
  · exact Ext.refl s

theorem ext_processQC (s : Node) (qc : QC) : Ext s (s.processQC qc) :=
  Ext.trans (ext_advanceRound s _ _) (ext_updateHighQC _ _)

theorem ext_setAgg (s : Node) (a : Aggregator) : Ext s { s with agg := a } :=
  Ext.of_same _ _ rfl rfl rfl rfl rfl ⟨[], rfl⟩ rfl rfl

theorem ext_generateProposal (s : Node) (tc : Option TC) : Ext s (s.generateProposal tc) := by
  unfold generateProposal
  exact Ext.of_same _ _ rfl rfl rfl rfl rfl ⟨[_], rfl⟩ rfl rfl

theorem ext_handleVote (c : Committee) (s : Node) (v : Vote) : Ext s (s.handleVote c v) := by
  unfold handleVote
  split
  · exact Ext.refl s
  · split
    · exact Ext.refl s
    · split
      · exact Ext.refl s
      · exact ext_setAgg _ _
      · simp only []
        split
        · exact Ext.trans (Ext.trans (ext_setAgg s _) (ext_processQC _ _)) (ext_generateProposal _ _)
        · exact Ext.trans (ext_setAgg s _) (ext_processQC _ _)

theorem ext_handleTimeout (c : Committee) (s : Node) (t : Timeout) : Ext s (s.handleTimeout c t) := by
  unfold handleTimeout
  split
  · exact Ext.refl s
  · split
    · exact Ext.refl s
    · simp only []
      have e0 := ext_processQC s t.highQC
      split
      · exact e0
      · exact Ext.trans e0 (ext_setAgg _ _)
      · rename_i agg tc _
        have e1 := Ext.trans (Ext.trans (Ext.trans e0 (ext_setAgg _ agg))
          (ext_advanceRound _ tc.round (.tc tc))) (ext_emit _ (.tc tc))
        split
        · exact Ext.trans e1 (ext_generateProposal _ _)
        · exact e1

theorem ext_handleTC (c : Committee) (s : Node) (tc : TC) : Ext s (s.handleTC c tc) := by
  unfold handleTC
  split
  · exact Ext.refl s
  · split
    · exact Ext.refl s
    · simp only []
      split
      · exact Ext.trans (ext_advanceRound s _ _) (ext_generateProposal _ _)
      · exact ext_advanceRound s _ _

theorem ext_localTimeout (c : Committee) (s : Node) : Ext s (s.localTimeout c) := by
  unfold localTimeout
  refine Ext.trans ?_ (ext_handleTimeout c _ _)
  refine Ext.trans (b := { s with lastVoted := max s.lastVoted s.round }) ?_ (ext_emit _ _)
  refine ⟨by simp, by simp, by simp; omega, by simp, rfl, ⟨[], by simp⟩, ⟨[], by simp⟩,
    fun d hd => by simpa using hd⟩

theorem ext_makeVote (s : Node) (b : Block) : Ext s (s.makeVote b).1 := by
  unfold makeVote
  split
  · exact ext_fail _ _
  · split
    · refine Ext.trans (b := { s with lastVoted := max s.lastVoted b.round }) ?_ (ext_emit _ _)
      refine ⟨by simp, by simp, by simp; omega, by simp, rfl, ⟨[], by simp⟩, ⟨[], by simp⟩,
        fun d hd => by simpa using hd⟩
    · exact Ext.refl s

theorem ext_foldl_commit (l : List Block) (s : Node) :
    Ext s (l.foldl (fun s x => s.emit (.commit x)) s) := by
  induction l generalizing s with
  | nil => exact Ext.refl s
  | cons a l ih => exact Ext.trans (ext_emit s _) (ih _)

theorem ext_commit (c : Committee) (s : Node) (b : Block) : Ext s (commit c s b).1 := by
  unfold commit
  split
  · exact Ext.refl s
  · rename_i hlt
    split
    · exact ext_fail _ _
    · exact Ext.refl s
    · refine Ext.trans (b := { s with lastCommitted := b.round }) ?_ (ext_foldl_commit _ _)
      refine ⟨by simp, by simp, by simp, by simp; omega, rfl, ⟨[], by simp⟩, ⟨[], by simp⟩,
        fun d hd => by simpa using hd⟩

theorem ext_park (c : Committee) (s : Node) (b : Block) : Ext s (park c s b) := by
  unfold park
  split
  · exact Ext.refl s
  · split
    · exact Ext.of_same _ _ rfl rfl rfl rfl rfl ⟨[], rfl⟩ rfl rfl
    · split
      · exact Ext.of_same _ _ rfl rfl rfl rfl rfl ⟨[_], rfl⟩ rfl rfl
      · exact Ext.of_same _ _ rfl rfl rfl rfl rfl ⟨[], rfl⟩ rfl rfl

theorem ext_getParent (c : Committee) (s : Node) (b : Block) : Ext s (getParent c s b).1 := by
  unfold getParent
  split
  · exact Ext.refl s
  · split
    · exact Ext.refl s
    · exact Ext.refl s
    · exact ext_park c s b

theorem ext_sendVote (c : Committee) (s : Node) (v : Vote) : Ext s (sendVote c s v) := by
  unfold sendVote
  split
  · exact Ext.trans (ext_emit s _) (ext_handleVote c _ v)
  · split
    · exact ext_emit s _
    · exact ext_fail _ _

theorem ext_voteStage (c : Committee) (s : Node) (ok : Bool) (b : Block) :
    Ext s (voteStage c s ok b) := by
  unfold voteStage
  split
  · exact Ext.refl s
  · split
    · exact Ext.refl s
    · have hm := ext_makeVote s b
      split
      · rename_i s' heq; rw [heq] at hm; exact hm
      · rename_i s' v heq; rw [heq] at hm; exact Ext.trans hm (ext_sendVote c s' v)

theorem ext_afterStore (s : Node) (b0 b1 b : Block) : Ext s (afterStore s b0 b1 b) := by
  unfold afterStore storeBlock
  exact ⟨by simp, by simp, by simp, by simp, rfl, ⟨[], by simp⟩, ⟨[(b.digest, b)], by simp⟩,
    fun d hd => by simpa using hd⟩

theorem ext_mempoolCleanup (s : Node) (r : Nat) : Ext s (s.mempoolCleanup r) := by
  unfold mempoolCleanup
  exact Ext.of_same _ _ rfl rfl rfl rfl rfl ⟨[_], rfl⟩ rfl rfl

theorem ext_beforeCommit (s : Node) (b0 b1 b : Block) : Ext s (beforeCommit s b0 b1 b) := by
  unfold beforeCommit
  exact Ext.trans (Ext.trans (ext_afterStore s b0 b1 b) (ext_mempoolCleanup _ _)) (ext_emit _ _)

theorem ext_processBlockTail (c : Committee) (s : Node) (b0 b1 b : Block) :
    Ext s (processBlockTail c s b0 b1 b) := by
  unfold processBlockTail
  split
  · exact Ext.trans (Ext.trans (ext_beforeCommit s b0 b1 b) (ext_commit c _ b0)) (ext_voteStage c _ _ b)
  · exact Ext.trans (ext_afterStore s b0 b1 b) (ext_voteStage c _ _ b)

theorem ext_processBlock (c : Committee) (s : Node) (b : Block) : Ext s (processBlock c s b) := by
  unfold processBlock
  have e1 := ext_getParent c s b
  split
  · exact e1
  · exact e1
  · rename_i b1 _
    have e2 := Ext.trans e1 (ext_getParent c (getParent c s b).1 b1)
    split
    · exact Ext.trans e2 (ext_fail _ _)
    · exact e2
    · exact Ext.trans e2 (ext_processBlockTail c _ _ _ _)

theorem ext_payloadVerify (s : Node) (b : Block) : Ext s (s.payloadVerify b).1 := by
  unfold payloadVerify
  simp only []
  split
  · exact Ext.refl s
  · split
    · exact ext_emit s _
    · exact Ext.of_same _ _ rfl rfl rfl rfl rfl ⟨[_], rfl⟩ rfl rfl

theorem ext_proposalTail (c : Committee) (s : Node) (b : Block) : Ext s (proposalTail c s b) := by
  unfold proposalTail
  have hp := ext_payloadVerify s b
  split
  · rename_i s' heq; rw [heq] at hp; exact hp
  · rename_i s' heq; rw [heq] at hp; exact Ext.trans hp (ext_processBlock c s' b)

theorem ext_advanceTC (s : Node) (tc : Option TC) : Ext s (s.advanceTC tc) := by
  unfold advanceTC
  split
  · exact ext_advanceRound _ _ _
  · exact Ext.refl s

theorem ext_handleProposal (c : Committee) (s : Node) (b : Block) : Ext s (s.handleProposal c b) := by
  unfold handleProposal
  split
  · exact Ext.refl s
  · split
    · exact Ext.refl s
    · exact Ext.trans (Ext.trans (ext_processQC s b.qc) (ext_advanceTC _ b.tc)) (ext_proposalTail c _ b)

theorem ext_proposerStep (s : Node) (order : List Nat) : Ext s (s.proposerStep order) := by
  unfold proposerStep
  split
  · exact Ext.refl s
  · exact Ext.of_same _ _ rfl rfl rfl rfl rfl ⟨[], rfl⟩ rfl rfl
  · split
    · exact Ext.refl s
    · exact Ext.of_same _ _ rfl rfl rfl rfl rfl ⟨[_], rfl⟩ rfl rfl

theorem ext_helperStep (c : Committee) (s : Node) (d : Digest) (o : Nat) : Ext s (s.helperStep c d o) := by
  unfold helperStep
  split
  · exact Ext.refl s
  · split
    · exact ext_emit s _
    · exact Ext.refl s
    · split
      · exact Ext.refl s
      · exact ext_fail _ _

theorem ext_storeBatch (s : Node) (d : Nat) : Ext s (s.storeBatch d) := by
  unfold storeBatch
  split
  · exact Ext.refl s
  · refine ⟨by simp, by simp, by simp, by simp, rfl, ⟨[], by simp⟩, ⟨[], by simp⟩, ?_⟩
    intro x hx; simp; right; exact hx

theorem ext_digestStep (s : Node) (d : Nat) : Ext s (s.digestStep d) := by
  unfold digestStep
  split
  · exact ext_storeBatch s d
  · exact Ext.trans (ext_storeBatch s d) (Ext.of_same _ _ rfl rfl rfl rfl rfl ⟨[], rfl⟩ rfl rfl)

theorem ext_step (c : Committee) (s : Node) (e : Event) : Ext s (step c s e) := by
  unfold step
  split
  · exact Ext.refl s
  · split
    · exact ext_handleProposal c s _
    · exact ext_handleVote c s _
    · exact ext_handleTimeout c s _
    · exact ext_handleTC c s _
    · exact ext_localTimeout c s
    · split
      · exact Ext.refl s
      · refine Ext.trans (b := { s with loopQ := _ }) ?_ (ext_processBlock c _ _)
        exact Ext.of_same _ _ rfl rfl rfl rfl rfl ⟨[], rfl⟩ rfl rfl
    · exact ext_proposerStep s _
    · exact ext_digestStep s _
    · exact ext_storeBatch s _
    · split
      · exact Ext.refl s
      · split
        · exact Ext.refl s
        · exact Ext.of_same _ _ rfl rfl rfl rfl rfl ⟨[], rfl⟩ rfl rfl
    · split
      · exact Ext.refl s
      · split
        · exact Ext.of_same _ _ rfl rfl rfl rfl rfl ⟨[], rfl⟩ rfl rfl
        · exact Ext.refl s
    · split
      · exact ext_emit s _
      · exact Ext.refl s
    · exact ext_helperStep c s _ _

theorem ext_run (c : Committee) (s : Node) (es : List Event) : Ext s (run c s es) := by
  unfold run
  induction es generalizing s with
  | nil => exact Ext.refl s
  | cons e es ih => exact Ext.trans (ext_step c s e) (ih _)

end HS
