import HotstuffModel.Proofs.Weight
/-
Abstract agreement theorem of 2-chain HotStuff (DESIGN C01, Layer A).

Blocks are an arbitrary type `β` with a `parent` function and a `round`; honest behaviour is
given by two relations (`voted`, `timedOut`) constrained by four LOCAL invariants; Byzantine nodes
are unconstrained.  Conclusion: any two committed blocks lie on one chain.
-/
namespace HS.Abs
open HS.Q

structure Ctx where
  nodes : List Nat
  stake : Nat → Nat
  bad : Nat → Bool
  q : Nat
  f : Nat
  nodes_nodup : nodes.Nodup
  bad_le : weight stake (nodes.filter bad) ≤ f
  quorum_gt : weight stake nodes + f < 2 * q

structure Hist (β : Type) where
  parent : β → β
  round : β → Nat
  /-- honest `h` signed a vote for block `b` (for `b`'s own round) -/
  voted : Nat → β → Prop
  /-- honest `h` signed a timeout for round `t` reporting high-QC round `hq` -/
  timedOut : Nat → Nat → Nat → Prop

variable {β : Type} (c : Ctx) (H : Hist β) (g : β)

/-- A quorum certificate for `b` exists: its honest signers really voted for `b`. -/
def Certified (b : β) : Prop :=
  ∃ S : List Nat, S.Nodup ∧ (∀ x ∈ S, x ∈ c.nodes) ∧ c.q ≤ weight c.stake S ∧
    ∀ s ∈ S, c.bad s = false → H.voted s b

/-- A timeout certificate for round `t` reporting the high-QC rounds `highs` exists. -/
def ValidTC (t : Nat) (highs : List Nat) : Prop :=
  ∃ E : List (Nat × Nat), (E.map Prod.fst).Nodup ∧ (∀ x ∈ E.map Prod.fst, x ∈ c.nodes) ∧
    c.q ≤ weight c.stake (E.map Prod.fst) ∧ highs = E.map Prod.snd ∧
    ∀ e ∈ E, c.bad e.1 = false → H.timedOut e.1 t e.2

structure LocalInv : Prop where
  genesis_round : H.round g = 0
  /-- I1: an honest node signs at most one vote per round -/
  one_vote : ∀ h b b', c.bad h = false → H.voted h b → H.voted h b' → H.round b = H.round b' → b = b'
  /-- I2: what an honest node votes for extends a lower-round parent that is genesis or certified,
  directly or via a TC none of whose reported high-QC rounds exceeds the parent's round -/
  justified : ∀ h b, c.bad h = false → H.voted h b →
    H.round (H.parent b) < H.round b ∧
    (H.parent b = g ∨ Certified c H (H.parent b)) ∧
    (H.round (H.parent b) + 1 = H.round b ∨
      ∃ highs, ValidTC c H (H.round b - 1) highs ∧ ∀ x ∈ highs, x ≤ H.round (H.parent b))
  /-- I3: a timeout for round `t` reports a QC at least as high as the parent of any block the node
  voted for in a round `≤ t` -/
  timeout_high : ∀ h b t hq, c.bad h = false → H.voted h b → H.timedOut h t hq →
    H.round b ≤ t → H.round (H.parent b) ≤ hq

def anc (H : Hist β) : Nat → β → β
  | 0, b => b
  | k + 1, b => anc H k (H.parent b)

/-- `a` is `b` or an ancestor of `b`. -/
def Extends (b a : β) : Prop := ∃ k : Nat, anc H k b = a

theorem anc_add (i j : Nat) (b : β) : anc H (i + j) b = anc H j (anc H i b) := by
  induction i generalizing b with
  | zero => simp [anc]
  | succ i ih =>
    have : i + 1 + j = (i + j) + 1 := by omega
    rw [this]; simp only [anc]; exact ih _

theorem Extends.refl (b : β) : Extends H b b := ⟨0, rfl⟩

theorem Extends.trans {a b d : β} (h1 : Extends H a b) (h2 : Extends H b d) : Extends H a d := by
  obtain ⟨i, hi⟩ := h1
  obtain ⟨j, hj⟩ := h2
  exact ⟨i + j, by rw [anc_add, hi, hj]⟩

theorem Extends.step {a b : β} (h : Extends H (H.parent a) b) : Extends H a b := by
  obtain ⟨k, hk⟩ := h
  exact ⟨k + 1, hk⟩

/-- Two ancestors of one block are comparable. -/
theorem ancestors_comparable {d x y : β} (hx : Extends H d x) (hy : Extends H d y) :
    Extends H x y ∨ Extends H y x := by
  obtain ⟨i, hi⟩ := hx
  obtain ⟨j, hj⟩ := hy
  rcases Nat.le_total i j with h | h
  · left
    refine ⟨j - i, ?_⟩
    have : j = i + (j - i) := by omega
    rw [← hi, ← anc_add, ← this, hj]
  · right
    refine ⟨i - j, ?_⟩
    have : i = j + (i - j) := by omega
    rw [← hj, ← anc_add, ← this, hi]

/-- Every quorum contains an honest node. -/
theorem quorum_has_honest (S : List Nat) (hn : S.Nodup) (hs : ∀ x ∈ S, x ∈ c.nodes)
    (hq : c.q ≤ weight c.stake S) : ∃ x, x ∈ S ∧ c.bad x = false := by
  obtain ⟨x, hx, _, hb⟩ := quorum_intersection c.stake c.nodes S S c.bad c.q c.f hn hn hs hs
    c.nodes_nodup hq hq c.bad_le c.quorum_gt
  exact ⟨x, hx, hb⟩

theorem certified_round_pos (L : LocalInv c H g) {b : β} (hb : Certified c H b) : 0 < H.round b := by
  obtain ⟨S, hn, hs, hq, hv⟩ := hb
  obtain ⟨x, hx, hbx⟩ := quorum_has_honest c S hn hs hq
  have := (L.justified x b hbx (hv x hx hbx)).1
  omega

/-- At most one block is certified per round. -/
theorem certified_unique (L : LocalInv c H g) {b b' : β}
    (hb : Certified c H b) (hb' : Certified c H b') (hr : H.round b = H.round b') : b = b' := by
  obtain ⟨S, hn, hs, hq, hv⟩ := hb
  obtain ⟨S', hn', hs', hq', hv'⟩ := hb'
  obtain ⟨x, hx, hx', hbx⟩ := quorum_intersection c.stake c.nodes S S' c.bad c.q c.f hn hn' hs hs'
    c.nodes_nodup hq hq' c.bad_le c.quorum_gt
  exact L.one_vote x b b' hbx (hv x hx hbx) (hv' x hx' hbx) hr

/-- `B` is the head of a certified 2-chain with consecutive rounds. -/
def DirectCommit (B : β) : Prop :=
  ∃ B1, H.parent B1 = B ∧ H.round B1 = H.round B + 1 ∧ Certified c H B1

/-- The heart of the safety argument: every certified block of a round `≥ round B` extends a
directly committed block `B`. -/
theorem certified_extends (L : LocalInv c H g) {B : β} (hB : Certified c H B)
    (hD : DirectCommit c H B) :
    ∀ r' B', Certified c H B' → H.round B' = r' → H.round B ≤ r' → Extends H B' B := by
  obtain ⟨B1, hp1, hr1, hc1⟩ := hD
  intro r'
  induction r' using Nat.strongRecOn with
  | _ r' ih =>
    intro B' hB' hr' hle
    by_cases h0 : H.round B' = H.round B
    · have := certified_unique c H g L hB' hB h0
      rw [this]; exact Extends.refl H B
    by_cases h1 : H.round B' = H.round B + 1
    · have : B' = B1 := certified_unique c H g L hB' hc1 (by rw [h1, hr1])
      rw [this]
      exact ⟨1, by simp [anc, hp1]⟩
    -- round B' > round B + 1
    have hgt : H.round B + 1 < H.round B' := by omega
    obtain ⟨S', hn', hs', hq', hv'⟩ := hB'
    obtain ⟨S1, hn1, hs1, hq1, hv1⟩ := hc1
    obtain ⟨x, hx', _, hbx⟩ := quorum_intersection c.stake c.nodes S' S1 c.bad c.q c.f hn' hn1 hs' hs1
      c.nodes_nodup hq' hq1 c.bad_le c.quorum_gt
    obtain ⟨hlt, hpar, hjust⟩ := L.justified x B' hbx (hv' x hx' hbx)
    -- the parent's round is at least round B
    have hPge : H.round B ≤ H.round (H.parent B') := by
      rcases hjust with hcons | ⟨highs, ⟨E, hEn, hEs, hEq, hEh, hEv⟩, hall⟩
      · omega
      · obtain ⟨y, hyE, hy1, hby⟩ := quorum_intersection c.stake c.nodes (E.map Prod.fst) S1 c.bad c.q c.f
          hEn hn1 hEs hs1 c.nodes_nodup hEq hq1 c.bad_le c.quorum_gt
        obtain ⟨e, he, hey⟩ := List.mem_map.mp hyE
        have hto := hEv e he (by rw [hey]; exact hby)
        rw [hey] at hto
        have hvy := hv1 y hy1 hby
        have := L.timeout_high y B1 (H.round B' - 1) e.2 hby hvy hto (by omega)
        rw [hp1] at this
        have hmem : e.2 ∈ highs := by rw [hEh]; exact List.mem_map.mpr ⟨e, he, rfl⟩
        have := hall e.2 hmem
        omega
    have hBpos := certified_round_pos c H g L hB
    have hPcert : Certified c H (H.parent B') := by
      rcases hpar with hg | hc
      · rw [hg, L.genesis_round] at hPge; omega
      · exact hc
    have := ih (H.round (H.parent B')) (by omega) (H.parent B') hPcert rfl hPge
    exact Extends.step H this

/-- `x` is committed: it is the head of a certified consecutive 2-chain, or an ancestor of one. -/
def Committed (x : β) : Prop :=
  ∃ D, Certified c H D ∧ DirectCommit c H D ∧ Extends H D x

/-- AGREEMENT: any two committed blocks lie on a single chain. -/
theorem agreement (L : LocalInv c H g) {x y : β}
    (hx : Committed c H x) (hy : Committed c H y) : Extends H x y ∨ Extends H y x := by
  obtain ⟨Dx, hcx, hdx, hex⟩ := hx
  obtain ⟨Dy, hcy, hdy, hey⟩ := hy
  rcases Nat.le_total (H.round Dx) (H.round Dy) with h | h
  · have hDD := certified_extends c H g L hcx hdx (H.round Dy) Dy hcy rfl h
    have := ancestors_comparable H (Extends.trans H hDD hex) hey
    exact this
  · have hDD := certified_extends c H g L hcy hdy (H.round Dx) Dx hcx rfl h
    have := ancestors_comparable H hex (Extends.trans H hDD hey)
    exact this

end HS.Abs
