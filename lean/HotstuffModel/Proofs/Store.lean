import HotstuffModel.Model.Store
/-
Helper lemmas for C16 (Store).
-/
namespace HS.Store
variable {κ ν : Type} [DecidableEq κ]

theorem lookup_filter_ne (kv : List (κ × ν)) (k k' : κ) (h : k' ≠ k) :
    (kv.filter (fun p => !(p.1 == k))).lookup k' = kv.lookup k' := by
  induction kv with
  | nil => rfl
  | cons a l ih =>
    obtain ⟨a1, a2⟩ := a
    by_cases ha : a1 = k
    · subst ha
      have : (k' == a1) = false := by simpa using h
      simp [List.filter_cons, List.lookup_cons, this, ih]
    · have : (a1 == k) = false := by simpa using ha
      simp only [List.filter_cons, this, Bool.not_false, if_true, List.lookup_cons, ih]

theorem lookup_put (kv : List (κ × ν)) (k k' : κ) (v : ν) :
    (put kv k v).lookup k' = if k' = k then some v else kv.lookup k' := by
  unfold put
  by_cases h : k' = k
  · subst h; simp [List.lookup_cons]
  · have : (k' == k) = false := by simpa using h
    simp [List.lookup_cons, this, h, lookup_filter_ne kv k k' h]

theorem get_step (s : State κ ν) (c : Cmd κ ν) (k : κ) :
    get (step s c).1 k = upd k (get s k) c := by
  cases c with
  | write k' v =>
    simp only [step, get, upd, lookup_put]
    by_cases h : k = k' <;> simp [h, eq_comm]
  | read k' => rfl
  | notifyRead k' w =>
    simp only [step, upd]
    cases hg : get s k' <;> simp [get]
  | reopen => rfl

theorem get_run (s : State κ ν) (cs : List (Cmd κ ν)) (k : κ) :
    get (run s cs) k = lastWriteFrom (get s k) k cs := by
  induction cs generalizing s with
  | nil => rfl
  | cons c cs ih => simp only [run, lastWriteFrom, ih, get_step]

theorem run_append (s : State κ ν) (a b : List (Cmd κ ν)) :
    run s (a ++ b) = run (run s a) b := by
  induction a generalizing s with
  | nil => rfl
  | cons c cs ih => simp [run, ih]

theorem trace_append (s : State κ ν) (a b : List (Cmd κ ν)) :
    trace s (a ++ b) = trace s a ++ trace (run s a) b := by
  induction a generalizing s with
  | nil => rfl
  | cons c cs ih => simp [run, trace, ih]

theorem lastWriteFrom_append (acc : Option ν) (k : κ) (a b : List (Cmd κ ν)) :
    lastWriteFrom acc k (a ++ b) = lastWriteFrom (lastWriteFrom acc k a) k b := by
  induction a generalizing acc with
  | nil => rfl
  | cons c cs ih => simp [lastWriteFrom, ih]

theorem lastWriteFrom_no_write (acc : Option ν) (k : κ) (cs : List (Cmd κ ν))
    (h : ∀ c ∈ cs, Cmd.writes k c = false) : lastWriteFrom acc k cs = acc := by
  induction cs generalizing acc with
  | nil => rfl
  | cons c cs ih =>
    have hc := h c (by simp)
    have : upd k acc c = acc := by
      cases c <;> simp_all [upd, Cmd.writes]
    simp only [lastWriteFrom, this]
    exact ih acc (fun c hc => h c (by simp [hc]))


/-! ### The invariant `obligations k ≠ [] → kv k = none` -/

/-- Every pending waiter waits for a key that has no value. -/
def Inv (s : State κ ν) : Prop := ∀ p ∈ s.obl, get s p.1 = none

theorem inv_init : Inv (init : State κ ν) := by
  intro p hp; cases hp

theorem inv_step (s : State κ ν) (c : Cmd κ ν) (h : Inv s) : Inv (step s c).1 := by
  intro p hp
  rw [get_step]
  cases c with
  | write k v =>
    simp only [step, List.mem_filter] at hp
    have hne : p.1 ≠ k := by simpa using hp.2
    simp only [upd]
    rw [if_neg (fun e => hne e.symm)]
    exact h p hp.1
  | read k => exact h p hp
  | notifyRead k w =>
    simp only [upd]
    simp only [step] at hp
    cases hg : get s k with
    | none =>
      rw [hg] at hp
      simp only [List.mem_append, List.mem_singleton] at hp
      rcases hp with hp | hp
      · exact h p hp
      · subst hp; exact hg
    | some v => rw [hg] at hp; exact h p hp
  | reopen => simp [step] at hp

theorem inv_run (s : State κ ν) (cs : List (Cmd κ ν)) (h : Inv s) : Inv (run s cs) := by
  induction cs generalizing s with
  | nil => exact h
  | cons c cs ih => exact ih _ (inv_step s c h)

theorem inv_obligations (s : State κ ν) (h : Inv s) (k : κ) (hk : obligations s k ≠ []) :
    get s k = none := by
  unfold obligations at hk
  cases hf : s.obl.filter (fun p => p.1 == k) with
  | nil => simp [hf] at hk
  | cons p l =>
    have hp : p ∈ s.obl.filter (fun p => p.1 == k) := by simp [hf]
    rw [List.mem_filter] at hp
    have : p.1 = k := by simpa using hp.2
    rw [← this]; exact h p hp.1

/-! ### Following one waiter through a run -/

/-- Waiter `w` is parked exactly once, under key `k`. -/
def Pend (s : State κ ν) (k : κ) (w : Nat) : Prop :=
  s.obl.filter (fun p => p.2 == w) = [(k, w)]

/-- Waiter `w` is not parked. -/
def Absent (s : State κ ν) (w : Nat) : Prop := ∀ p ∈ s.obl, p.2 ≠ w

theorem absent_init (w : Nat) : Absent (init : State κ ν) w := by
  intro p hp; cases hp

theorem absent_filter_nil (s : State κ ν) (w : Nat) (h : Absent s w) :
    s.obl.filter (fun p => p.2 == w) = [] := by
  rw [List.filter_eq_nil_iff]
  intro p hp; simpa using h p hp

theorem got_map_notified (w : Nat) (v : ν) (l : List Nat) :
    got w (l.map (fun w' => Reply.notified w' v)) = (l.filter (fun w' => w' == w)).map (fun _ => v) := by
  induction l with
  | nil => rfl
  | cons a l ih =>
    unfold got at *
    by_cases h : a = w
    · simp [List.filterMap_cons, List.filter_cons, h, ih]
    · simp [List.filterMap_cons, List.filter_cons, h, ih]

/-- The waiters of `k'` with id `w`, in terms of the flat list. -/
theorem obligations_filter (s : State κ ν) (k' : κ) (w : Nat) :
    (obligations s k').filter (fun w' => w' == w)
      = ((s.obl.filter (fun p => p.2 == w)).filter (fun p => p.1 == k')).map Prod.snd := by
  unfold obligations
  rw [List.filter_map, List.filter_filter, List.filter_filter]
  congr 1
  apply List.filter_congr
  intro p _
  simp [Bool.and_comm]

theorem got_write (s : State κ ν) (k' : κ) (v : ν) (w : Nat) :
    got w (step s (.write k' v)).2
      = (((s.obl.filter (fun p => p.2 == w)).filter (fun p => p.1 == k')).map Prod.snd).map (fun _ => v) := by
  simp only [step, got_map_notified, obligations_filter]

theorem absent_step (s : State κ ν) (c : Cmd κ ν) (w : Nat) (h : Absent s w)
    (hw : Cmd.usesWaiter w c = false) :
    got w (step s c).2 = [] ∧ Absent (step s c).1 w := by
  cases c with
  | write k v =>
    refine ⟨?_, ?_⟩
    · rw [got_write, absent_filter_nil s w h]; rfl
    · intro p hp
      simp only [step, List.mem_filter] at hp
      exact h p hp.1
  | read k => exact ⟨rfl, h⟩
  | notifyRead k w' =>
    have hne : w' ≠ w := by simpa [Cmd.usesWaiter] using hw
    simp only [step]
    cases hg : get s k with
    | none =>
      refine ⟨rfl, ?_⟩
      intro p hp
      simp only [List.mem_append, List.mem_singleton] at hp
      rcases hp with hp | hp
      · exact h p hp
      · subst hp; exact hne
    | some v =>
      refine ⟨?_, h⟩
      simp [got, hne]
  | reopen =>
    refine ⟨rfl, ?_⟩
    intro p hp; simp [step] at hp

theorem pend_step (s : State κ ν) (c : Cmd κ ν) (k : κ) (w : Nat) (h : Pend s k w)
    (h1 : Cmd.writes k c = false) (h2 : Cmd.isReopen c = false) (h3 : Cmd.usesWaiter w c = false) :
    got w (step s c).2 = [] ∧ Pend (step s c).1 k w := by
  unfold Pend at *
  cases c with
  | write k' v =>
    have hne : k' ≠ k := by simpa [Cmd.writes] using h1
    have hne' : (k == k') = false := by simpa using fun e => hne e.symm
    refine ⟨?_, ?_⟩
    · rw [got_write, h]; simp [List.filter_cons, hne']
    · simp only [step]
      rw [List.filter_filter]
      have : (s.obl.filter (fun p => p.2 == w && !(p.1 == k')))
          = (s.obl.filter (fun p => p.2 == w)).filter (fun p => !(p.1 == k')) := by
        rw [List.filter_filter]; apply List.filter_congr; intro p _; simp [Bool.and_comm]
      rw [this, h]; simp [List.filter_cons, hne']
  | read k' => exact ⟨rfl, h⟩
  | notifyRead k' w' =>
    have hne : w' ≠ w := by simpa [Cmd.usesWaiter] using h3
    have hne' : (w' == w) = false := by simpa using hne
    simp only [step]
    cases hg : get s k' with
    | none =>
      refine ⟨rfl, ?_⟩
      simp [List.filter_append, List.filter_cons, hne', h]
    | some v =>
      refine ⟨?_, h⟩
      simp [got, hne]
  | reopen => simp [Cmd.isReopen] at h2

theorem pend_write (s : State κ ν) (k : κ) (w : Nat) (v : ν) (h : Pend s k w) :
    got w (step s (.write k v)).2 = [v] ∧ Absent (step s (.write k v)).1 w := by
  unfold Pend at h
  refine ⟨?_, ?_⟩
  · rw [got_write, h]; simp [List.filter_cons]
  · intro p hp hw
    simp only [step, List.mem_filter] at hp
    have hm : p ∈ s.obl.filter (fun p => p.2 == w) := by
      rw [List.mem_filter]; exact ⟨hp.1, by simpa using hw⟩
    rw [h] at hm
    simp only [List.mem_singleton] at hm
    subst hm
    simp at hp

theorem absent_notify (s : State κ ν) (k : κ) (w : Nat) (h : Absent s w) :
    (∀ v, get s k = some v →
        got w (step s (.notifyRead k w)).2 = [v] ∧ Absent (step s (.notifyRead k w)).1 w) ∧
    (get s k = none →
        got w (step s (.notifyRead k w)).2 = [] ∧ Pend (step s (.notifyRead k w)).1 k w) := by
  refine ⟨?_, ?_⟩
  · intro v hv
    simp only [step, hv]
    exact ⟨by simp [got], h⟩
  · intro hn
    simp only [step, hn]
    refine ⟨rfl, ?_⟩
    unfold Pend
    simp [List.filter_append, List.filter_cons, absent_filter_nil s w h]

/-- Nobody is woken for `w` while it is absent and not (re)issued. -/
theorem absent_trace (s : State κ ν) (cs : List (Cmd κ ν)) (w : Nat) (h : Absent s w)
    (hw : ∀ c ∈ cs, Cmd.usesWaiter w c = false) :
    (trace s cs).map (got w) = List.replicate cs.length [] ∧ Absent (run s cs) w := by
  induction cs generalizing s with
  | nil => exact ⟨rfl, h⟩
  | cons c cs ih =>
    have hc := absent_step s c w h (hw c (by simp))
    have := ih (step s c).1 hc.2 (fun c' hc' => hw c' (by simp [hc']))
    simp only [trace, run, List.map_cons, List.length_cons, List.replicate_succ, hc.1, this.1]
    exact ⟨trivial, this.2⟩

/-- A parked waiter stays parked, unanswered, while no write to its key and no reopen happens. -/
theorem pend_trace (s : State κ ν) (cs : List (Cmd κ ν)) (k : κ) (w : Nat) (h : Pend s k w)
    (hc : ∀ c ∈ cs, Cmd.writes k c = false ∧ Cmd.isReopen c = false ∧ Cmd.usesWaiter w c = false) :
    (trace s cs).map (got w) = List.replicate cs.length [] ∧ Pend (run s cs) k w := by
  induction cs generalizing s with
  | nil => exact ⟨rfl, h⟩
  | cons c cs ih =>
    obtain ⟨h1, h2, h3⟩ := hc c (by simp)
    have hs := pend_step s c k w h h1 h2 h3
    have := ih (step s c).1 hs.2 (fun c' hc' => hc c' (by simp [hc']))
    simp only [trace, run, List.map_cons, List.length_cons, List.replicate_succ, hs.1, this.1]
    exact ⟨trivial, this.2⟩

end HS.Store
