import HotstuffModel.Proofs.NodeInv3
import HotstuffModel.Proofs.Leader
/-
Layer 3: the block store is keyed by digest and closed under parents; no micro-step panics.
-/
namespace HS
open Node

structure Inv4 (s : Node) : Prop where
  keyed : ∀ d b, (d, b) ∈ s.store → b.digest = d
  closed : ∀ d b, (d, b) ∈ s.store → b.qc.isGenesis = true ∨ (s.store.lookup b.parent).isSome = true
  noPanic : s.panic = none

theorem quorum_pos (c : Committee) : 1 ≤ c.quorum := by
  unfold Committee.quorum Gen.qtConsensus; omega

/-- An accepted TC has at least one entry, so `max` of its high-QC rounds exists. -/
theorem tc_ok_nonempty (c : Committee) (t : TC) (h : t.verify c = .ok ()) :
    maxRounds t.highQcRounds ≠ none := by
  obtain ⟨_, _, h3, _⟩ := (TC.verify_ok_iff c t).mp h
  have hq := quorum_pos c
  cases hv : t.votes with
  | nil =>
    simp [TC.signers, hv, Committee.weight] at h3
    omega
  | cons a l => simp [TC.highQcRounds, hv, maxRounds]

theorem safetyRule2_some (c : Committee) (b : Block) (h : Checked c b) : safetyRule2 b ≠ none := by
  unfold safetyRule2
  split
  · simp
  · rename_i tc htc
    have := tc_ok_nonempty c tc (h.tc tc htc)
    split
    · rename_i hm; exact absurd hm this
    · simp

theorem inv4_emit (s : Node) (o : Out) (h : Inv4 s) : Inv4 (s.emit o) := ⟨h.keyed, h.closed, h.noPanic⟩

theorem lookup_isSome_cons {α β : Type} [BEq α] (l : List (α × β)) (k : α) (e : α × β)
    (h : (l.lookup k).isSome = true) : ((e :: l).lookup k).isSome = true := by
  obtain ⟨a, b⟩ := e
  rw [List.lookup_cons]
  split
  · rfl
  · exact h

/-- `get_parent_block`, when it finds the parent, leaves the state alone and returns genesis or the
stored entry under the parent digest. -/
theorem getParent_found_spec (c : Committee) (s : Node) (b p : Block)
    (h : (getParent c s b).2 = .found p) :
    (getParent c s b).1 = s ∧
    ((b.qc.isGenesis = true ∧ p = Block.genesis) ∨ s.store.lookup b.parent = some p) := by
  by_cases hg : b.qc.isGenesis = true
  · simp only [getParent, hg, if_true] at h ⊢
    simp at h
    refine ⟨?_, Or.inl ⟨?_, h.symm⟩⟩ <;> first | rfl | trivial
  · simp only [getParent, hg] at h ⊢
    cases hp : s.readBlock b.parent with
    | found p' =>
      simp only [hp] at h ⊢
      simp at h; subst h
      refine ⟨by simp, Or.inr ?_⟩
      unfold readBlock at hp
      split at hp
      · rename_i b' hb'; simp at hp; subst hp; exact hb'
      · split at hp <;> (try split at hp) <;> simp at hp
    | missing => simp [hp] at h
    | corrupt => simp [hp] at h

/-- A block whose parent is in the store (or whose QC is genesis) is never handed to the synchronizer. -/
theorem getParent_of_closed (c : Committee) (s : Node) (b : Block)
    (h : b.qc.isGenesis = true ∨ (s.store.lookup b.parent).isSome = true) :
    ∃ p, getParent c s b = (s, .found p) := by
  unfold getParent
  rcases h with h | h
  · simp [h]
  · by_cases hg : b.qc.isGenesis = true
    · simp [hg]
    · simp only [hg]
      obtain ⟨p, hp⟩ := Option.isSome_iff_exists.mp h
      have : s.readBlock b.parent = .found p := by unfold readBlock; simp [hp]
      simp [this]

theorem genesis_isGenesis : Block.genesis.qc.isGenesis = true := by decide

/-- The ancestor walk of `commit` never reaches the `expect`: every block it visits is genesis or a
stored block, and stored blocks have stored parents. -/
theorem commitWalk_no_panic (c : Committee) (s : Node) (h : Inv4 s) :
    ∀ (fuel : Nat) (cur : Block) (acc : List Block),
      (cur = Block.genesis ∨ ∃ d, (d, cur) ∈ s.store) → commitWalk c s fuel cur acc ≠ .panic := by
  intro fuel
  induction fuel with
  | zero => intro cur acc _; simp [commitWalk]
  | succ n ih =>
    intro cur acc hcur
    unfold commitWalk
    split
    · have hcl : cur.qc.isGenesis = true ∨ (s.store.lookup cur.parent).isSome = true := by
        rcases hcur with rfl | ⟨d, hd⟩
        · left; exact genesis_isGenesis
        · exact h.closed d cur hd
      obtain ⟨p, hp⟩ := getParent_of_closed c s cur hcl
      rw [hp]
      simp only
      split
      · simp
      · apply ih
        have hf : (getParent c s cur).2 = .found p := by rw [hp]
        rcases (getParent_found_spec c s cur p hf).2 with ⟨_, rfl⟩ | hl
        · left; rfl
        · right; exact ⟨_, mem_of_lookup hl⟩
    · simp

theorem inv4_foldl_commit (l : List Block) (s : Node) (h : Inv4 s) :
    Inv4 (l.foldl (fun s x => s.emit (.commit x)) s) := by
  induction l generalizing s with
  | nil => exact h
  | cons a l ih => exact ih _ (inv4_emit s _ h)

theorem inv4_commit (c : Committee) (s : Node) (b : Block) (h : Inv4 s)
    (hb : b = Block.genesis ∨ ∃ d, (d, b) ∈ s.store) : Inv4 (commit c s b).1 := by
  unfold commit
  split
  · exact h
  · split
    · rename_i hw
      exact absurd hw (commitWalk_no_panic c s h _ b [] hb)
    · exact h
    · apply inv4_foldl_commit
      exact ⟨h.keyed, h.closed, h.noPanic⟩

theorem inv4_makeVote (c : Committee) (s : Node) (b : Block) (h : Inv4 s) (hb : Checked c b) :
    Inv4 (s.makeVote b).1 := by
  unfold makeVote
  split
  · rename_i hn; exact absurd hn (safetyRule2_some c b hb)
  · split
    · exact ⟨h.keyed, h.closed, h.noPanic⟩
    · exact h

theorem inv4_setAgg (s : Node) (a : Aggregator) (h : Inv4 s) : Inv4 { s with agg := a } :=
  ⟨h.keyed, h.closed, h.noPanic⟩

theorem inv4_advanceRound (s : Node) (r : Nat) (ev : Evidence) (h : Inv4 s) :
    Inv4 (s.advanceRound r ev) := by
  unfold advanceRound; split
  · exact h
  · exact ⟨h.keyed, h.closed, h.noPanic⟩

theorem inv4_processQC (s : Node) (qc : QC) (h : Inv4 s) : Inv4 (s.processQC qc) := by
  unfold processQC updateHighQC
  split
  · have := inv4_advanceRound s qc.round (.qc qc) h
    exact ⟨this.keyed, this.closed, this.noPanic⟩
  · exact inv4_advanceRound s qc.round (.qc qc) h

theorem inv4_generateProposal (s : Node) (tc : Option TC) (h : Inv4 s) : Inv4 (s.generateProposal tc) :=
  ⟨h.keyed, h.closed, h.noPanic⟩

theorem inv4_handleVote (c : Committee) (s : Node) (v : Vote) (h : Inv4 s) : Inv4 (s.handleVote c v) := by
  unfold handleVote
  split
  · exact h
  · split
    · exact h
    · split
      · exact h
      · exact inv4_setAgg _ _ h
      · simp only []
        split
        · exact inv4_generateProposal _ _ (inv4_processQC _ _ (inv4_setAgg s _ h))
        · exact inv4_processQC _ _ (inv4_setAgg s _ h)

theorem inv4_handleTimeout (c : Committee) (s : Node) (t : Timeout) (h : Inv4 s) :
    Inv4 (s.handleTimeout c t) := by
  unfold handleTimeout
  split
  · exact h
  · split
    · exact h
    · simp only []
      have h0 := inv4_processQC s t.highQC h
      split
      · exact h0
      · exact inv4_setAgg _ _ h0
      · rename_i agg tc _
        have h1 := inv4_emit _ (.tc tc) (inv4_advanceRound _ tc.round (.tc tc) (inv4_setAgg _ agg h0))
        split
        · exact inv4_generateProposal _ _ h1
        · exact h1

theorem inv4_handleTC (c : Committee) (s : Node) (tc : TC) (h : Inv4 s) : Inv4 (s.handleTC c tc) := by
  unfold handleTC
  split
  · exact h
  · split
    · exact h
    · simp only []
      split
      · exact inv4_generateProposal _ _ (inv4_advanceRound s _ _ h)
      · exact inv4_advanceRound s _ _ h

theorem inv4_localTimeout (c : Committee) (s : Node) (h : Inv4 s) : Inv4 (s.localTimeout c) := by
  unfold localTimeout
  apply inv4_handleTimeout
  exact ⟨h.keyed, h.closed, h.noPanic⟩

theorem inv4_park (c : Committee) (s : Node) (b : Block) (h : Inv4 s) (hm : b.author ∈ c.keys) :
    Inv4 (park c s b) := by
  unfold park
  split
  · exact h
  · split
    · exact ⟨h.keyed, h.closed, h.noPanic⟩
    · split
      · exact ⟨h.keyed, h.closed, h.noPanic⟩
      · rename_i hc
        exact absurd (by simpa using hm) hc

theorem inv4_getParent (c : Committee) (s : Node) (b : Block) (h : Inv4 s) (hm : b.author ∈ c.keys) :
    Inv4 (getParent c s b).1 := by
  unfold getParent
  split
  · exact h
  · split
    · exact h
    · exact h
    · exact inv4_park c s b h hm

theorem inv4_sendVote (c : Committee) (hc : c.keys ≠ []) (s : Node) (v : Vote) (h : Inv4 s) :
    Inv4 (sendVote c s v) := by
  unfold sendVote
  split
  · exact inv4_handleVote c _ v (inv4_emit s _ h)
  · split
    · exact inv4_emit s _ h
    · rename_i hn
      exact absurd (by simpa using leader_mem c hc (s.round + 1)) hn

theorem inv4_voteStage (c : Committee) (hc : c.keys ≠ []) (s : Node) (ok : Bool) (b : Block)
    (h : Inv4 s) (hb : Checked c b) : Inv4 (voteStage c s ok b) := by
  unfold voteStage
  split
  · exact h
  · split
    · exact h
    · have hm := inv4_makeVote c s b h hb
      split
      · rename_i s' heq; rw [heq] at hm; exact hm
      · rename_i s' v heq; rw [heq] at hm; exact inv4_sendVote c hc s' v hm

/-- Storing `b` after its parent was found keeps the store keyed and closed. -/
theorem inv4_afterStore (s : Node) (b0 b1 b : Block) (h : Inv4 s)
    (hp : b.qc.isGenesis = true ∨ (s.store.lookup b.parent).isSome = true) :
    Inv4 (afterStore s b0 b1 b) := by
  unfold afterStore storeBlock
  refine ⟨?_, ?_, h.noPanic⟩
  · intro d x hx
    simp at hx
    rcases hx with ⟨rfl, rfl⟩ | hx
    · rfl
    · exact h.keyed d x hx
  · intro d x hx
    simp at hx
    rcases hx with ⟨rfl, rfl⟩ | hx
    · rcases hp with hp | hp
      · left; exact hp
      · right; exact lookup_isSome_cons _ _ _ hp
    · rcases h.closed d x hx with hg | hl
      · left; exact hg
      · right; exact lookup_isSome_cons _ _ _ hl

theorem inv4_mempoolCleanup (s : Node) (r : Nat) (h : Inv4 s) : Inv4 (s.mempoolCleanup r) :=
  ⟨h.keyed, h.closed, h.noPanic⟩

theorem afterStore_store (s : Node) (b0 b1 b : Block) :
    (afterStore s b0 b1 b).store = (b.digest, b) :: s.store := rfl

theorem inv4_processBlockTail (c : Committee) (hc : c.keys ≠ []) (s : Node) (b0 b1 b : Block)
    (h : Inv4 s) (hb : Checked c b)
    (hp : b.qc.isGenesis = true ∨ (s.store.lookup b.parent).isSome = true)
    (hb0 : b0 = Block.genesis ∨ ∃ d, (d, b0) ∈ s.store) :
    Inv4 (processBlockTail c s b0 b1 b) := by
  unfold processBlockTail
  have ha := inv4_afterStore s b0 b1 b h hp
  split
  · apply inv4_voteStage c hc _ _ b _ hb
    apply inv4_commit
    · exact inv4_emit _ _ (inv4_mempoolCleanup _ _ ha)
    · rcases hb0 with rfl | ⟨d, hd⟩
      · left; rfl
      · right; exact ⟨d, by simp [beforeCommit, mempoolCleanup, afterStore_store]; right; exact hd⟩
  · exact inv4_voteStage c hc _ _ b ha hb

theorem inv4_processBlock (c : Committee) (hc : c.keys ≠ []) (s : Node) (b : Block)
    (h3 : Inv3 c s) (h : Inv4 s) (hb : Checked c b) : Inv4 (processBlock c s b) := by
  unfold processBlock
  have h1 := inv4_getParent c s b h hb.member
  split
  · exact h1
  · exact h1
  · rename_i b1 hb1
    obtain ⟨hs1, hspec1⟩ := getParent_found_spec c s b b1 hb1
    rw [hs1]
    -- b1 is genesis or stored, hence its own parent is found without parking
    have hcl1 : b1.qc.isGenesis = true ∨ (s.store.lookup b1.parent).isSome = true := by
      rcases hspec1 with ⟨_, rfl⟩ | hl
      · left; exact genesis_isGenesis
      · exact h.closed _ b1 (mem_of_lookup hl)
    obtain ⟨b0, hb0⟩ := getParent_of_closed c s b1 hcl1
    rw [hb0]
    simp only
    have hf0 : (getParent c s b1).2 = .found b0 := by rw [hb0]
    apply inv4_processBlockTail c hc s b0 b1 b h hb
    · rcases hspec1 with ⟨hg, _⟩ | hl
      · left; exact hg
      · right; rw [hl]; rfl
    · rcases (getParent_found_spec c s b1 b0 hf0).2 with ⟨_, rfl⟩ | hl
      · left; rfl
      · right; exact ⟨_, mem_of_lookup hl⟩

theorem inv4_payloadVerify (s : Node) (b : Block) (h : Inv4 s) : Inv4 (s.payloadVerify b).1 := by
  unfold payloadVerify
  simp only []
  split
  · exact h
  · split
    · exact inv4_emit _ _ h
    · exact ⟨h.keyed, h.closed, h.noPanic⟩

theorem inv4_proposalTail (c : Committee) (hc : c.keys ≠ []) (s : Node) (b : Block)
    (h3 : Inv3 c s) (h : Inv4 s) (hb : Checked c b) : Inv4 (proposalTail c s b) := by
  unfold proposalTail
  have hp := inv4_payloadVerify s b h
  have hp3 := inv3_payloadVerify c s b h3 hb
  split
  · rename_i s' heq; rw [heq] at hp; exact hp
  · rename_i s' heq; rw [heq] at hp hp3; exact inv4_processBlock c hc s' b hp3 hp hb

theorem inv4_advanceTC (s : Node) (tc : Option TC) (h : Inv4 s) : Inv4 (s.advanceTC tc) := by
  unfold advanceTC; split
  · exact inv4_advanceRound _ _ _ h
  · exact h

theorem inv4_handleProposal (c : Committee) (hc : c.keys ≠ []) (s : Node) (b : Block)
    (h3 : Inv3 c s) (h : Inv4 s) : Inv4 (s.handleProposal c b) := by
  unfold handleProposal
  split
  · exact h
  · rename_i hl
    split
    · exact h
    · rename_i u hv
      cases u
      obtain ⟨v1, v2, v3, v4⟩ := (Block.verify_ok_iff c b).mp hv
      have hb : Checked c b := ⟨by simpa using hl, stake_ne_zero_mem c _ v1, v2, v3, v4⟩
      exact inv4_proposalTail c hc _ b
        (inv3_advanceTC c _ b.tc (inv3_processQC c s b.qc h3 v3) v4)
        (inv4_advanceTC _ _ (inv4_processQC s b.qc h)) hb

theorem inv4_proposerStep (s : Node) (order : List Nat) (h : Inv4 s) : Inv4 (s.proposerStep order) := by
  unfold proposerStep
  split
  · exact h
  · exact ⟨h.keyed, h.closed, h.noPanic⟩
  · split
    · exact h
    · exact ⟨h.keyed, h.closed, h.noPanic⟩

theorem inv4_helperStep (c : Committee) (hsw : Gen.helperSkipsNonBlock = true) (s : Node) (d : Digest)
    (o : Nat) (h : Inv4 s) : Inv4 (s.helperStep c d o) := by
  unfold helperStep
  split
  · exact h
  · split
    · exact inv4_emit _ _ h
    · exact h
    · first
        | exact h
        | (split
           · exact h
           · rename_i hn; exact absurd hsw hn)

theorem inv4_storeBatch (s : Node) (d : Nat) (h : Inv4 s) : Inv4 (s.storeBatch d) := by
  unfold storeBatch
  split
  · exact h
  · exact ⟨h.keyed, h.closed, h.noPanic⟩

theorem inv4_digestStep (s : Node) (d : Nat) (h : Inv4 s) : Inv4 (s.digestStep d) := by
  unfold digestStep
  have h1 := inv4_storeBatch s d h
  split
  · exact h1
  · exact ⟨h1.keyed, h1.closed, h1.noPanic⟩

theorem inv4_step (c : Committee) (hc : c.keys ≠ []) (hsw : Gen.helperSkipsNonBlock = true)
    (s : Node) (e : Event) (h3 : Inv3 c s) (h : Inv4 s) : Inv4 (step c s e) := by
  unfold step
  split
  · exact h
  · split
    · exact inv4_handleProposal c hc s _ h3 h
    · exact inv4_handleVote c s _ h
    · exact inv4_handleTimeout c s _ h
    · exact inv4_handleTC c s _ h
    · exact inv4_localTimeout c s h
    · split
      · exact h
      · rename_i b rest hq
        have hb := h3.blocks b (by simp [Node.pendingBlocks, hq])
        refine inv4_processBlock c hc _ b ?_ ⟨h.keyed, h.closed, h.noPanic⟩ hb
        constructor <;> simp [Node.pendingBlocks] <;> grind [Inv3, Node.pendingBlocks]
    · exact inv4_proposerStep s _ h
    · exact inv4_digestStep s _ h
    · exact inv4_storeBatch s _ h
    · split
      · exact h
      · split
        · exact h
        · exact ⟨h.keyed, h.closed, h.noPanic⟩
    · split
      · exact h
      · split
        · exact ⟨h.keyed, h.closed, h.noPanic⟩
        · exact h
    · split
      · exact inv4_emit _ _ h
      · exact h
    · exact inv4_helperStep c hsw s _ _ h

theorem inv4_init (c : Committee) (name : Nat) : Inv4 (Node.init c name) := by
  unfold Node.init
  simp only []
  split <;> exact ⟨by simp, by simp, rfl⟩

theorem inv34_run (c : Committee) (hc : c.keys ≠ []) (hsw : Gen.helperSkipsNonBlock = true)
    (s : Node) (es : List Event) (h3 : Inv3 c s) (h : Inv4 s) :
    Inv3 c (run c s es) ∧ Inv4 (run c s es) := by
  unfold run
  induction es generalizing s with
  | nil => exact ⟨h3, h⟩
  | cons e es ih => exact ih _ (inv3_step c s e h3) (inv4_step c hc hsw s e h3 h)

end HS
